// C05 — allocation failure is reported and never corrupts the document.
// Scenarios = (state reached by a fault-free history, probe operation); for each scenario every
// single-failure position, every fail-from-k plan and (small N) every pair of positions is executed.
#pragma once
#include "hx.hpp"
#include "refmsgpack.hpp"
#include "gen.hpp"

namespace hx {

// ---- in-process enumeration of distinct states up to depth D
inline std::vector<History> enumerateStates(int D, const Alphabet& AB, size_t cap, bool& capped) {
  std::vector<History> all, frontier;
  std::set<std::string> seen;
  all.push_back({});
  frontier.push_back({});
  seen.insert("init");
  capped = false;
  for (int lvl = 1; lvl <= D; lvl++) {
    std::vector<History> next;
    for (auto& h : frontier) {
      World W;
      {
        Real R;
        for (auto& o : h) {
          Expect e = modelApply(W, o);
          realApply(R, o);
          if (e.resync) { W.M[0] = extract(R.D[0]->as<JsonVariantConst>()); W.M[1] = extract(R.D[1]->as<JsonVariantConst>()); }
        }
      }
      std::vector<Op> ops;
      enabledOps(W, AB, ops);
      for (auto& op : ops) {
        if (risky(op) || op.code == HANDLE_TAKE) continue;  // aliasing copies are a known finding of C04; handles are irrelevant here
        World W2 = W;
        Real R;
        for (auto& o : h) realApply(R, o);
        Expect e = modelApply(W2, op);
        std::string ret = realApply(R, op);
        if (!e.ret.empty() && ret != e.ret) continue;
        if (e.resync) { W2.M[0] = extract(R.D[0]->as<JsonVariantConst>()); W2.M[1] = extract(R.D[1]->as<JsonVariantConst>()); }
        std::string key = worldModelKey(W2) + concreteKey(R, nullptr);
        if (!seen.insert(key).second) continue;
        History h2 = h;
        h2.push_back(op);
        next.push_back(h2);
        if (cap && all.size() + next.size() >= cap) { capped = true; break; }
      }
      if (capped) break;
    }
    for (auto& h : next) all.push_back(h);
    frontier = next;
    if (capped) break;
  }
  return all;
}

// curated longer prefixes: pool-table growth, string de-duplication, nesting, copies between documents
inline std::vector<History> curatedPrefixes() {
  auto op = [](Code c, int doc, Path p, int a = 0, int b = 0, const std::string& key = "", const std::string& key2 = "", int doc2 = 0, Path p2 = {}) {
    Op o; o.code = c; o.doc = doc; o.path = p; o.a = a; o.b = b; o.key = key; o.key2 = key2; o.doc2 = doc2; o.path2 = p2; return o;
  };
  auto key = [](const std::string& k) { Step s; s.isKey = true; s.key = k; return s; };
  auto idx = [](size_t i) { Step s; s.idx = i; return s; };
  std::vector<History> H;
  {  // array of 9 scalars: three pools of 4 slots, pool table grown on the heap
    History h;
    for (int i = 0; i < 9; i++) h.push_back(op(ADD_SCALAR, 0, {}, i % 2 ? 7 : 3));
    H.push_back(h);
  }
  {  // object with copied keys and values sharing strings, nested array
    History h;
    h.push_back(op(SET_KEY, 0, {}, 7, 0, "k"));
    h.push_back(op(SET_KEY, 0, {}, 8, 0, "v2"));
    h.push_back(op(SET_KEY2, 0, {}, 8, 0, "a", "k"));
    h.push_back(op(ADD_SCALAR, 0, {key("a"), key("k")}, 2));
    H.push_back(h);
  }
  {  // two documents: D1 a deep structure, D0 a copy of it plus removals (free list populated)
    History h;
    h.push_back(op(DESERIALIZE, 1, {}, 0));
    h.push_back(op(ADD_VARIANT, 0, {}, 0, 0, "", "", 1, {}));
    h.push_back(op(ADD_VARIANT, 0, {}, 0, 0, "", "", 1, {key("k")}));
    h.push_back(op(REMOVE_INDEX, 0, {}, 0));
    H.push_back(h);
  }
  {  // extension slots and free list: doubles and 64-bit integers, then removal
    History h;
    for (int i = 0; i < 5; i++) h.push_back(op(ADD_SCALAR, 0, {}, i % 2 ? 5 : 3));
    h.push_back(op(REMOVE_INDEX, 0, {}, 1));
    h.push_back(op(REMOVE_INDEX, 0, {}, 2));
    H.push_back(h);
  }
  {  // deep proxy chain
    History h;
    h.push_back(op(SET_KEY2, 0, {}, 7, 0, "a", "b"));
    h.push_back(op(SET_KEY2, 0, {key("a")}, 8, 0, "c", "d"));
    h.push_back(op(SET_INDEX, 0, {key("a"), key("c")}, 2, 0));
    H.push_back(h);
  }
  (void)idx;
  return H;
}

inline bool membersPreserved(const MValue& pre, const MValue& post, const std::string& exceptKey, bool allowOneExtra, std::string& why) {
  if (post.kind != MValue::Obj) { why = "object became " + mtext(post).substr(0, 40); return false; }
  size_t j = 0;
  for (auto& kv : pre.o) {
    if (j >= post.o.size() || post.o[j].first != kv.first) { why = "member \"" + vis(kv.first) + "\" lost or moved"; return false; }
    if (kv.first != exceptKey && !mequal(kv.second, post.o[j].second)) { why = "sibling member \"" + vis(kv.first) + "\" changed"; return false; }
    j++;
  }
  size_t extra = post.o.size() - j;
  if (extra > (allowOneExtra ? 1u : 0u)) { why = "unexpected extra members"; return false; }
  if (extra == 1 && post.o[j].first != exceptKey) { why = "a member with a foreign key appeared"; return false; }
  return true;
}

inline bool targetRule(const MValue& pre, const MValue& post, const Op& op, const MValue& intended, std::string& why) {
  switch (op.code) {
    case ADD_SCALAR: case ADD_ARRAY: case ADD_OBJECT: case ADD_VARIANT:
      if (pre.kind == MValue::Null || pre.kind == MValue::Arr) {
        size_t n0 = pre.kind == MValue::Arr ? pre.a.size() : 0;
        if (pre.kind == MValue::Null && post.kind == MValue::Null) return true;
        if (post.kind != MValue::Arr || post.a.size() < n0 || post.a.size() > n0 + 1) { why = "append is not atomic: " + mtext(post).substr(0, 80); return false; }
        for (size_t i = 0; i < n0; i++) if (!mequal(pre.a[i], post.a[i])) { why = "element " + std::to_string(i) + " changed during an append"; return false; }
        // appends are atomic: unchanged, or exactly one COMPLETE element longer
        if (post.a.size() == n0 + 1 && !mequal(post.a[n0], intended)) {
          why = "a partially built element was appended: " + mtext(post.a[n0]).substr(0, 60) + " instead of " + mtext(intended).substr(0, 60);
          return false;
        }
        return true;
      }
      if (!mequal(pre, post)) { why = "append on a non-array changed the value"; return false; }
      return true;
    case COPY_ARRAY:
      // element-wise: the old elements stay, what was appended is (recursively) a sub-sequence of the intended elements
      if (pre.kind == MValue::Null || pre.kind == MValue::Arr) {
        size_t n0 = pre.kind == MValue::Arr ? pre.a.size() : 0;
        if (pre.kind == MValue::Null && post.kind == MValue::Null) return true;
        if (post.kind != MValue::Arr || post.a.size() < n0) { why = "copyArray shrank or re-typed its destination: " + mtext(post).substr(0, 80); return false; }
        for (size_t i = 0; i < n0; i++) if (!mequal(pre.a[i], post.a[i])) { why = "element " + std::to_string(i) + " changed during copyArray"; return false; }
        std::function<bool(const MValue&, const MValue&)> partOf = [&](const MValue& got, const MValue& want) {
          if (got.kind == MValue::Null) return true;  // an element whose value could not be stored
          if (want.kind != MValue::Arr) return mequal(got, want);
          if (got.kind != MValue::Arr) return false;
          size_t j = 0;
          for (auto& g : got.a) {
            while (j < want.a.size() && !partOf(g, want.a[j])) j++;
            if (j == want.a.size()) return false;
            j++;
          }
          return true;
        };
        MValue appended = MValue::array();
        for (size_t i = n0; i < post.a.size(); i++) appended.a.push_back(post.a[i]);
        if (!partOf(appended, intended)) { why = "copyArray appended something else than (part of) its source: " + mtext(appended).substr(0, 80); return false; }
        return true;
      }
      if (!mequal(pre, post)) { why = "copyArray on a non-array changed the value"; return false; }
      return true;
    case SET_INDEX:
      if (pre.kind == MValue::Null) return post.kind == MValue::Null || post.kind == MValue::Arr;
      if (pre.kind == MValue::Arr) {
        if (post.kind != MValue::Arr || post.a.size() < pre.a.size()) { why = "array shrank or changed kind"; return false; }
        for (size_t i = 0; i < pre.a.size(); i++)
          if (i != size_t(op.b) && !mequal(pre.a[i], post.a[i])) { why = "sibling element " + std::to_string(i) + " changed"; return false; }
        return true;
      }
      if (!mequal(pre, post)) { why = "index assignment on a non-array changed the value"; return false; }
      return true;
    case SET_KEY: case SET_KEY2:
      if (pre.kind == MValue::Null) {
        if (post.kind == MValue::Null) return true;
        MValue empty = MValue::object();
        return membersPreserved(empty, post, op.key, true, why);
      }
      if (pre.kind == MValue::Obj) return membersPreserved(pre, post, op.key, true, why);
      if (!mequal(pre, post)) { why = "member assignment on a non-object changed the value"; return false; }
      return true;
    default: return true;  // the target subtree is unconstrained
  }
}

inline bool frameWalk(const MValue& pre, const MValue& post, const Path& p, size_t i, const Op& op, const MValue& intended, std::string& why) {
  if (i == p.size()) return targetRule(pre, post, op, intended, why);
  const Step& c = p[i];
  if (pre.kind != post.kind) { why = "an ancestor of the target changed kind at depth " + std::to_string(i); return false; }
  if (c.isKey) {
    if (post.o.size() != pre.o.size()) { why = "an ancestor object changed its member count"; return false; }
    bool descended = false;
    for (size_t j = 0; j < pre.o.size(); j++) {
      if (pre.o[j].first != post.o[j].first) { why = "an ancestor object changed its keys"; return false; }
      if (!descended && pre.o[j].first == c.key) {
        descended = true;
        if (!frameWalk(pre.o[j].second, post.o[j].second, p, i + 1, op, intended, why)) return false;
      } else if (!mequal(pre.o[j].second, post.o[j].second)) {
        why = "value outside the modified path changed: member \"" + vis(pre.o[j].first) + "\"";
        return false;
      }
    }
    return true;
  }
  if (post.a.size() != pre.a.size()) { why = "an ancestor array changed its size"; return false; }
  for (size_t j = 0; j < pre.a.size(); j++) {
    if (j == c.idx) {
      if (!frameWalk(pre.a[j], post.a[j], p, i + 1, op, intended, why)) return false;
    } else if (!mequal(pre.a[j], post.a[j])) {
      why = "value outside the modified path changed: element " + std::to_string(j);
      return false;
    }
  }
  return true;
}

inline bool docLevel(const Op& o) {
  if (o.code == COPY_ARRAY && o.b == 1) return true;  // copyArray(src, JsonDocument&) starts with to<JsonArray>()
  Code c = o.code;
  return c == DOC_CLEAR || c == DOC_COPY_ASSIGN || c == DOC_MOVE_ASSIGN || c == DOC_SWAP || c == DOC_SET_DOC || c == DOC_FROM_VARIANT || c == SHRINK;
}

struct FaultOutcome {
  std::string problems;  // clause \t detail lines
  bool delivered = false;
  uint64_t calls = 0;
  void viol(const std::string& clause, const std::string& d) { problems += clause + "\t" + d + "\n"; }
};

// Executes prefix fault-free, then `op` under `plan` (empty plan = counting run).
// With `op2`: the plan stays armed after `op1` (a fail-from-k schedule spans operations) and `op2` is the operation that is
// judged - the second failing operation of one document, whose state after the first failure is read back from the real
// documents. *afterOp1 receives that state (for enumerating the second operations).
// `recovered`: `op2` runs with the allocator working again (the failure of `op1` was transient); then only the clauses that do
// not depend on what `op2` returns are judged: well-formedness, ledger, inspector, clear(), reuse, destruction.
inline FaultOutcome runScenario(const History& prefix, const Op& op1, const std::vector<uint64_t>& failAt, uint64_t failFrom,
                                const Op* op2 = nullptr, World* afterOp1 = nullptr, bool recovered = false) {
  FaultOutcome F;
  Op op = op1;
  World W;
  Real R;
  FaultPlan plan;
  R.A[0].shared = &plan;
  R.A[1].shared = &plan;
  for (auto& o : prefix) {
    Expect e = modelApply(W, o);
    realApply(R, o);
    if (e.resync) { W.M[0] = extract(R.D[0]->as<JsonVariantConst>()); W.M[1] = extract(R.D[1]->as<JsonVariantConst>()); }
  }
  R.A[0].takeErrors();
  R.A[1].takeErrors();
  World pre = W;
  plan.calls = 0;
  plan.failAt = failAt;
  plan.failFrom = failFrom;
  plan.armed = !failAt.empty() || failFrom;
  Expect E = modelApply(W, op);
  std::string ret = realApply(R, op);
  if (op2 || afterOp1) {
    bool was = plan.armed;
    plan.armed = false;  // reading the documents back must not consume fault positions
    W.M[0] = extract(R.D[0]->as<JsonVariantConst>());
    W.M[1] = extract(R.D[1]->as<JsonVariantConst>());
    plan.armed = was;
    if (afterOp1) *afterOp1 = W;
  }
  if (op2 && recovered) {
    if (plan.delivered == 0) return F;
    plan.armed = false;  // the allocator works again
    R.A[0].takeErrors();
    R.A[1].takeErrors();
    pre = W;
    op = *op2;
    E = modelApply(W, op);
    ret = realApply(R, op);
    F.calls = plan.calls;
    F.delivered = true;
  } else if (op2) {
    if (plan.delivered == 0) return F;  // the first operation met no fault: not a two-failure history
    uint64_t d0 = plan.delivered;
    R.A[0].takeErrors();
    R.A[1].takeErrors();
    R.A[0].faultsDelivered = R.A[1].faultsDelivered = 0;
    pre = W;
    op = *op2;
    E = modelApply(W, op);
    ret = realApply(R, op);
    plan.armed = false;
    F.calls = plan.calls;
    F.delivered = plan.delivered > d0;
    if (!F.delivered) return F;  // the second operation needed no allocation
  } else {
    plan.armed = false;
    F.calls = plan.calls;
    F.delivered = plan.delivered > 0;
    if (!F.delivered) return F;
  }
  // ---- reporting rule
  bool someOverflowed = recovered;
  for (int a = 0; a < 2; a++) {
    if (!R.A[a].faultsDelivered) continue;
    for (int d = 0; d < 2; d++)
      if (R.D[d]->allocator() == &R.A[a] && R.D[d]->overflowed()) someOverflowed = true;
  }
  if (!someOverflowed) F.viol("not-reported", "an allocation failed but overflowed() is false on every document of that allocator (returned " + ret + ")");
  if (!recovered && (E.ret == "T" || E.ret == "B" || E.ret == "Ok") && (ret == "T" || ret == "B" || ret == "Ok"))
    F.viol("not-reported", "an allocation failed but the call reported success (" + ret + ")");
  // ---- well-formedness + frame condition
  std::string lerr = R.A[0].takeErrors() + R.A[1].takeErrors();
  if (!lerr.empty()) F.viol("ledger", lerr);
  std::string cerr;
  concreteKey(R, &cerr);
  if (!cerr.empty()) F.viol("inspector", cerr);
  MValue post[2] = {extract(R.D[0]->as<JsonVariantConst>()), extract(R.D[1]->as<JsonVariantConst>())};
  for (int d = 0; d < 2; d++) {
    std::string obs = obsReal(R.D[d]->as<JsonVariantConst>());
    size_t bang = obs.find('!');
    if (bang != std::string::npos) F.viol("malformed", "D" + std::to_string(d) + " " + obs.substr(bang, 40));
  }
  bool moves = op.code == DOC_MOVE_ASSIGN || op.code == DOC_SWAP;
  if (!moves && !recovered) {
    int other = 1 - op.doc;
    if (!mequal(pre.M[other], post[other])) F.viol("frame", "the other document changed: " + mtext(post[other]).substr(0, 80) + " was " + mtext(pre.M[other]).substr(0, 80));
    if (!docLevel(op)) {
      std::string why;
      MValue intended = op.code == ADD_SCALAR ? scalarModel(op.a) : op.code == ADD_ARRAY ? MValue::array() : op.code == ADD_OBJECT ? MValue::object() : MValue::null();
      if (op.code == ADD_VARIANT) {
        MValue* src = at(pre.M[op.doc2], op.path2);
        if (src) intended = *src;
      }
      if (op.code == COPY_ARRAY) {
        World tmp;
        Op whole = op;
        whole.doc = 0;
        whole.path.clear();
        whole.b = op.b == 2 ? 2 : 0;
        modelApply(tmp, whole);
        intended = tmp.M[0];
      }
      if (!frameWalk(pre.M[op.doc], post[op.doc], op.path, 0, op, intended, why))
        F.viol("frame", why + " | before " + mtext(pre.M[op.doc]).substr(0, 100) + " after " + mtext(post[op.doc]).substr(0, 100));
    }
  }
  // ---- the documents are still well-formed trees: deep copies observe the same
  for (int d = 0; d < 2; d++) {
    JsonDocument copy(*R.D[d]);
    if (!copy.overflowed() && obsReal(copy.as<JsonVariantConst>()) != obsReal(R.D[d]->as<JsonVariantConst>()))
      F.viol("malformed", "a deep copy of D" + std::to_string(d) + " observes differently from its source");
  }
  // ---- memory is returned on clear(), the document works again, destruction leaves nothing
  for (int h = 0; h < NHANDLES; h++) R.RH[h] = JsonVariant();
  R.D[0]->clear();
  R.D[1]->clear();
  for (int a = 0; a < 2; a++)
    if (!R.A[a].live.empty()) F.viol("clear", R.A[a].name + " still holds blocks after clear() of both documents: " + R.A[a].liveSignature());
  for (int d = 0; d < 2; d++) {
    if (R.D[d]->overflowed()) F.viol("clear", "overflowed() still set after clear()");
    JsonDocument& doc = *R.D[d];
    bool ok = doc["x"][1].set(std::string("works")) && doc["n"].set(1e100) && doc["x"].add(-70000000000LL);
    std::string out;
    serializeJson(doc, out);
    if (!ok || out != "{\"x\":[null,\"works\",-70000000000],\"n\":1e100}") F.viol("reuse", "after clear() a canned build gives " + out);
  }
  std::string derr = R.destroyDocs();
  if (!derr.empty()) F.viol("destruction", derr);
  return F;
}

inline std::string planText(const std::vector<uint64_t>& at, uint64_t from) {
  std::string r;
  for (auto k : at) r += (r.empty() ? "" : "+") + std::to_string(k);
  if (from) r += "from" + std::to_string(from);
  return r;
}

// deserialization inputs under fault plans (JSON and MessagePack, with and without a filter)
inline void faultInputs(Ctx& C, bool thorough);

inline void runFault(Ctx& C) {
  int D = atoi(C.opt("depth", "1").c_str());
  Alphabet AB;
  AB.full = C.opt("alphabet", "reduced") == "full";
  bool capped = false;
  std::vector<History> states = enumerateStates(D, AB, size_t(atol(C.opt("cap", "0").c_str())), capped);
  if (capped) { C.complete = false; C.note("state cap reached while enumerating scenario prefixes"); }
  size_t nBfs = states.size();
  for (auto& h : curatedPrefixes()) states.push_back(h);
  std::string cfg = cfgName();
  uint64_t scenarios = 0, plans = 0, undelivered = 0, second = 0, recoveredOps = 0;
  const bool twoOps = !C.flag("single-op");
  for (size_t si = 0; si < states.size(); si++) {
    if (C.expired()) break;
    const History& h = states[si];
    World W;
    {
      Real R;
      for (auto& o : h) {
        Expect e = modelApply(W, o);
        realApply(R, o);
        if (e.resync) { W.M[0] = extract(R.D[0]->as<JsonVariantConst>()); W.M[1] = extract(R.D[1]->as<JsonVariantConst>()); }
      }
    }
    std::vector<Op> ops;
    Alphabet probeAB;
    probeAB.full = si >= nBfs ? false : AB.full;
    enabledOps(W, probeAB, ops);
    for (auto& op : ops) {
      if (risky(op) || op.code == HANDLE_TAKE) continue;
      if (!C.take()) continue;
      std::string key = caseKey(cfg, h, op);
      C.begin(key);
      scenarios++;
      FaultOutcome base = runScenario(h, op, {}, 0);
      uint64_t N = base.calls;
      C.maxMetrics["max_fault_positions_in_one_operation"] = std::max(C.maxMetrics["max_fault_positions_in_one_operation"], double(N));
      auto exec = [&](const std::vector<uint64_t>& at, uint64_t from) {
        plans++;
        C.evaluations++;  // one execution of the real library per fault plan
        FaultOutcome F = runScenario(h, op, at, from);
        if (!F.delivered) { undelivered++; return; }
        C.nontrivial(fnv1a(key + planText(at, from)));
        C.outcome(std::string(kCodeName[op.code]) + (F.problems.empty() ? ":ok" : ":violation"));
        size_t i = 0;
        while (i < F.problems.size()) {
          size_t j = F.problems.find('\n', i), t = F.problems.find('\t', i);
          C.failKey(key + "|fault=" + planText(at, from), F.problems.substr(i, t - i), F.problems.substr(t + 1, j - t - 1));
          i = j + 1;
        }
      };
      for (uint64_t k = 1; k <= N; k++) exec({k}, 0);
      for (uint64_t k = 1; k < N; k++) exec({}, k);
      // a transient failure: allocation k fails, then the allocator works again and every enabled operation (including
      // shrinkToFit, deserialization and the document-level ones) follows WITHOUT a clear() in between; whatever that
      // operation returns, the documents stay well-formed and every block is still returned on clear() and destruction
      if (twoOps) {
        for (uint64_t k = 1; k <= N; k++) {
          World W1;
          FaultOutcome F1 = runScenario(h, op, {k}, 0, nullptr, &W1);
          if (!F1.delivered) continue;
          std::vector<Op> ops2;
          Alphabet ab2;
          ab2.full = false;
          enabledOps(W1, ab2, ops2);
          for (auto& o2 : ops2) {
            if (risky(o2) || o2.code == HANDLE_TAKE) continue;
            if (o2.code == SET_SCALAR && o2.a != 2 && o2.a != 7 && o2.a != 12) continue;  // one value of each storage class is enough here
            plans++;
            C.evaluations++;
            FaultOutcome F = runScenario(h, op, {k}, 0, &o2, nullptr, true);
            if (!F.delivered) { undelivered++; continue; }
            std::string k2 = key + "|fault=" + std::to_string(k) + "|recovered-then=" + opText(o2);
            C.nontrivial(fnv1a(k2));
            recoveredOps++;
            C.outcome(std::string("recovered-then-") + kCodeName[o2.code] + (F.problems.empty() ? ":ok" : ":violation"));
            size_t i = 0;
            while (i < F.problems.size()) {
              size_t j = F.problems.find('\n', i), t = F.problems.find('\t', i);
              C.failKey(k2, F.problems.substr(i, t - i), F.problems.substr(t + 1, j - t - 1));
              i = j + 1;
            }
          }
        }
      }
      // two failing operations in a row: the allocator keeps failing from position k on, and every operation enabled in the
      // state that the first failure left behind is the second one
      if (twoOps) {
        for (uint64_t k = 1; k <= N; k++) {
          World W1;
          FaultOutcome F1 = runScenario(h, op, {}, k, nullptr, &W1);
          if (!F1.delivered) continue;
          std::vector<Op> ops2;
          Alphabet ab2;
          ab2.full = false;
          enabledOps(W1, ab2, ops2);
          for (auto& o2 : ops2) {
            if (risky(o2) || o2.code == HANDLE_TAKE || docLevel(o2) || o2.code == DESERIALIZE) continue;
            plans++;
            C.evaluations++;
            FaultOutcome F = runScenario(h, op, {}, k, &o2);
            if (!F.delivered) { undelivered++; continue; }
            std::string k2 = key + "|fault=from" + std::to_string(k) + "|then=" + opText(o2);
            C.nontrivial(fnv1a(k2));
            second++;
            C.outcome(std::string("then-") + kCodeName[o2.code] + (F.problems.empty() ? ":ok" : ":violation"));
            size_t i = 0;
            while (i < F.problems.size()) {
              size_t j = F.problems.find('\n', i), t = F.problems.find('\t', i);
              C.failKey(k2, F.problems.substr(i, t - i), F.problems.substr(t + 1, j - t - 1));
              i = j + 1;
            }
          }
        }
      }
      if (N <= 16)
        for (uint64_t i = 1; i <= N; i++)
          for (uint64_t j = i + 1; j <= N; j++) exec({i, j}, 0);
      C.end();
    }
  }
  C.metrics["scenarios"] += double(scenarios);
  C.metrics["fault_plans_executed"] += double(plans);
  C.metrics["fault_plans_not_reached"] += double(undelivered);
  C.metrics["second_failing_operations_judged"] += double(second);
  C.metrics["operations_after_a_transient_failure_judged"] += double(recoveredOps);
  if (C.shard == 0) C.metrics["scenario_prefix_states"] += double(states.size());
  faultInputs(C, C.thorough());
  C.bound("prefixes: all distinct states of depth <= " + std::to_string(D) + " (" + (AB.full ? "full" : "reduced") + " alphabet) + 5 curated longer ones; probes: every enabled "
          "operation; plans: every single position, every fail-from-k, every pair when N <= 16; "
          "two failing operations in a row: every fail-from-k schedule continued into every enabled second operation; transient failures: every single-position plan "
          "followed, with the allocator working again and without clear(), by every enabled operation; geometry " + cfg);
}


inline void faultInputs(Ctx& C, bool thorough) {
  TreeGen G;
  MValue big = MValue::f64(1e100);
  big.s = "1e100";
  MValue neg = MValue::integer(-70000000000LL);
  G.leavesTop = {MValue::null(), MValue::boolean(true), MValue::integer(42), neg, big, MValue::integer((i128(1) << 64) - 1), MValue::str(""), MValue::str("a"),
                 MValue::str(std::string(40, 'x'))};
  G.keys = {"a", "b", std::string(33, 'k')};
  G.dupKeys = true;  // a repeated key is how a deserializer overwrites a slot that is not the tail of its list
  const size_t maxLen = detail::StringNode::maxLength;
  if (maxLen <= 255) {
    // 1-byte string lengths: strings at and just above the maximum are cheap to enumerate.  The over-long one must be
    // refused (NoMemory) with or without injected faults, and all memory must still come back.
    G.leavesTop.push_back(MValue::str(std::string(maxLen, 'm')));
    G.leavesTop.push_back(MValue::str(std::string(maxLen + 1, 'z')));
  }
  std::function<bool(const MValue&)> overlong = [&](const MValue& m) {
    if (m.kind == MValue::Str && m.s.size() > maxLen) return true;
    for (auto& e : m.a) if (overlong(e)) return true;
    for (auto& kv : m.o) if (kv.first.size() > maxLen || overlong(kv.second)) return true;
    return false;
  };
  int N = 3;
  (void)thorough;
  MValue filterModel = MValue::object();
  filterModel.o.emplace_back("a", MValue::boolean(true));
  uint64_t plans = 0, runs = 0;
  G.upTo(N, [&](const MValue& tree) {
    if (C.expired()) return;
    if (!C.take()) return;
    refjson::PrintOpt po;
    std::string json = refjson::printDoc(tree, po), mp = refmp::encode(tree);
    C.begin("fault-input:" + vis(json));
    for (int fmt = 0; fmt < 2; fmt++) {
      for (int filt = 0; filt < 2; filt++) {
        const std::string& in = fmt ? mp : json;
        auto once = [&](const std::vector<uint64_t>& at, uint64_t from, uint64_t& calls, bool& delivered) {
          std::string problems;
          FaultPlan plan;
          LedgerAllocator A("A");
          A.shared = &plan;
          {
            JsonDocument fdoc;
            build(fdoc.to<JsonVariant>(), filterModel);
            JsonDocument doc(&A);
            plan.failAt = at;
            plan.failFrom = from;
            plan.armed = !at.empty() || from;
            DeserializationError err;
            if (fmt == 0) err = filt ? deserializeJson(doc, in, DeserializationOption::Filter(fdoc)) : deserializeJson(doc, in);
            else err = filt ? deserializeMsgPack(doc, in, DeserializationOption::Filter(fdoc)) : deserializeMsgPack(doc, in);
            plan.armed = false;
            calls = plan.calls;
            delivered = plan.delivered > 0;
            if (delivered) {
              if (err != DeserializationError::NoMemory) problems += std::string("not-reported\tan allocation failed but the result is ") + err.c_str() + "\n";
              if (!doc.overflowed()) problems += "not-reported\tan allocation failed but overflowed() is false\n";
            } else if (overlong(tree) && filt == 0) {
              if (err != DeserializationError::NoMemory) problems += std::string("not-reported\ta string longer than the maximum gave ") + err.c_str() + " instead of NoMemory\n";
            } else if (err != DeserializationError::Ok && !overlong(tree)) {
              problems += std::string("generator\tfault-free run of a valid input returned ") + err.c_str() + "\n";
            }
            std::string obs = obsReal(doc.as<JsonVariantConst>());
            size_t bang = obs.find('!');
            if (bang != std::string::npos) problems += "malformed\t" + obs.substr(bang, 40) + "\n";
#ifndef VERIF_NO_INSPECTOR
            Inspector::Report rep = Inspector::inspect(doc);
            if (!rep.errors.empty()) problems += "inspector\t" + rep.errors + "\n";
#endif
            {
              JsonDocument copy(doc);
              if (!copy.overflowed() && obsReal(copy.as<JsonVariantConst>()) != obs) problems += "malformed\ta deep copy observes differently\n";
            }
            std::string lerr = A.takeErrors();
            if (!lerr.empty()) problems += "ledger\t" + lerr + "\n";
            // the document is used again WITHOUT clear(), the allocator working: insertions, shrinkToFit, more insertions
            for (int round = 0; round < 2; round++) {
              for (int i = 0; i < 3; i++) {
                if (doc.is<JsonObject>()) doc[std::string("zz") + char('0' + i + 3 * round)] = 18446744073709551615ULL;
                else if (doc.is<JsonArray>() || doc.isNull()) doc.add(1e100);
              }
              if (round == 0) doc.shrinkToFit();
            }
            {
              std::string obs2 = obsReal(doc.as<JsonVariantConst>());
              size_t bang2 = obs2.find('!');
              if (bang2 != std::string::npos) problems += "malformed\tafter insertions that follow the failure: " + obs2.substr(bang2, 40) + "\n";
#ifndef VERIF_NO_INSPECTOR
              Inspector::Report rep2 = Inspector::inspect(doc);
              if (!rep2.errors.empty()) problems += "inspector\tafter insertions that follow the failure: " + rep2.errors + "\n";
#endif
              std::string lerr2 = A.takeErrors();
              if (!lerr2.empty()) problems += "ledger\tafter insertions that follow the failure: " + lerr2 + "\n";
            }
            // every other plan destroys the document without clear()
            uint64_t sel = from ? from : at.empty() ? 1 : at[0];
            if (sel % 2) {
              doc.clear();
              if (!A.live.empty()) problems += "clear\tblocks still live after clear(): " + A.liveSignature() + "\n";
              if (doc.overflowed()) problems += "clear\toverflowed() still set after clear()\n";
              if (deserializeJson(doc, "{\"x\":[null,\"works\"]}") != DeserializationError::Ok || doc["x"][1] != "works")
                problems += "reuse\tthe document does not work after clear()\n";
            }
          }
          if (!A.live.empty()) problems += "destruction\tblocks live after destruction\n";
          return problems;
        };
        uint64_t Ncalls = 0;
        bool delivered = false;
        std::string p0 = once({}, 0, Ncalls, delivered);
        runs++;
        std::string tag = std::string("|fmt=") + (fmt ? "msgpack" : "json") + (filt ? "|filter={a:true}" : "|filter=none");
        auto report = [&](const std::string& problems, const std::string& plan) {
          size_t i = 0;
          while (i < problems.size()) {
            size_t j = problems.find('\n', i), t = problems.find('\t', i);
            C.failKey(C.curKey + tag + "|fault=" + plan, problems.substr(i, t - i), problems.substr(t + 1, j - t - 1));
            i = j + 1;
          }
        };
        report(p0, "none");
        auto exec = [&](const std::vector<uint64_t>& at, uint64_t from) {
          uint64_t c;
          bool d;
          plans++;
          C.evaluations++;
          std::string pr = once(at, from, c, d);
          if (d) C.nontrivial(fnv1a(C.curKey + tag + planText(at, from)));
          C.outcome(std::string(fmt ? "msgpack" : "json") + (d ? ":fault-delivered" : ":fault-not-reached"));
          report(pr, planText(at, from));
        };
        for (uint64_t k = 1; k <= Ncalls; k++) exec({k}, 0);
        for (uint64_t k = 1; k < Ncalls; k++) exec({}, k);
        if (Ncalls <= 12)
          for (uint64_t i = 1; i <= Ncalls; i++)
            for (uint64_t j = i + 1; j <= Ncalls; j++) exec({i, j}, 0);
      }
    }
    C.end();
  });
  C.metrics["input_fault_plans_executed"] += double(plans);
  C.bound("deserialization inputs: all trees <= " + std::to_string(N) + " nodes over 9 leaves and 3 keys with repetition, JSON and MessagePack, with and without a filter, under every single "
          "failure, every fail-from-k and every pair (N <= 12); after each: insertions, shrinkToFit and more insertions without clear(), then clear() or plain destruction");
}

}  // namespace hx
