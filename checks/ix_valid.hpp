// C01 — every RFC 8259 text within the limits deserializes to exactly the value it denotes.
// Enumerates all trees up to N nodes over a boundary alphabet, printed by the independent reference
// printer in every escape spelling and whitespace layout, into every destination state.
#pragma once
#include <ArduinoJson.h>

#include "common.hpp"
#include "gen.hpp"
#include "ledger_alloc.hpp"
#include "model.hpp"
#include "refjson.hpp"

namespace ix_valid {
using namespace ArduinoJson;
using namespace verif;

inline MValue numLeaf(const char* lit) {
  refjson::NumLit n = refjson::classifyNumber(lit);
  MValue m = n.isInteger ? MValue::integer(n.ival) : MValue::f64((double)n.v);
  m.s = lit;
  return m;
}

inline std::string repeat(const std::string& unit, size_t n) {
  std::string r;
  while (r.size() < n) r += unit;
  r.resize(n);
  return r;
}

inline std::vector<MValue> leafAlphabet(bool reduced) {
  std::vector<MValue> L;
  L.push_back(MValue::null());
  L.push_back(MValue::boolean(true));
  L.push_back(MValue::boolean(false));
  const char* nums[] = {"0", "1", "-1", "0.5", "1e2", "-0", "2147483647", "2147483648", "-2147483648", "-2147483649",
                        "4294967295", "4294967296", "9223372036854775807", "9223372036854775808",
                        "-9223372036854775808", "-9223372036854775809", "18446744073709551615",
                        "18446744073709551616", "-2.5e-3", "1E+2", "10e38", "1.5e300", "123456789012",
                        "3.4028235e38", "1e-5", "1234567890123456789012345678901234567890123456789012345678901.5"};
  size_t nn = reduced ? 5 : sizeof(nums) / sizeof(nums[0]);
  for (size_t i = 0; i < nn; i++) L.push_back(numLeaf(nums[i]));
  L.push_back(MValue::str(""));
  L.push_back(MValue::str("a"));
  L.push_back(MValue::str(std::string("a\0b", 3)));
  if (!reduced) {
    L.push_back(MValue::str(std::string("\0", 1)));
    L.push_back(MValue::str("\"\\/\b\f\n\r\t"));
    L.push_back(MValue::str("\xc3\xa9"));          // é
    L.push_back(MValue::str("\xe2\x82\xac"));      // €
    L.push_back(MValue::str("\xf0\x9f\x98\x80"));  // 😀
    L.push_back(MValue::str("\x01\x1f\x7f"));
    for (size_t n : {30, 31, 32, 33, 63, 64}) L.push_back(MValue::str(repeat("abcdefghij", n)));
  }
  return L;
}

inline std::vector<std::string> keyAlphabet() {
  return {"", "a", "ab", std::string("a\0", 2), std::string("a\0b", 3), "b"};
}

static const char* kDst[] = {"fresh", "populated", "overflowed", "member", "element", "member-of-overflowed", "element-of-overflowed"};
static const int NDST = 7;

struct Outcome {
  DeserializationError::Code code;
  MValue got;
  std::string marker;  // '!'-markers of obsReal
  std::string extra;   // frame problems
  std::string liveSig;
};

// run one deserialization into destination state `dst`
inline Outcome runOne(const std::string& text, int dst, bool sized) {
  Outcome o;
  LedgerAllocator A;
  {
    JsonDocument doc(&A);
    JsonVariant target;
    switch (dst) {
      case 1:
        doc["old"] = std::string("old-value-copied");
        doc["arr"][0] = 1e100;
        doc["arr"][1] = std::string("x");
        break;
      case 2:
        A.failAll = true;
        doc["k"] = std::string("copied");
        A.failAll = false;
        break;
      case 3:
      case 5:
        doc["keep"] = std::string("kept");
        doc["x"] = std::string("old");
        doc["after"] = 7;
        break;
      case 4:
      case 6:
        doc.add(1);
        doc.add(std::string("old"));
        doc.add(3);
        break;
    }
    if (dst == 5 || dst == 6) {  // an earlier, unrelated failure left overflowed() set on the document (only clear() resets it)
      A.failAll = true;
      if (dst == 5) doc["x"].set(std::string("a copied string whose allocation is refused"));
      else doc[1].set(std::string("a copied string whose allocation is refused"));
      A.failAll = false;
      if (!doc.overflowed()) o.extra += "harness: the destination document is not in the overflowed state; ";
    }
    if (dst == 5) dst = 3;
    if (dst == 6) dst = 4;
    DeserializationError err;
    if (dst == 3) {
      err = sized ? deserializeJson(doc["x"], text.data(), text.size()) : deserializeJson(doc["x"], text.c_str());
      target = doc["x"];
      if (doc["keep"] != "kept" || doc["after"] != 7 || doc.size() != 3) o.extra += "siblings of the member destination changed; ";
    } else if (dst == 4) {
      JsonVariant v = doc[1];
      err = sized ? deserializeJson(v, text.data(), text.size()) : deserializeJson(v, text.c_str());
      target = doc[1];
      if (doc[0] != 1 || doc[2] != 3 || doc.size() != 3) o.extra += "siblings of the element destination changed; ";
    } else {
      err = sized ? deserializeJson(doc, text.data(), text.size()) : deserializeJson(doc, text.c_str());
      target = doc.as<JsonVariant>();
      if (err == DeserializationError::Ok && doc.overflowed()) o.extra += "overflowed() set after Ok; ";
    }
    o.code = err.code();
    std::string obs = obsReal(target);
    size_t bang = obs.find('!');
    if (bang != std::string::npos) o.marker = obs.substr(bang, 40);
    o.got = extract(target);
    if (doc.nesting() > ARDUINOJSON_DEFAULT_NESTING_LIMIT + (dst >= 3 ? 1 : 0)) o.extra += "nesting() above the limit; ";
    o.liveSig = A.liveSignature();
    o.extra += A.takeErrors();
  }
  if (!A.live.empty()) o.extra += "blocks live after destruction; ";
  o.extra += A.takeErrors();
  return o;
}

inline void judge(Ctx& C, const std::string& text, const MValue& wantFirst, const MValue& wantLast, bool dups, int dst,
                  bool sized, const std::string* freshSig, std::string* sigOut) {
  Outcome o = runOne(text, dst, sized);
  std::string tag = std::string("|dst=") + kDst[dst] + (sized ? "|kind=sized" : "|kind=cstr");
  if (sigOut) *sigOut = o.liveSig;
  if (o.code != DeserializationError::Ok) {
    C.failKey(C.curKey + tag, "not-ok", std::string("returned ") + DeserializationError(o.code).c_str());
    return;
  }
  std::string why;
  bool ok = refjson::matches(o.got, wantFirst, why);
  if (!ok && dups) {
    std::string why2;
    ok = refjson::matches(o.got, wantLast, why2);
  }
  if (!ok) C.failKey(C.curKey + tag, "value", why);
  if (!o.marker.empty()) C.failKey(C.curKey + tag, "api-consistency", o.marker);
  if (!o.extra.empty()) C.failKey(C.curKey + tag, "frame", o.extra);
  if (freshSig && dst >= 1 && dst <= 2 && o.liveSig != *freshSig)
    C.failKey(C.curKey + tag, "replaced", "live blocks after the call differ from a fresh document: " + o.liveSig + " vs " + *freshSig);
}

inline bool hasString(const MValue& m) {
  if (m.kind == MValue::Str) return true;
  for (auto& e : m.a) if (hasString(e)) return true;
  return !m.o.empty();
}

// ---- documents larger than the inline pool table: fresh, re-used after a large document, and nested destinations inside a
// host that was itself produced by deserializeJson (hence shrunk: heap pool table of exactly count_ entries)
inline std::string bigArray(size_t k, size_t base = 0) {
  std::string t = "[";
  for (size_t i = 0; i < k; i++) t += (i ? "," : "") + std::to_string((base + i) % 1000);
  return t + "]";
}
inline std::string bigObject(size_t k) {
  std::string t = "{";
  for (size_t i = 0; i < k; i++) t += std::string(i ? "," : "") + "\"k" + std::to_string(i) + "\":" + std::to_string(i % 1000);
  return t + "}";
}
inline std::string checkBigArray(JsonVariantConst v, size_t k, size_t base = 0) {
  if (!v.is<JsonArrayConst>()) return "not an array; ";
  if (v.size() != k) return "size() is " + std::to_string(v.size()) + ", expected " + std::to_string(k) + "; ";
  size_t i = 0;
  for (JsonVariantConst e : v.as<JsonArrayConst>()) {
    if (!e.is<int>() || e.as<size_t>() != (base + i) % 1000) return "element " + std::to_string(i) + " reads " + e.as<std::string>() + "; ";
    i++;
  }
  return i == k ? "" : "iteration yields " + std::to_string(i) + " elements; ";
}
inline std::string checkBigObject(JsonVariantConst v, size_t k) {
  if (!v.is<JsonObjectConst>()) return "not an object; ";
  if (v.size() != k) return "size() is " + std::to_string(v.size()) + ", expected " + std::to_string(k) + "; ";
  size_t i = 0;
  for (JsonPairConst p : v.as<JsonObjectConst>()) {
    if (std::string(p.key().c_str()) != "k" + std::to_string(i) || p.value().as<size_t>() != i % 1000) return "member " + std::to_string(i) + " is wrong; ";
    i++;
  }
  if (k && v["k" + std::to_string(k - 1)].as<size_t>() != (k - 1) % 1000) return "lookup of the last key fails; ";
  return i == k ? "" : "iteration yields " + std::to_string(i) + " members; ";
}

inline void largeFamily(Ctx& C) {
  const size_t CAP = ARDUINOJSON_POOL_CAPACITY, INIT = ARDUINOJSON_INITIAL_POOL_COUNT;
  const size_t LIMIT = sizeof(detail::SlotId) >= 4 ? size_t(1) << 30 : (size_t(1) << (8 * sizeof(detail::SlotId))) - 1;
  std::vector<size_t> Ks = {INIT * CAP - 1, INIT * CAP, INIT * CAP + 1, 2 * INIT * CAP + 1};
  for (size_t K : Ks) {
    if (2 * K + 8 > LIMIT) continue;  // must stay within the slot-id range of this geometry (C19 owns the limit itself)
    for (int shape = 0; shape < 4; shape++) {
      if (!C.take()) continue;
      static const char* names[] = {"fresh", "reused-after-large", "member-of-parsed-host", "element-of-parsed-host"};
      C.begin("in:json:large|K=" + std::to_string(K) + "|dst=" + names[shape]);
      LedgerAllocator A;
      std::string problems;
      {
        JsonDocument doc(&A);
        auto parse = [&](JsonVariant dstv, bool intoDoc, const std::string& text, const char* what) {
          DeserializationError err = intoDoc ? deserializeJson(doc, text) : deserializeJson(dstv, text);
          if (err != DeserializationError::Ok) problems += std::string(what) + ": returned " + err.c_str() + "; ";
          return err == DeserializationError::Ok;
        };
        if (shape == 0) {
          if (parse(JsonVariant(), true, bigArray(K), "array")) problems += checkBigArray(doc.as<JsonVariantConst>(), K);
          if (parse(JsonVariant(), true, bigObject(K / 2), "object")) problems += checkBigObject(doc.as<JsonVariantConst>(), K / 2);
        } else if (shape == 1) {
          // the same document receives a large text, the same again, a large object, a larger array, a tiny one, a large one
          parse(JsonVariant(), true, bigArray(K), "first");
          if (parse(JsonVariant(), true, bigArray(K, 7), "second")) problems += checkBigArray(doc.as<JsonVariantConst>(), K, 7);
          if (parse(JsonVariant(), true, bigObject(K / 2), "third")) problems += checkBigObject(doc.as<JsonVariantConst>(), K / 2);
          if (2 * K + 8 <= LIMIT && parse(JsonVariant(), true, bigArray(K + CAP + 1), "fourth")) problems += checkBigArray(doc.as<JsonVariantConst>(), K + CAP + 1);
          if (parse(JsonVariant(), true, "[1]", "tiny") && (doc.size() != 1 || doc[0] != 1)) problems += "tiny document wrong after large ones; ";
          doc.clear();
          if (parse(JsonVariant(), true, bigArray(K, 3), "after clear()")) problems += checkBigArray(doc.as<JsonVariantConst>(), K, 3);
        } else {
          // host produced by deserializeJson (shrunk); then nested destinations that need 1, 2 and INIT+1 further pools
          bool member = shape == 2;
          std::string host = member ? "{\"x\":\"old\",\"pad\":" + bigArray(K) + ",\"after\":7}" : "[1,\"old\"," + bigArray(K) + ",3]";
          if (3 * K + 3 * CAP + 16 <= LIMIT && parse(JsonVariant(), true, host, "host")) {
            for (size_t inner : {size_t(1), CAP + 1, (INIT + 1) * CAP + 1}) {
              if (K + inner + 3 * CAP + 16 > LIMIT) continue;
              JsonVariant d = member ? doc["x"].as<JsonVariant>() : doc[1].as<JsonVariant>();
              if (parse(d, false, bigArray(inner, 5), "nested")) {
                problems += checkBigArray(member ? doc["x"].as<JsonVariantConst>() : doc[1].as<JsonVariantConst>(), inner, 5);
                problems += checkBigArray(member ? doc["pad"].as<JsonVariantConst>() : doc[2].as<JsonVariantConst>(), K);
                if (member ? (doc["after"] != 7 || doc.size() != 3) : (doc[0] != 1 || doc[3] != 3 || doc.size() != 4)) problems += "siblings of the nested destination changed; ";
              }
            }
          }
        }
        problems += A.takeErrors();
      }
      if (!A.live.empty()) problems += "blocks live after destruction; ";
      problems += A.takeErrors();
      if (!problems.empty()) C.fail("large", problems);
      C.nontrivial();
      C.outcome(std::string("large-") + names[shape]);
      C.end();
    }
  }
  C.bound("documents of INIT*CAP-1, INIT*CAP, INIT*CAP+1 and 2*INIT*CAP+1 slots (pool-table boundaries of this geometry): fresh, the same document "
          "re-used for a sequence of large and small texts, and member / element destinations inside a host that was itself parsed (shrunk)");
}

// literals whose value depends on the interplay of mantissa and exponent, zero in every spelling, more than 7 significant digits
inline std::vector<const char*> extraNumbers() {
  return {"0.0", "-0.0", "0e0", "0E+512", "0.0e999", "-0e-999", "0.000e-5", "1e-600", "1000000000e-309", "0.0000000001e310",
          "3.141592653589793", "-0.000123456789012", "123456789.125", "1.7976931348623157e308", "4.9e-324", "2.2250738585072014e-308",
          "0.1", "1e23", "9007199254740993", "0.30000000000000004"};
}

inline void run(Ctx& C) {
  const bool T = C.thorough();
  int N = atoi(C.opt("nodes", "3").c_str());
  TreeGen G;
  G.leavesTop = leafAlphabet(false);
  G.leavesDeep = leafAlphabet(true);
  G.deepFrom = 3;
  G.keys = keyAlphabet();
  G.dupKeys = true;
  bool stop = false;
  G.abort = &stop;
  uint64_t texts = 0;
  auto perTree = [&](const MValue& tree) {
    if (C.expired()) { stop = true; return; }
    if (!C.take()) return;
    refjson::PrintOpt base;
    std::string text = refjson::printDoc(tree, base);
    C.begin("in:json:" + vis(text));
    // the oracle: the independent parser must accept its own printer's output (self-check) and gives the value
    MValue parsed;
    std::string perr;
    if (!refjson::parse(text, parsed, &perr)) {
      C.fail("selfcheck", "reference parser rejects reference printer output: " + perr);
      C.end();
      return;
    }
    bool dups = refjson::hasDuplicateKeys(parsed);
    MValue wantFirst = refjson::dedup(parsed, true), wantLast = refjson::dedup(parsed, false);
    if (tree.kind == MValue::Arr || tree.kind == MValue::Obj || dups) C.nontrivial();
    C.outcome(dups ? "duplicate-keys" : tree.kind == MValue::Arr ? "array" : tree.kind == MValue::Obj ? "object" : "scalar");
    std::string freshSig;
    judge(C, text, wantFirst, wantLast, dups, 0, false, nullptr, &freshSig);
    judge(C, text, wantFirst, wantLast, dups, 0, true, nullptr, nullptr);
    for (int dst = 1; dst < NDST; dst++) judge(C, text, wantFirst, wantLast, dups, dst, (dst & 1) != 0, &freshSig, nullptr);
    texts += 1 + NDST;
    // escape spellings
    if (hasString(tree)) {
      for (int sp = 1; sp <= 3; sp++) {
        refjson::PrintOpt o;
        o.spelling = sp;
        std::string t2 = refjson::printDoc(tree, o);
        if (t2 == text) continue;
        MValue p2;
        if (!refjson::parse(t2, p2, &perr) || !mequal(p2, parsed)) {
          C.failKey("in:json:" + vis(t2), "selfcheck", "reference disagrees with itself on a respelled text: " + perr);
          continue;
        }
        std::string save = C.curKey;
        C.curKey = "in:json:" + vis(t2);
        judge(C, t2, wantFirst, wantLast, dups, 0, sp == 2, nullptr, nullptr);
        C.curKey = save;
        texts++;
      }
    }
    // whitespace layouts
    int npos = refjson::wsPositions(tree);
    auto layoutRun = [&](const refjson::PrintOpt& o) {
      std::string t2 = refjson::printDoc(tree, o);
      std::string save = C.curKey;
      C.curKey = "in:json:" + vis(t2);
      judge(C, t2, wantFirst, wantLast, dups, 0, (o.wsPos & 1) != 0, nullptr, nullptr);
      C.curKey = save;
      texts++;
    };
    for (int lay = 1; lay <= 2; lay++) {
      refjson::PrintOpt o;
      o.layout = lay;
      layoutRun(o);
    }
    for (int pos = 0; pos < npos; pos++) {
      for (char wc : {' ', '\n', '\r', '\t'}) {
        refjson::PrintOpt o;
        o.layout = 3;
        o.wsPos = pos;
        o.wsChar = wc;
        layoutRun(o);
      }
    }
    C.end();
  };
  G.upTo(N, perTree);
  for (const char* lit : extraNumbers()) {
    MValue leaf = numLeaf(lit), arr = MValue::array(), obj = MValue::object();
    arr.a.push_back(leaf);
    obj.o.emplace_back("a", leaf);
    perTree(leaf);
    perTree(arr);
    perTree(obj);
  }
  C.bound("plus " + std::to_string(extraNumbers().size()) + " further number literals (zero in every spelling, mantissa/exponent interplay, > 7 significant digits) alone, in an array, in an object");
  largeFamily(C);
  int deepN = atoi(C.opt("deep-nodes", T ? "4" : "0").c_str());
  if (deepN > N) {
    // larger trees: the reduced leaf alphabet everywhere below the root
    G.deepFrom = 1;
    for (int k = N + 1; k <= deepN; k++) G.exact(k, 0, perTree);
    C.bound("plus all trees with " + std::to_string(N + 1) + ".." + std::to_string(deepN) + " nodes whose leaves below the root come from the " +
            std::to_string(G.leavesDeep.size()) + "-leaf reduced alphabet");
  }
  C.metrics["texts_parsed"] += double(texts);
  C.bound("all trees with <= " + std::to_string(N) + " nodes over " + std::to_string(G.leavesTop.size()) + " leaves (" +
          std::to_string(G.leavesDeep.size()) + " at depth >= " + std::to_string(G.deepFrom) +
          ") and 6 keys with repetition; x 4 escape spellings x {no ws, space everywhere, CR LF TAB SP everywhere, "
          "every single ws position x 4 ws characters} x 7 destination states (fresh, populated, overflowed, member, element, member / element of an overflowed document) x {const char*, ptr+size}");
}
}  // namespace ix_valid
