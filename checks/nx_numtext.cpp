#include "nx_numtext.hpp"
int main(int argc, char** argv) {
  verif::Ctx C(argc, argv);
  if (C.mode == "parse") {
    nx_numtext::runParse(C);
  } else if (C.mode == "print") {
    nx_numtext::runPrint(C);
  } else {
    fprintf(stderr, "nx_numtext: unknown --mode '%s' (parse|print)\n", C.mode.c_str());
    return 3;
  }
  return C.finish();
}
