// dx — serializer-side harness: C02 (json), C07 (roundtrip), C08 (msgpack, msgpack-big, msgpack-floats)
#include "dx_msgpack.hpp"

int main(int argc, char** argv) {
  verif::Ctx C(argc, argv);
  if (C.mode == "json") dx::runJson(C);
  else if (C.mode == "roundtrip") dx::runRoundTrip(C);
  else if (C.mode == "msgpack") dx::runMsgPack(C);
  else if (C.mode == "msgpack-big") dx::runMsgPackBig(C);
  else if (C.mode == "msgpack-floats") dx::runAllFloats(C);
  else {
    fprintf(stderr, "dx: unknown mode '%s'\n", C.mode.c_str());
    return 3;
  }
  return C.finish();
}
