#include "ix_ledger.hpp"
int main(int argc, char** argv) {
  verif::Ctx C(argc, argv);
  ix_ledger::run(C);
  return C.finish();
}
