#include "nx_unicode.hpp"
int main(int argc, char** argv) {
  verif::Ctx C(argc, argv);
  nx_unicode::run(C);
  return C.finish();
}
