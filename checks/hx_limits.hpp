// C19 (limits part) — capacity limits are clean edges: fill a document to limit-1 / limit / limit+1 slots,
// remove and refill, clear and refill; strings at max-1 / max / max+1; reference counts at their maximum.
// Compiled per geometry (slot-id size 1 or 2; any pool capacity / inline pool count / string length size).
#pragma once
#include "hx.hpp"
#include "refmsgpack.hpp"

namespace hx {

inline std::string inspectErrors(JsonDocument& doc) {
#ifndef VERIF_NO_INSPECTOR
  return Inspector::inspect(doc).errors;
#else
  (void)doc;
  return "";
#endif
}

struct LimitCase {
  Ctx& C;
  std::string key;
  LedgerAllocator A;
  JsonDocument doc;
  explicit LimitCase(Ctx& c, const std::string& k) : C(c), key(k), A("A"), doc(&A) {}
  void fail(const std::string& clause, const std::string& d) { C.failKey(key, clause, d); }
  void common(const char* where) {
    std::string e = inspectErrors(doc);
    if (!e.empty()) fail("inspector", std::string(where) + ": " + e);
    std::string l = A.takeErrors();
    if (!l.empty()) fail("ledger", std::string(where) + ": " + l);
  }
};

inline void limitsArray(Ctx& C, int kind) {
  // kind 0: one-slot scalars, 1: two-slot values (double needing an extension), 2: copied strings (same string: reference count),
  // 3: object members (two slots + a key string each)
  const size_t LIMIT = (size_t(1) << (8 * ARDUINOJSON_SLOT_ID_SIZE)) - 1;
  const size_t per = (kind == 1 || kind == 3) ? 2 : 1;
  const char* names[] = {"scalars", "extension-values", "same-copied-string", "object-members"};
  LimitCase L(C, std::string("limits:cfg=") + cfgName() + "|script=fill-" + names[kind]);
  C.begin(L.key);
  JsonDocument& doc = L.doc;
  auto addOne = [&](size_t i) -> bool {
    switch (kind) {
      case 0: return doc.add(int(i % 1000));
      case 1: return doc.add(1e100 + double(i));
      case 2: return doc.add(std::string("shared-string"));
      default: return doc[std::string("k") + std::to_string(i)].set(int(i % 1000));
    }
  };
  auto verify = [&](size_t expectN, const char* where) {
    size_t n = 0;
    bool ok = true;
    if (kind == 3) {
      for (JsonPairConst p : doc.as<JsonObjectConst>()) {
        std::string k = p.key().c_str();
        if (k.empty() || k[0] != 'k' || !p.value().is<int>() || p.value().as<int>() != atoi(k.c_str() + 1) % 1000) ok = false;
        if (++n > expectN + 5) break;
      }
    } else {
      for (JsonVariantConst e : doc.as<JsonArrayConst>()) {
        if (kind == 0 && !e.is<int>()) ok = false;
        if (kind == 1 && !(e.as<double>() >= 1e100)) ok = false;
        if (kind == 2 && e.as<std::string>() != "shared-string") ok = false;
        if (++n > expectN + 5) break;
      }
    }
    if (n != expectN) L.fail("intact", std::string(where) + ": iteration yields " + std::to_string(n) + " elements, expected " + std::to_string(expectN));
    if (doc.size() != expectN) L.fail("intact", std::string(where) + ": size() is " + std::to_string(doc.size()) + ", expected " + std::to_string(expectN));
    if (!ok) L.fail("intact", std::string(where) + ": a stored element does not read back its own value");
    L.common(where);
  };
  const size_t fit = LIMIT / per;
  size_t stored = 0;
  // below the limit every insertion succeeds
  for (size_t i = 0; i < fit; i++) {
    if (!addOne(i)) { L.fail("below-limit", "insertion " + std::to_string(i) + " failed although only " + std::to_string(i * per) + " of " + std::to_string(LIMIT) + " slots are in use"); break; }
    stored++;
    if (doc.overflowed()) { L.fail("below-limit", "overflowed() set below the limit at insertion " + std::to_string(i)); break; }
  }
  verify(stored, "at the limit");
  // at the limit: clean failure, document intact
  for (int extra = 0; extra < 3; extra++) {
    bool r = addOne(stored + size_t(extra));
    if (r) { L.fail("at-limit", "insertion beyond the slot limit reported success"); stored++; }
    else if (!doc.overflowed()) L.fail("at-limit", "failed insertion did not set overflowed()");
  }
  verify(stored, "after failed insertions");
  // a one-slot value still fits when the limit is odd and values take two slots
  if (per == 2 && (LIMIT % 2) == 1 && kind == 1) {
    if (!doc.add(7)) L.fail("at-limit", "a one-slot value does not fit although one slot is still free (the failed two-slot insertion leaked its first slot)");
    else doc.remove(doc.size() - 1);
  }
  // remove three, refill three, the fourth fails
  if (stored >= 8) {
    if (kind == 3) {
      doc.remove("k1"); doc.remove(std::string("k") + std::to_string(stored / 2)); doc.remove(std::string("k") + std::to_string(stored - 1));
      std::string o;
      bool r1 = doc["k1"].set(1), r2 = doc[std::string("k") + std::to_string(stored / 2)].set(int((stored / 2) % 1000)), r3 = doc[std::string("k") + std::to_string(stored - 1)].set(int((stored - 1) % 1000));
      if (!(r1 && r2 && r3)) L.fail("reuse", "members removed at the limit could not be re-inserted");
      if (doc["zz"].set(1)) L.fail("at-limit", "insertion beyond the limit succeeded after refill");
    } else {
      doc.remove(stored - 1); doc.remove(stored / 2); doc.remove(1);
      size_t back = 0;
      for (size_t i = 1; i <= 3; i++) if (addOne(i)) back++;
      if (back != 3) {
        // distinguish "the freed slots are not reused" from "set() of a string keeps reporting the sticky overflowed() flag"
        size_t before = doc.size();
        bool intFits = doc.add(int(1));
        if (intFits) doc.remove(doc.size() - 1);
        if (intFits && doc.overflowed() && doc.size() == before)
          C.failKey(L.key + "|cause=sticky-overflowed-flag", "reuse", "after a failed insertion, add(<string>) keeps failing although slots were freed (add(<int>) succeeds): "
                    "set() of a string reports the sticky overflowed() flag and the element is discarded");
        else
          L.fail("reuse", "elements removed at the limit could not be re-inserted (freed slots not reused)");
        stored -= 3 - back;
      } else if (addOne(4)) L.fail("at-limit", "insertion beyond the limit succeeded after refill");
    }
    verify(stored, "after remove/refill");
  }
  // clear and refill
  doc.clear();
  if (!L.A.live.empty()) L.fail("clear", "blocks live after clear(): " + L.A.liveSignature());
  if (doc.overflowed()) L.fail("clear", "overflowed() still set after clear()");
  stored = 0;
  for (size_t i = 0; i < 9 && i < fit; i++) {
    if (!addOne(i)) L.fail("reuse", "insertion after clear() failed");
    else stored++;
  }
  verify(stored, "after clear/refill");
  if (kind == 2) {
    // all users of the shared string disappear one by one: the string goes with the last one, then can come back
    while (doc.size()) doc.remove(0);
    L.common("after removing all users");
    if (!doc.add(std::string("shared-string")) || doc[0] != "shared-string") L.fail("reuse", "string cannot be stored again after its last user went away");
  }
  C.nontrivial();
  C.outcome(std::string("fill-") + names[kind]);
  C.end();
}

#if ARDUINOJSON_ENABLE_ARDUINO_STREAM
// an Arduino-style Printable that hands its text to Print::write(buffer, size) in blocks of `block` bytes (0 = byte-wise)
struct BlockPrintable : Printable {
  std::string text;
  size_t block;
  BlockPrintable(const std::string& t, size_t b) : text(t), block(b) {}
  size_t printTo(Print& p) const override {
    size_t n = 0;
    if (!block) {
      for (char c : text) n += p.write(uint8_t(c));
      return n;
    }
    for (size_t i = 0; i < text.size(); i += block)
      n += p.write(reinterpret_cast<const uint8_t*>(text.data() + i), std::min(block, text.size() - i));
    return n;
  }
};
#endif

inline void limitsStrings(Ctx& C) {
  const size_t MAXLEN = ARDUINOJSON_STRING_LENGTH_SIZE >= 4 ? 0 : (size_t(1) << (8 * ARDUINOJSON_STRING_LENGTH_SIZE)) - 1;
  if (!MAXLEN) return;  // 4-byte lengths cannot be reached on this host (stated in the evidence)
  for (int delta = -1; delta <= 1; delta++) {
#if ARDUINOJSON_ENABLE_ARDUINO_STREAM
    const int NVIA = 7;
#else
    const int NVIA = 4;
#endif
    for (int via = 0; via < NVIA; via++) {
      size_t n = MAXLEN + size_t(long(delta));
      static const char* vias[] = {"set", "key", "deserializeJson", "deserializeMsgPack", "printable-bytewise", "printable-block7", "printable-oneblock"};
      LimitCase L(C, std::string("limits:cfg=") + cfgName() + ",len" + std::to_string(ARDUINOJSON_STRING_LENGTH_SIZE) + "|script=string-len=max" +
                         (delta < 0 ? "-1" : delta > 0 ? "+1" : "") + "|via=" + vias[via]);
      C.begin(L.key);
      std::string s;
      for (size_t i = 0; i < n; i++) s.push_back(char('a' + i % 26));
      JsonDocument& doc = L.doc;
      bool fits = n <= MAXLEN;
      std::string got;
      bool reportedOk;
      switch (via) {
        case 0:
          reportedOk = doc.set(s);
          got = doc.is<JsonString>() ? std::string(doc.as<JsonString>().c_str(), doc.as<JsonString>().size()) : "";
          break;
        case 1:
          reportedOk = doc[s].set(1);
          got = doc.as<JsonObjectConst>().size() ? std::string(doc.as<JsonObjectConst>().begin()->key().c_str(), doc.as<JsonObjectConst>().begin()->key().size()) : "";
          break;
        case 2: {
          DeserializationError e = deserializeJson(doc, "\"" + s + "\"");
          reportedOk = e == DeserializationError::Ok;
          if (!reportedOk && e != DeserializationError::NoMemory) L.fail("at-limit", std::string("over-long string gives ") + e.c_str() + " instead of NoMemory");
          got = doc.is<JsonString>() ? std::string(doc.as<JsonString>().c_str(), doc.as<JsonString>().size()) : "";
          break;
        }
#if ARDUINOJSON_ENABLE_ARDUINO_STREAM
        case 4: case 5: case 6: {
          BlockPrintable pr(s, via == 4 ? 0 : via == 5 ? 7 : s.size() + 1);
          reportedOk = doc.set(pr);
          got = doc.is<JsonString>() ? std::string(doc.as<JsonString>().c_str(), doc.as<JsonString>().size()) : "";
          break;
        }
#endif
        default: {
          MValue m = MValue::str(s);
          DeserializationError e = deserializeMsgPack(doc, verif::refmp::encode(m));
          reportedOk = e == DeserializationError::Ok;
          if (!reportedOk && e != DeserializationError::NoMemory) L.fail("at-limit", std::string("over-long string gives ") + e.c_str() + " instead of NoMemory");
          got = doc.is<JsonString>() ? std::string(doc.as<JsonString>().c_str(), doc.as<JsonString>().size()) : "";
          break;
        }
      }
      if (fits) {
        if (!reportedOk) L.fail("below-limit", "a string of " + std::to_string(n) + " bytes (max " + std::to_string(MAXLEN) + ") was refused");
        else if (got != s) L.fail("below-limit", "a string of " + std::to_string(n) + " bytes does not read back (got " + std::to_string(got.size()) + " bytes)");
      } else {
        if (reportedOk) L.fail("at-limit", "a string longer than the maximum was accepted (length wraps?) and reads back " + std::to_string(got.size()) + " bytes");
        else if ((via <= 1 || via >= 4) && !doc.overflowed()) L.fail("at-limit", "refusal did not set overflowed()");
        if (!got.empty() && got != s) L.fail("at-limit", "a truncated / wrapped string was stored: " + std::to_string(got.size()) + " bytes");
      }
      L.common("string at limit");
      doc.clear();
      if (!L.A.live.empty()) L.fail("clear", "blocks live after clear()");
      if (!doc.set(std::string("again")) || doc != "again") L.fail("reuse", "document unusable after a string at the limit");
      C.nontrivial();
      C.outcome(std::string("string:") + vias[via] + (fits ? ":fits" : ":refused"));
      C.end();
    }
  }
}

// the deserializers at the slot limit: an array / object of limit-1, limit, limit+1, limit+2 slots as JSON and as MessagePack
// (16- and 32-bit headers), and headers that announce more than the limit but are followed by three elements only
inline void limitsDeserialize(Ctx& C) {
  const size_t LIMIT = (size_t(1) << (8 * ARDUINOJSON_SLOT_ID_SIZE)) - 1;
  static const char* fmts[] = {"json-array", "msgpack-array16", "msgpack-array32", "json-object", "msgpack-map16", "msgpack-map32"};
  for (int fmt = 0; fmt < 6; fmt++) {
    bool isMap = fmt >= 3;
    size_t per = isMap ? 2 : 1, fit = LIMIT / per;
    for (int delta = -1; delta <= 3; delta++) {
      // delta 3: the header announces fit+1 children but only three are present (msgpack), or the text stops after three (json)
      bool truncated = delta == 3;
      size_t n = truncated ? fit + 1 : fit + size_t(long(delta));
      size_t present = truncated ? 3 : n;
      if (fmt == 3 && n > 3000) continue;  // the JSON parser looks every key up (repeated keys): quadratic in the member count
      if ((fmt == 1 || fmt == 4) && n > 65535) continue;  // a 16-bit header cannot announce that many children
      LimitCase L(C, std::string("limits:cfg=") + cfgName() + "|script=deserialize-" + fmts[fmt] + (truncated ? "|announced=fit+1,present=3" : "|children=fit" + std::string(delta < 0 ? "-1" : delta == 0 ? "" : "+" + std::to_string(delta))));
      C.begin(L.key);
      std::string in;
      auto keyOf = [](size_t i) { char b[16]; snprintf(b, sizeof b, "k%05zu", i); return std::string(b); };
      if (fmt == 0 || fmt == 3) {
        in = isMap ? "{" : "[";
        for (size_t i = 0; i < present; i++) {
          if (i) in += ",";
          if (isMap) in += "\"" + keyOf(i) + "\":";
          in += std::to_string(i % 100);
        }
        if (!truncated) in += isMap ? "}" : "]";
      } else {
        bool wide = fmt == 2 || fmt == 5;
        in.push_back(char(isMap ? (wide ? 0xdf : 0xde) : (wide ? 0xdd : 0xdc)));
        if (wide) { in.push_back(char(n >> 24)); in.push_back(char(n >> 16)); }
        in.push_back(char(n >> 8));
        in.push_back(char(n));
        for (size_t i = 0; i < present; i++) {
          if (isMap) { in.push_back(char(0xa6)); in += keyOf(i); }
          in.push_back(char(i % 100));
        }
      }
      JsonDocument& doc = L.doc;
      DeserializationError err = (fmt == 0 || fmt == 3) ? deserializeJson(doc, in.data(), in.size()) : deserializeMsgPack(doc, in.data(), in.size());
      std::string code = err.c_str();
      if (truncated) {
        if (code != "IncompleteInput") L.fail("below-limit", "three children fit, the input ends early: expected IncompleteInput in every geometry, got " + code);
      } else if (n <= fit) {
        if (code != "Ok") L.fail("below-limit", "deserializing " + std::to_string(n) + " children (" + std::to_string(n * per) + " of " + std::to_string(LIMIT) + " slots) returned " + code);
        if (doc.overflowed()) L.fail("below-limit", "overflowed() set although the input fits");
        if (doc.size() != n) L.fail("below-limit", "size() is " + std::to_string(doc.size()) + ", expected " + std::to_string(n));
        size_t i = 0;
        bool ok = true;
        if (isMap) for (JsonPairConst p : doc.as<JsonObjectConst>()) { if (std::string(p.key().c_str()) != keyOf(i) || p.value().as<size_t>() != i % 100) ok = false; i++; }
        else for (JsonVariantConst e : doc.as<JsonArrayConst>()) { if (e.as<size_t>() != i % 100) ok = false; i++; }
        if (!ok || i != n) L.fail("intact", "the children do not read back their values");
      } else {
        if (code != "NoMemory") L.fail("at-limit", "deserializing " + std::to_string(n * per) + " slots with a limit of " + std::to_string(LIMIT) + " returned " + code + " instead of NoMemory");
        if (!doc.overflowed()) L.fail("at-limit", "NoMemory at the slot limit without overflowed()");
        size_t cnt = 0;
        if (isMap) for (JsonPairConst p : doc.as<JsonObjectConst>()) { (void)p; if (++cnt > n + 5) break; }
        else for (JsonVariantConst e : doc.as<JsonArrayConst>()) { (void)e; if (++cnt > n + 5) break; }
        if (cnt > fit || cnt != doc.size()) L.fail("intact", "after NoMemory the document iterates " + std::to_string(cnt) + " children, size() " + std::to_string(doc.size()));
      }
      L.common("after deserialization");
      doc.clear();
      if (!L.A.live.empty()) L.fail("clear", "blocks live after clear(): " + L.A.liveSignature());
      if (doc.overflowed()) L.fail("clear", "overflowed() still set after clear()");
      if (!doc.add(1) || doc.size() != 1) L.fail("reuse", "document not usable after clear()");
      if (n > fit || truncated) C.nontrivial();
      C.outcome(std::string("deserialize-") + fmts[fmt] + ":" + code);
      C.end();
    }
  }
}

// documents larger than the inline pool table that are shrunk, moved, swapped, copied - and then GROW again up to the limit
inline void limitsGrowAfter(Ctx& C) {
  const size_t LIMIT = (size_t(1) << (8 * ARDUINOJSON_SLOT_ID_SIZE)) - 1;
  const size_t CAP = ARDUINOJSON_POOL_CAPACITY, INIT = ARDUINOJSON_INITIAL_POOL_COUNT;
  static const char* ops[] = {"shrinkToFit", "deserialize-then-add", "move-construct", "move-assign", "swap-with-empty", "swap-with-small", "copy-assign", "copy-construct"};
  std::vector<size_t> fills = {CAP * INIT + 1, LIMIT / 2, LIMIT - 1};
  for (size_t fill : fills) {
    if (fill + 2 > LIMIT) continue;
    for (int op = 0; op < 8; op++) {
      if (!C.take()) continue;
      std::string key = std::string("limits:cfg=") + cfgName() + "|script=grow-after-" + ops[op] + "|fill=" + std::to_string(fill);
      C.begin(key);
      LedgerAllocator A("A"), B("B");
      std::string problems;
      {
        JsonDocument d1(&A), d2(&B);
        JsonDocument* big = &d1;
        auto fillTo = [&](JsonDocument& d, size_t from, size_t to) {
          for (size_t i = from; i < to; i++)
            if (!d.add(int(i % 1000))) return i;
          return to;
        };
        auto check = [&](JsonDocument& d, size_t n, const char* where) {
          if (d.size() != n) { problems += std::string(where) + ": size() is " + std::to_string(d.size()) + ", expected " + std::to_string(n) + "; "; return; }
          size_t i = 0;
          for (JsonVariantConst e : d.as<JsonArrayConst>()) {
            if (e.as<size_t>() != i % 1000) { problems += std::string(where) + ": element " + std::to_string(i) + " is wrong; "; break; }
            i++;
          }
          std::string e = inspectErrors(d);
          if (!e.empty()) problems += std::string(where) + ": " + e + "; ";
        };
        size_t n = 0;
        if (op == 1) {
          std::string text = "[";
          for (size_t i = 0; i < fill; i++) text += (i ? "," : "") + std::to_string(i % 1000);
          text += "]";
          if (deserializeJson(d1, text) != DeserializationError::Ok) problems += "deserializeJson of a document below the limit failed; ";
          n = fill;
        } else {
          n = fillTo(d1, 0, fill);
          if (n != fill) problems += "filling below the limit failed at " + std::to_string(n) + "; ";
        }
        d2.add(0);  // the small document
        switch (op) {
          case 0: d1.shrinkToFit(); break;
          case 1: break;
          case 2: { JsonDocument moved(std::move(d1)); d2 = std::move(moved); big = &d2; break; }
          case 3: d2 = std::move(d1); big = &d2; break;
          case 4: { JsonDocument empty(&B); swap(d1, empty); d2 = std::move(empty); big = &d2; break; }
          case 5: swap(d1, d2); big = &d2; break;
          case 6: d2 = d1; big = &d2; break;
          default: { JsonDocument copy(d1); d2 = std::move(copy); big = &d2; break; }
        }
        check(*big, n, "after the operation");
        // grow to the limit, one slot at a time: every insertion below the limit succeeds, then a clean refusal
        size_t reached = fillTo(*big, n, LIMIT);
        if (reached != LIMIT) {
          std::string what = "after " + std::string(ops[op]) + " insertion " + std::to_string(reached) + " failed although only " + std::to_string(reached) + " of " +
                             std::to_string(LIMIT) + " slots are in use; ";
          // the ids between the usage and the capacity of a shrunk pool are never handed out again (finding N4): at most CAP-1 ids
          if ((op == 0 || op == 1) && reached + CAP > LIMIT && reached < LIMIT && big->overflowed())
            C.failKey(key + "|cause=ids-lost-by-shrink", "grow-after", what);
          else
            problems += what;
        }
        check(*big, reached, "at the limit");
        if (big->add(1)) problems += "insertion beyond the limit succeeded; ";
        else if (!big->overflowed()) problems += "refused insertion did not set overflowed(); ";
        // the other document (moved-from / swapped / source of the copy) is still usable
        JsonDocument& other = big == &d1 ? d2 : d1;
        size_t on = other.size();
        if (op == 6 || op == 7) check(other, n, "source of the copy");
        else {
          other.clear();
          on = 0;
        }
        size_t otarget = std::min(on + 3 * CAP, LIMIT - 1);
        size_t oreach = fillTo(other, on, otarget);
        if (op != 6 && op != 7 && oreach != otarget) problems += "the other document cannot grow after the operation; ";
        problems += A.takeErrors() + B.takeErrors();
      }
      if (!A.live.empty() || !B.live.empty()) problems += "blocks live after destruction; ";
      problems += A.takeErrors() + B.takeErrors();
      if (!problems.empty()) C.fail("grow-after", problems);
      C.nontrivial();
      C.outcome(std::string("grow-after-") + ops[op]);
      C.end();
    }
  }
}

inline void runLimits(Ctx& C) {
#if ARDUINOJSON_SLOT_ID_SIZE <= 2
  limitsGrowAfter(C);
  if (C.take()) limitsDeserialize(C);
  for (int kind = 0; kind < 4; kind++) {
    if (!C.take()) continue;
    // object members are inserted through a key look-up: quadratic in the member count (2-byte ids: thorough tier only)
    if (kind == 3 && ARDUINOJSON_SLOT_ID_SIZE > 1 && !C.thorough()) continue;
    limitsArray(C, kind);
  }
#else
  C.note("4-byte slot ids cannot be filled to their limit on this host; only string limits run in this geometry");
#endif
  if (C.take()) limitsStrings(C);
  C.metrics["states"] += double(C.evaluations);
  C.metrics["transitions"] += double(C.evaluations);
  C.bound(std::string("fill/remove/refill/clear scripts for 4 value kinds at slot limit ") + std::to_string((size_t(1) << (8 * ARDUINOJSON_SLOT_ID_SIZE)) - 1) +
          "; documents of CAP*INIT+1, limit/2, limit-1 slots that are shrunk / parsed / moved / swapped / copied and then grown one slot at a time to the limit; arrays / objects of limit-1 .. limit+2 slots and over-announcing truncated headers through deserializeJson and deserializeMsgPack (16- and 32-bit headers); strings of length max-1, max, max+1 through set, key, deserializeJson, deserializeMsgPack, Printable; geometry " + cfgName() + ",len" + std::to_string(ARDUINOJSON_STRING_LENGTH_SIZE));
}

}  // namespace hx
