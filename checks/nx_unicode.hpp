// C17 — \uXXXX decoding for every code unit / surrogate pair, and escaping as the inverse.
#pragma once
#include <ArduinoJson.h>

#include "common.hpp"

namespace nx_unicode {
using namespace ArduinoJson;
using verif::Ctx;

inline std::string utf8(uint32_t cp) {
  std::string r;
  if (cp < 0x80) {
    r.push_back(char(cp));
  } else if (cp < 0x800) {
    r.push_back(char(0xC0 | (cp >> 6)));
    r.push_back(char(0x80 | (cp & 0x3F)));
  } else if (cp < 0x10000) {
    r.push_back(char(0xE0 | (cp >> 12)));
    r.push_back(char(0x80 | ((cp >> 6) & 0x3F)));
    r.push_back(char(0x80 | (cp & 0x3F)));
  } else {
    r.push_back(char(0xF0 | (cp >> 18)));
    r.push_back(char(0x80 | ((cp >> 12) & 0x3F)));
    r.push_back(char(0x80 | ((cp >> 6) & 0x3F)));
    r.push_back(char(0x80 | (cp & 0x3F)));
  }
  return r;
}

inline std::string spell(uint16_t u, int casing) {
  static const char* lo = "0123456789abcdef";
  static const char* up = "0123456789ABCDEF";
  std::string r = "\\u";
  for (int i = 3; i >= 0; i--) {
    int d = (u >> (4 * i)) & 15;
    const char* t = casing == 0 ? lo : casing == 1 ? up : ((i & 1) ? lo : up);
    r.push_back(t[d]);
  }
  return r;
}

inline bool isSur(uint16_t u) { return u >= 0xD800 && u < 0xE000; }

// the reference escaper of the statement: only " \ \b \f \n \r \t NUL change
inline std::string refEscape(const std::string& s) {
  std::string r;
  for (unsigned char c : s) {
    switch (c) {
      case '"': r += "\\\""; break;
      case '\\': r += "\\\\"; break;
      case '\b': r += "\\b"; break;
      case '\f': r += "\\f"; break;
      case '\n': r += "\\n"; break;
      case '\r': r += "\\r"; break;
      case '\t': r += "\\t"; break;
      case 0: r += "\\u0000"; break;
      default: r.push_back(char(c));
    }
  }
  return r;
}

static const char* kPosName[] = {"alone", "first", "middle", "last", "key"};

inline std::string wrap(const std::string& esc, int pos) {
  switch (pos) {
    case 0: return "\"" + esc + "\"";
    case 1: return "\"" + esc + "xy\"";
    case 2: return "\"x" + esc + "y\"";
    case 3: return "\"xy" + esc + "\"";
    default: return "{\"x" + esc + "y\":1}";
  }
}
inline std::string expectWrap(const std::string& bytes, int pos) {
  switch (pos) {
    case 0: return bytes;
    case 1: return bytes + "xy";
    case 2: return "x" + bytes + "y";
    case 3: return "xy" + bytes;
    default: return "x" + bytes + "y";
  }
}

// parse `text` (given both zero-terminated and sized) and extract the single string (value or sole key)
inline bool parseOne(const std::string& text, int pos, bool sized, DeserializationError::Code& code, std::string& got,
                     std::string& why) {
  JsonDocument doc;
  DeserializationError err = sized ? deserializeJson(doc, text.data(), text.size()) : deserializeJson(doc, text.c_str());
  code = err.code();
  if (code != DeserializationError::Ok) return false;
  JsonString js;
  if (pos == 4) {
    JsonObject o = doc.as<JsonObject>();
    if (o.isNull() || o.size() != 1) {
      why = "not a one-member object";
      return false;
    }
    js = o.begin()->key();
  } else {
    if (!doc.is<JsonString>()) {
      why = "not a string";
      return false;
    }
    js = doc.as<JsonString>();
  }
  if (js.c_str() == nullptr) {
    why = "null string";
    return false;
  }
  got.assign(js.c_str(), js.size());
  if (js.c_str()[js.size()] != 0) {
    why = "no NUL at size()";
    return false;
  }
  return true;
}

inline void usable(Ctx& C, JsonDocument& doc) {
  std::string out;
  serializeJson(doc, out);
  serializeMsgPack(doc, out);
  doc.clear();
  if (deserializeJson(doc, "[1]") != DeserializationError::Ok || doc[0].as<int>() != 1)
    C.fail("reuse", "document not usable after the call");
}

inline void run(Ctx& C) {
  const bool T = C.thorough();
  // ---- 1. every code unit, 3 casings, 5 positions
  for (uint32_t u = 0; u < 0x10000; u++) {
    for (int casing = 0; casing < 3; casing++) {
      for (int pos = 0; pos < 5; pos++) {
        if (!C.take()) continue;
        char kb[64];
        snprintf(kb, sizeof kb, "uni:%04x|case=%c|pos=%s", u, "lum"[casing], kPosName[pos]);
        C.begin(kb);
        std::string esc = spell(uint16_t(u), casing);
        std::string text = wrap(esc, pos);
        for (int sized = 0; sized < 2; sized++) {
          DeserializationError::Code code;
          std::string got, why;
          bool ok = parseOne(text, pos, sized, code, got, why);
          if (!isSur(uint16_t(u))) {
            std::string want = expectWrap(utf8(u), pos);
            if (!ok)
              C.fail("bmp-decode", std::string("code=") + DeserializationError(code).c_str() + " " + why);
            else if (got != want)
              C.fail("bmp-decode", "got " + verif::hex(got) + " want " + verif::hex(want));
            if (u >= 0x80) C.nontrivial();
          } else {
            // unpaired surrogate: any documented code, no crash
            if (int(code) < 0 || int(code) > 5) C.fail("code-range", "code out of range");
            C.outcome(std::string("lone-surrogate:") + DeserializationError(code).c_str());
          }
        }
        C.end();
      }
    }
  }
  // ---- 1b. every code unit in a document whose string pool already holds the text in front of the escape (and the
  //          decoded text itself): de-duplication must compare whole strings, whatever the escape decodes to
  for (uint32_t u = 0; u < 0x10000; u++) {
    if (isSur(uint16_t(u))) continue;
    if (!C.take()) continue;
    char kb[64];
    snprintf(kb, sizeof kb, "uni-pooled:%04x", u);
    C.begin(kb);
    std::string esc = spell(uint16_t(u), 0), dec = utf8(u);
    std::string text = "[\"x\",\"x" + esc + "\",\"x" + esc + "y\",\"" + esc + "\",\"\",{\"x\":0,\"x" + esc + "\":1,\"" + esc + "\":2}]";
    std::vector<std::string> want = {"x", "x" + dec, "x" + dec + "y", dec, ""};
    std::vector<std::string> wantKeys = {"x", "x" + dec, dec};
    for (int sized = 0; sized < 2; sized++) {
      JsonDocument doc;
      DeserializationError err = sized ? deserializeJson(doc, text.data(), text.size()) : deserializeJson(doc, text.c_str());
      if (err != DeserializationError::Ok) {
        C.fail("pooled-decode", std::string("code=") + err.c_str());
        continue;
      }
      for (size_t i = 0; i < want.size(); i++) {
        JsonString js = doc[i].as<JsonString>();
        std::string got = js.c_str() ? std::string(js.c_str(), js.size()) : std::string("<null>");
        if (got != want[i]) C.fail("pooled-decode", "element " + std::to_string(i) + ": got " + verif::hex(got) + " want " + verif::hex(want[i]));
      }
      if (dec == "x") continue;  // the three keys would not be distinct
      JsonObject o = doc[want.size()].as<JsonObject>();
      size_t n = 0;
      for (JsonPair kv : o) {
        std::string got(kv.key().c_str(), kv.key().size());
        if (n < wantKeys.size() && (got != wantKeys[n] || kv.value().as<int>() != int(n)))
          C.fail("pooled-decode", "member " + std::to_string(n) + ": key " + verif::hex(got) + " want " + verif::hex(wantKeys[n]));
        n++;
      }
      if (n != 3) C.fail("pooled-decode", "object has " + std::to_string(n) + " members");
    }
    if (u < 0x20 || u >= 0x80) C.nontrivial();
    C.end();
  }
  // ---- 1c. the escape inside a single-quoted string, and directly followed by hexadecimal-digit characters (the decoder
  //          takes exactly four digits)
  for (uint32_t u = 0; u < 0x10000; u++) {
    if (isSur(uint16_t(u))) continue;
    if (!C.take()) continue;
    char kb[64];
    snprintf(kb, sizeof kb, "uni-quote-hex:%04x", u);
    C.begin(kb);
    std::string esc = spell(uint16_t(u), int(u % 3)), dec = utf8(u);
    struct V { std::string text, want; };
    std::vector<V> vs = {{"'" + esc + "'", dec}, {"'a\\'" + esc + "\"b'", "a'" + dec + "\"b"}, {"\"" + esc + "2fA\"", dec + "2fA"},
                         {"\"" + esc + esc + "0\"", dec + dec + "0"}, {"{'" + esc + "9':'" + esc + "'}", ""}};
    for (size_t i = 0; i < vs.size(); i++) {
      JsonDocument doc;
      DeserializationError err = deserializeJson(doc, vs[i].text);
      if (err != DeserializationError::Ok) {
        C.fail("bmp-decode", "variant " + std::to_string(i) + ": code=" + err.c_str());
        continue;
      }
      if (i + 1 < vs.size()) {
        JsonString js = doc.as<JsonString>();
        std::string got = js.c_str() ? std::string(js.c_str(), js.size()) : std::string("<null>");
        if (got != vs[i].want) C.fail("bmp-decode", "variant " + std::to_string(i) + ": got " + verif::hex(got) + " want " + verif::hex(vs[i].want));
      } else {
        JsonObject o = doc.as<JsonObject>();
        bool ok = o.size() == 1;
        for (JsonPair kv : o) {
          JsonString vsr = kv.value().as<JsonString>();
          ok = ok && std::string(kv.key().c_str(), kv.key().size()) == dec + "9" && vsr.c_str() && std::string(vsr.c_str(), vsr.size()) == dec;
        }
        if (!ok) C.fail("bmp-decode", "single-quoted key / value with the escape decoded wrongly");
      }
    }
    if (u >= 0x80) C.nontrivial();
    C.end();
  }
  // ---- 2. unpaired surrogates in four contexts (document must stay usable)
  for (uint32_t u = 0xD800; u < 0xE000; u++) {
    for (int ctx = 0; ctx < 4; ctx++) {
      if (!C.take()) continue;
      char kb[64];
      snprintf(kb, sizeof kb, "unpaired:%04x|ctx=%d", u, ctx);
      C.begin(kb);
      std::string e = spell(uint16_t(u), 0);
      std::string text;
      switch (ctx) {
        case 0: text = "\"" + e + "\""; break;
        case 1: text = "[\"" + e + "\\u0041\",\"" + e + "\"]"; break;
        case 2: text = "\"" + e + e + "\""; break;
        default: text = "{\"" + e + "\":\"" + e + "x\"}"; break;
      }
      JsonDocument doc;
      DeserializationError err = deserializeJson(doc, text);
      if (int(err.code()) < 0 || int(err.code()) > 5) C.fail("code-range", "code out of range");
      C.outcome(std::string("unpaired:") + err.c_str());
      usable(C, doc);
      C.nontrivial();
      C.end();
    }
  }
  // ---- 3. surrogate pairs
  auto onGrid = [&](uint32_t i) { return T || i < 16 || i >= 1008 || i % 11 == 0; };
  for (uint32_t hi = 0; hi < 1024; hi++) {
    if (!onGrid(hi)) continue;
    for (uint32_t lo = 0; lo < 1024; lo++) {
      if (!onGrid(lo)) continue;
      if (!C.take()) continue;
      uint16_t H = uint16_t(0xD800 + hi), L = uint16_t(0xDC00 + lo);
      char kb[64];
      snprintf(kb, sizeof kb, "pair:%04x%04x", H, L);
      C.begin(kb);
      uint32_t cp = 0x10000 + ((hi << 10) | lo);
      std::string want8 = utf8(cp);
      int ncase = (hi % 64 == 0 || !T) ? 3 : 1;
      for (int casing = 0; casing < ncase; casing++) {
        std::string esc = spell(H, casing) + spell(L, casing);
        int npos = (lo % 32 == 0) ? 5 : 1;
        for (int pos = 0; pos < npos; pos++) {
          DeserializationError::Code code;
          std::string got, why;
          bool ok = parseOne(wrap(esc, pos), pos, (lo & 1) != 0, code, got, why);
          std::string want = expectWrap(want8, pos);
          if (!ok)
            C.fail("pair-decode", std::string("code=") + DeserializationError(code).c_str() + " " + why);
          else if (got != want)
            C.fail("pair-decode", "got " + verif::hex(got) + " want " + verif::hex(want));
        }
      }
      // two pairs in a row and a pair after a BMP escape (state carried between escapes)
      if (lo % 64 == 0) {
        std::string esc = spell(H, 0) + spell(L, 0) + "\\u00e9" + spell(H, 1) + spell(L, 1);
        DeserializationError::Code code;
        std::string got, why;
        bool ok = parseOne(wrap(esc, 0), 0, false, code, got, why);
        std::string want = want8 + utf8(0xe9) + want8;
        if (!ok || got != want) C.fail("pair-sequence", "got " + verif::hex(got) + " want " + verif::hex(want));
      }
      C.nontrivial();
      C.end();
    }
  }
  // ---- 3b. escapes placed around the string builder's capacity steps (31, 63, 127, 255 bytes): the UTF-8 bytes of one
  //          escape straddle a growth of the buffer.  One code unit per encoded length + a surrogate pair + short escapes.
  {
    struct E { const char* esc; std::string bytes; };
    std::vector<E> escs = {{"\\u0041", "A"}, {"\\u00e9", utf8(0xe9)}, {"\\u20AC", utf8(0x20ac)}, {"\\ud83d\\ude00", utf8(0x1f600)},
                           {"\\n", "\n"}, {"\\u0000", std::string(1, '\0')}};
    std::vector<size_t> pads;
    for (size_t base : {size_t(31), size_t(63), size_t(127), size_t(255), size_t(511)})
      for (size_t d = 0; d <= 6; d++) pads.push_back(base - 5 + d);
    for (size_t pad : pads) {
      for (size_t ei = 0; ei < escs.size(); ei++) {
        for (int asKey = 0; asKey < 2; asKey++) {
          for (int twice = 0; twice < 2; twice++) {
            if (!C.take()) continue;
            std::string prefix(pad, 'x'), e = escs[ei].esc, want = prefix + escs[ei].bytes + (twice ? escs[ei].bytes : "") + "y";
            std::string body = prefix + e + (twice ? e : "") + "y";
            std::string text = asKey ? "{\"" + body + "\":1}" : "\"" + body + "\"";
            C.begin("uni-pad:pad=" + std::to_string(pad) + "|esc=" + std::to_string(ei) + (asKey ? "|key" : "|value") + (twice ? "|x2" : ""));
            for (int sized = 0; sized < 2; sized++) {
              DeserializationError::Code code;
              std::string got, why;
              bool ok = parseOne(text, asKey ? 4 : 0, sized, code, got, why);
              if (!ok) C.fail("padded-decode", std::string("code=") + DeserializationError(code).c_str() + " " + why);
              else if (got != want) C.fail("padded-decode", "got ..." + verif::hex(got.substr(pad > 4 ? pad - 4 : 0)) + " want ..." + verif::hex(want.substr(pad > 4 ? pad - 4 : 0)));
            }
            C.nontrivial();
            C.end();
          }
        }
      }
    }
  }
  // ---- 4. all single bytes and all byte pairs as content of a value and of a key
  for (uint32_t n = 0; n < 256 + 65536; n++) {
    for (int use = 0; use < 2; use++) {
      if (!C.take()) continue;
      std::string s;
      if (n < 256)
        s.push_back(char(n));
      else {
        s.push_back(char((n - 256) >> 8));
        s.push_back(char((n - 256) & 255));
      }
      C.begin("bytes:" + verif::hex(s) + (use ? "|use=key" : "|use=value"));
      JsonDocument doc;
      std::string want;
      if (use == 0) {
        doc.set(s);
        want = "\"" + refEscape(s) + "\"";
      } else {
        doc[s] = 1;
        want = "{\"" + refEscape(s) + "\":1}";
      }
      std::string text;
      size_t n1 = serializeJson(doc, text);
      if (text != want) C.fail("escape", "text " + verif::hex(text) + " want " + verif::hex(want));
      if (n1 != text.size() || measureJson(doc) != n1) C.fail("escape-count", "returned count != bytes");
      for (int sized = 0; sized < 2; sized++) {
        DeserializationError::Code code;
        std::string got, why;
        bool ok = parseOne(text, use ? 4 : 0, sized, code, got, why);
        if (!ok)
          C.fail("bytes-roundtrip", std::string("code=") + DeserializationError(code).c_str() + " " + why);
        else if (got != s)
          C.fail("bytes-roundtrip", "got " + verif::hex(got) + " want " + verif::hex(s));
      }
      if (text.size() != s.size() + (use ? 6 : 2)) C.nontrivial();  // something was escaped
      C.end();
    }
  }
  // ---- 4b. the same bytes at every offset of a longer string (the escaper may batch its output): pad x 'x' + bytes + 'y'
  {
    std::vector<size_t> pads;
    for (size_t p = 0; p <= 70; p++) pads.push_back(p);
    for (size_t p : std::vector<size_t>{125, 126, 127, 128, 253, 254, 255, 256, 509, 510, 511, 512, 1021, 1022, 1023}) pads.push_back(p);
    const char specials[] = {'"', '\\', '\b', '\f', '\n', '\r', '\t', '\0', 'a', char(0x80), char(0x7f), '/'};
    for (size_t pad : pads) {
      for (size_t si = 0; si < sizeof specials; si++) {
        for (int dbl = 0; dbl < 2; dbl++) {
          for (int use = 0; use < 2; use++) {
            if (!C.take()) continue;
            std::string body(size_t(dbl + 1), specials[si]);
            std::string str = std::string(pad, 'x') + body + "y";
            C.begin("bytes-pad:pad=" + std::to_string(pad) + "|bytes=" + verif::hex(body) + (use ? "|use=key" : "|use=value"));
            JsonDocument doc;
            std::string want;
            if (use == 0) {
              doc.set(str);
              want = "\"" + refEscape(str) + "\"";
            } else {
              doc[str] = 1;
              want = "{\"" + refEscape(str) + "\":1}";
            }
            std::string text;
            size_t n1 = serializeJson(doc, text);
            if (text != want) C.fail("escape", "text differs from the reference escaper at pad " + std::to_string(pad));
            if (n1 != text.size() || measureJson(doc) != n1) C.fail("escape-count", "returned count != bytes");
            std::string pretty;
            serializeJsonPretty(doc, pretty);
            if (pretty.find(refEscape(str)) == std::string::npos) C.fail("escape", "pretty text does not contain the escaped string");
            for (int sized = 0; sized < 2; sized++) {
              DeserializationError::Code code;
              std::string got, why;
              bool ok = parseOne(text, use ? 4 : 0, sized, code, got, why);
              if (!ok) C.fail("bytes-roundtrip", std::string("code=") + DeserializationError(code).c_str() + " " + why);
              else if (got != str) C.fail("bytes-roundtrip", "round trip differs at pad " + std::to_string(pad));
            }
            C.nontrivial();
            C.end();
          }
        }
      }
    }
  }
  C.bound("every non-surrogate code unit in single-quoted strings and directly followed by hexadecimal-digit characters");
  C.bound("12 bytes (the rewritten ones, a plain one, 0x7f, 0x80, '/') alone and doubled behind 0..70, 125..128, 253..256, 509..512, 1021..1023 padding bytes, as value and key");
  C.bound(T ? "all 65536 code units x 3 casings x 5 positions; every non-surrogate code unit in a document that already pools its prefix; all 2^20 surrogate pairs; all 256+65536 byte strings as value and key"
            : "all 65536 code units x 3 casings x 5 positions; every non-surrogate code unit in a document that already pools its prefix; 124x124 surrogate pair grid; all 256+65536 byte strings as value and key");
}
}  // namespace nx_unicode
