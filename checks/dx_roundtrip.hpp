// C07 — round trips through JSON and MessagePack, and JSON -> document -> MessagePack -> document.
#pragma once
#include "ix_valid.hpp"
#include "dx_json.hpp"

namespace dx {

// value-level text of a model: numbers by value (an integral float and the integer of the same value coincide)
inline void valueText(const MValue& m, std::string& r) {
  char buf[48];
  switch (m.kind) {
    case MValue::Int: r += "i" + i128str(m.i); break;
    case MValue::F32:
    case MValue::F64: {
      double d = m.asDouble();
      if (d != d) r += "nan";
      else if (std::isfinite(d) && d == std::floor(d) && d >= -9223372036854775808.0 && d < 18446744073709551616.0)
        r += "i" + i128str(d < 0 ? i128(int64_t(d)) : i128(uint64_t(d)));
      else {
        snprintf(buf, sizeof buf, "d%016llx", (unsigned long long)dbits(d));
        r += buf;
      }
      break;
    }
    case MValue::Arr:
      r += "[";
      for (auto& e : m.a) {
        valueText(e, r);
        r += ",";
      }
      r += "]";
      break;
    case MValue::Obj:
      r += "{";
      for (auto& kv : m.o) {
        r += hex(kv.first) + ":";
        valueText(kv.second, r);
        r += ",";
      }
      r += "}";
      break;
    default: mtext(m, r);
  }
}
inline std::string valueText(const MValue& m) {
  std::string r;
  valueText(m, r);
  return r;
}

// M: the value G read back after a MessagePack round trip equals M (numbers by value, floats exact)
inline bool sameValueExact(const MValue& G, const MValue& M, const std::string& path, std::string& why, std::string& leaf) {
  auto die = [&](const std::string& w) {
    why = path + ": " + w + " (got " + mtext(G).substr(0, 80) + ", expected " + mtext(M).substr(0, 80) + ")";
    return false;
  };
  switch (M.kind) {
    case MValue::Null: return G.kind == MValue::Null || die("not null");
    case MValue::Bool: return (G.kind == MValue::Bool && G.b == M.b) || die("boolean differs");
    case MValue::Int: leaf = mtext(M); return (G.kind == MValue::Int && G.i == M.i) || die("integer differs");
    case MValue::F32:
    case MValue::F64: {
      leaf = mtext(M);
      double x = M.asDouble();
      if (!G.isNumber()) return die("not a number");
      if (G.kind == MValue::Int) {
        if (std::isfinite(x) && x == std::floor(x) && (long double)G.i == (long double)x) return true;
        return die("integer of a different value");
      }
      double y = G.asDouble();
      if (x != x) return y != y || die("NaN lost");
      return y == x || die("floating-point value differs");
    }
    case MValue::Str: leaf = mtext(M).substr(0, 60); return (G.kind == MValue::Str && G.s == M.s) || die("string bytes differ");
    case MValue::Raw: return (G.kind == MValue::Raw && G.s == M.s) || die("raw bytes differ");
    case MValue::Arr:
      if (G.kind != MValue::Arr || G.a.size() != M.a.size()) return die("array size differs");
      for (size_t i = 0; i < M.a.size(); i++)
        if (!sameValueExact(G.a[i], M.a[i], path + "[" + std::to_string(i) + "]", why, leaf)) return false;
      return true;
    case MValue::Obj:
      if (G.kind != MValue::Obj || G.o.size() != M.o.size()) return die("object size differs");
      for (size_t i = 0; i < M.o.size(); i++) {
        if (G.o[i].first != M.o[i].first) return die("key " + std::to_string(i) + " differs or is out of order");
        if (!sameValueExact(G.o[i].second, M.o[i].second, path + "." + vis(M.o[i].first.substr(0, 12)), why, leaf)) return false;
      }
      return true;
  }
  return false;
}

inline bool hasNonFinite(const MValue& m) {
  if (m.isFloat()) return !std::isfinite(m.asDouble());
  for (auto& e : m.a)
    if (hasNonFinite(e)) return true;
  for (auto& kv : m.o)
    if (hasNonFinite(kv.second)) return true;
  return false;
}

inline void checkRoundTripDoc(Ctx& C, const MValue& m, int sto) {
  std::string key = docKey(m) + (sto ? "|sto=signed" : "");
  C.begin(key + "|op=roundtripJ+M");
  JsonDocument doc;
  if (!buildChecked(C, key, doc, m, sto)) {
    C.outcome("build-failed");
    C.end();
    return;
  }
  JsonVariantConst v = doc.as<JsonVariantConst>();
  const size_t nest = m.nesting();
  std::string sig;
  // ---- J
  {
    const std::string kj = key + "|op=roundtripJ";
    std::string text;
    serializeJson(v, text);
    JsonDocument back;
    DeserializationError err = nest <= ARDUINOJSON_DEFAULT_NESTING_LIMIT ? deserializeJson(back, text)
                                                                         : deserializeJson(back, text, DeserializationOption::NestingLimit(255));
    if (err != DeserializationError::Ok) {
      C.failKey(kj + "|stage=parse", "not-ok", std::string("deserializeJson(serializeJson(d)) returned ") + err.c_str() + " for '" + vis(text.substr(0, 200)) + "'");
      sig += "J:error ";
    } else {
      // printing side (C12 print bound, everything else exact) through the independent parser ...
      MValue P;
      std::string perr;
      if (!refjson::parse(text, P, &perr)) {
        C.failKey(kj + "|stage=print", "rfc8259", "independent parser rejects the text: " + perr);
      } else {
        Issue fatal;
        std::vector<Issue> soft;
        bool ok = denotes(P, m, "$", fatal, soft);
        reportIssues(C, kj + "|stage=print", fatal, !ok, soft);
        // ... composed with the parsing side (C12 parse bound for the literal actually printed)
        MValue G = extract(back.as<JsonVariantConst>());
        std::string why;
        if (!refjson::matches(G, P, why)) C.failKey(kj + "|stage=parse", "value", why);
        std::string ob = obsReal(back.as<JsonVariantConst>());
        if (ob.find('!') != std::string::npos) C.failKey(kj + "|stage=parse", "api-consistency", ob.substr(ob.find('!'), 40));
        sig += hasNonFinite(m) ? "J:nonfinite->null " : "J:ok ";
      }
    }
  }
  // ---- M
  {
    const std::string km = key + "|op=roundtripM";
    std::string bytes;
    serializeMsgPack(v, bytes);
    JsonDocument back;
    DeserializationError err = nest <= ARDUINOJSON_DEFAULT_NESTING_LIMIT
                                   ? deserializeMsgPack(back, bytes.data(), bytes.size())
                                   : deserializeMsgPack(back, bytes.data(), bytes.size(), DeserializationOption::NestingLimit(255));
    if (err != DeserializationError::Ok) {
      C.failKey(km, "not-ok", std::string("deserializeMsgPack(serializeMsgPack(d)) returned ") + err.c_str() + " for " + hex(bytes.substr(0, 64)));
      sig += "M:error";
    } else {
      MValue G = extract(back.as<JsonVariantConst>());
      std::string why, leaf;
      if (!sameValueExact(G, m, "$", why, leaf)) C.failKey(km + (leaf.empty() ? "" : "|leaf=" + leaf), "value", why);
      std::string again;
      serializeMsgPack(back.as<JsonVariantConst>(), again);
      if (again != bytes) C.failKey(km, "reserialize", "second serialization differs: " + firstDiff(again, bytes));
      std::string ob = obsReal(back.as<JsonVariantConst>());
      if (ob.find('!') != std::string::npos) C.failKey(km, "api-consistency", ob.substr(ob.find('!'), 40));
      sig += "M:ok";
    }
  }
  if (hasContainer(m) || m.kind == MValue::Str || m.isFloat() || (m.kind == MValue::Int && (m.i > 0x7fffffff || m.i < -i128(0x80000000LL)))) C.nontrivial();
  C.outcome(std::string(kindName(m)) + " " + sig);
  C.end();
}

// ---- X: JSON text -> doc_A -> MessagePack -> doc_B; doc_A == doc_B
// exactOnly: only the trees with exactly N nodes (the smaller ones were covered by a previous pass)
inline void runCross(Ctx& C, int N, int deepFrom, bool exactOnly) {
  TreeGen G;
  G.leavesTop = ix_valid::leafAlphabet(false);
  G.leavesDeep = ix_valid::leafAlphabet(true);
  G.deepFrom = deepFrom;
  G.keys = ix_valid::keyAlphabet();
  G.dupKeys = true;
  auto sink = [&](const MValue& tree) {
    if (C.expired()) return;
    if (!C.take()) return;
    refjson::PrintOpt po;
    std::string text = refjson::printDoc(tree, po);
    std::string key = "doc:json=" + abbr(vis(text)) + "|op=roundtripX";
    C.begin(key);
    JsonDocument A, B;
    DeserializationError ea = deserializeJson(A, text.data(), text.size());
    if (ea != DeserializationError::Ok) {
      C.outcome(std::string("X:json-") + ea.c_str());  // C01's business
      C.end();
      return;
    }
    std::string bytes;
    serializeMsgPack(A, bytes);
    DeserializationError eb = deserializeMsgPack(B, bytes.data(), bytes.size());
    if (eb != DeserializationError::Ok) {
      C.fail("not-ok", std::string("deserializeMsgPack of the converted document returned ") + eb.c_str() + ", bytes " + hex(bytes.substr(0, 64)));
      C.outcome("X:msgpack-error");
      C.end();
      return;
    }
    JsonVariantConst a = A.as<JsonVariantConst>(), b = B.as<JsonVariantConst>();
    if (!(a == b)) C.fail("operator==", "doc_A == doc_B is false; A=" + mtext(extract(a)).substr(0, 200) + " B=" + mtext(extract(b)).substr(0, 200));
    if (!(b == a)) C.fail("operator==", "doc_B == doc_A is false");
    if (a != b) C.fail("operator==", "doc_A != doc_B is true");
    std::string va = valueText(extract(a)), vb = valueText(extract(b));
    if (va != vb) C.fail("value", "value-level observations differ: " + firstDiff(vb, va));
    bool sameStorage = obsReal(a) == obsReal(b);
    if (hasContainer(tree) || tree.kind == MValue::Str || tree.isNumber()) C.nontrivial();
    C.outcome(std::string("X:") + kindName(tree) + (sameStorage ? " same-observation" : " number-storage-changed"));
    C.end();
  };
  if (exactOnly) G.exact(N, 0, sink);
  else G.upTo(N, sink);
  C.bound(std::string("X: every JSON text printed by the reference printer from all trees with ") + (exactOnly ? "exactly " : "<= ") + std::to_string(N) +
          " nodes over the C01 alphabets (" + std::to_string(G.leavesTop.size()) + " leaves, " + std::to_string(G.leavesDeep.size()) + " at depth >= " +
          std::to_string(deepFrom) + ", " + std::to_string(G.keys.size()) + " keys with repetition)");
}

inline void runRoundTrip(Ctx& C) {
  const bool T = C.thorough();
  DocOptions o;
  o.withRaw = false;
  o.nodes = atoi(C.opt("nodes", T ? "4" : "3").c_str());
  o.deepFrom = atoi(C.opt("deepfrom", "64").c_str());
  if (T) o.deep = {100, 200};
  o.exactOnly = atoi(C.opt("exact", "0").c_str());
  std::vector<std::string> bounds;
  forEachDoc(o, [&](const MValue& m, int sto) {
    if (C.expired()) return;
    if (!C.take()) return;
    checkRoundTripDoc(C, m, sto);
  }, &bounds);
  if (o.exactOnly) {
    for (auto& b : bounds) C.bound("J, M: " + b);
    return;
  }
  // strings on both sides of the MessagePack length boundaries
  for (size_t n : {size_t(30), size_t(31), size_t(32), size_t(33), size_t(255), size_t(256), size_t(257), size_t(65534), size_t(65535)}) {
    if (C.expired()) break;
    if (!C.take()) continue;
    MValue a = MValue::array();
    a.a.push_back(MValue::str(pattern(n)));
    MValue ob = MValue::object();
    ob.o.emplace_back(pattern(n), MValue::str(pattern(n)));
    a.a.push_back(ob);
    checkRoundTripDoc(C, a, 0);
  }
  // containers on both sides of 65535/65536 (MessagePack round trip; built by deserializeMsgPack from a reference
  // encoding because member-by-member construction through the API is quadratic)
  for (size_t n : {size_t(65535), size_t(65536)}) {
    for (int isMap = 0; isMap < 2; isMap++) {
      if (C.expired()) break;
      if (!C.take()) continue;
      std::string key = std::string("doc:big-") + (isMap ? "map" : "array") + "-" + std::to_string(n) + "|op=roundtripM";
      C.begin(key);
      MValue m = isMap ? MValue::object() : MValue::array();
      char kb[16];
      for (size_t i = 0; i < n; i++) {
        if (isMap) { snprintf(kb, sizeof kb, "k%05zu", i); m.o.emplace_back(kb, MValue::integer(i128(i % 100))); }
        else m.a.push_back(MValue::integer(i128(i % 100)));
      }
      std::string in = verif::refmp::encode(m), out, out2;
      JsonDocument d1, d2;
      if (deserializeMsgPack(d1, in.data(), in.size()) != DeserializationError::Ok) C.fail("roundtripM-big", "reference encoding not accepted");
      serializeMsgPack(d1, out);
      DeserializationError e2 = deserializeMsgPack(d2, out.data(), out.size());
      if (e2 != DeserializationError::Ok) C.fail("roundtripM-big", std::string("deserializeMsgPack(serializeMsgPack(d)) returned ") + e2.c_str());
      else {
        if (d2.is<JsonObject>() != (isMap != 0) || d2.is<JsonArray>() != (isMap == 0) || d2.size() != n)
          C.fail("roundtripM-big", "the round trip changed the kind or size: size " + std::to_string(d2.size()) + ", object=" + std::to_string(int(d2.is<JsonObject>())));
        serializeMsgPack(d2, out2);
        if (out2 != out) C.fail("roundtripM-big", "re-serialization is not byte-identical");
        MValue back;
        size_t used = 0;
        if (verif::refmp::decode(out, back, &used) != verif::refmp::Ok || used != out.size() || mtext(back) != mtext(m))
          C.fail("roundtripM-big", "the independent decoder does not get the document back from serializeMsgPack (first bytes " + hex(out.substr(0, 6)) + ")");
      }
      C.nontrivial();
      C.end();
    }
  }
  // containers on both sides of 15/16
  for (size_t n : {size_t(15), size_t(16), size_t(17), size_t(300)}) {
    if (C.expired()) break;
    if (!C.take()) continue;
    MValue a = MValue::array(), ob = MValue::object();
    for (size_t i = 0; i < n; i++) {
      a.a.push_back(MValue::integer(i128(i) * 1000003 - 500));
      ob.o.emplace_back("k" + std::to_string(i), MValue::f64(double(i) + 0.5));
    }
    a.a.push_back(ob);
    checkRoundTripDoc(C, a, 0);
  }
  for (auto& b : bounds) C.bound("J, M: " + b + "; strings of 30..33, 255..257, 65534, 65535 bytes; containers of 15, 16, 17, 300 children");
  runCross(C, atoi(C.opt("xnodes", "3").c_str()), 3, false);
  if (T) runCross(C, 4, 1, true);
}

}  // namespace dx
