#include "ix_dialect.hpp"
int main(int argc, char** argv) {
  verif::Ctx C(argc, argv);
  ix_dialect::run(C);
  return C.finish();
}
