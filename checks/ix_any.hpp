// C03 — deserializeJson / deserializeMsgPack are memory-safe, input-bounded and source-independent on ANY bytes.
//
// Bounded exhaustive enumeration (no sampling):  inputs x input kinds x nesting limits x filters (x build configuration,
// one binary per configuration).  Oracles: sanitizers with every input in an exactly-sized heap block (a report kills
// the shard; the driver attributes it to the journalled input), the six documented codes, a traversable / serializable /
// clearable / reusable document afterwards, an allocator ledger without misuse or leak, and
//     (code, obsReal(doc))  IDENTICAL across all input kinds for the same bytes / limit / filter.
// Zero-terminated kinds (const char*, flash pointer without size, JsonVariant[Const] holding the text) only ever see
// the bytes up to the first NUL and are compared with the bounded kinds run on exactly these bytes; they are never
// given MessagePack.
#pragma once
#include <Arduino.h>  // the repository's own stubs (extras/tests/Helpers): String, Stream, pgmspace
#include <ArduinoJson.h>
#include <dirent.h>

#include <algorithm>
#include <sstream>
#include <string_view>

#include "common.hpp"
#include "model.hpp"
#include "refjson.hpp"
#include "refmsgpack.hpp"

namespace ix_any {
using namespace ArduinoJson;
using namespace verif;

#define IXA_STR2(x) #x
#define IXA_STR(x) IXA_STR2(x)
// build configuration tag (part of every case key)
static const char* const kCfg =
    "slot" IXA_STR(ARDUINOJSON_SLOT_ID_SIZE) ".pool" IXA_STR(ARDUINOJSON_POOL_CAPACITY) ".len" IXA_STR(ARDUINOJSON_STRING_LENGTH_SIZE) ".c" IXA_STR(
        ARDUINOJSON_ENABLE_COMMENTS) "n" IXA_STR(ARDUINOJSON_ENABLE_NAN) "i" IXA_STR(ARDUINOJSON_ENABLE_INFINITY) "u" IXA_STR(ARDUINOJSON_DECODE_UNICODE);

// ------------------------------------------------------------------------------------------------ dimensions
enum Kind { K_CSTR, K_SIZED, K_STRING, K_SVIEW, K_ISTREAM, K_READER, K_FLASH, K_FLASHN, K_ASTRING, K_ASTREAM, K_JVC, K_JV, K_RANGE, NKINDS };
static const char* const kKindName[NKINDS] = {"cstr", "sized", "string", "sview", "istream", "reader", "flash", "flashn", "String", "Stream", "jvconst", "jv", "range"};
static const bool kZeroTerminated[NKINDS] = {true, false, false, false, false, false, true, false, false, false, true, true, false};

static const int kLimits[] = {0, 1, 2, 3, 10, 255};
static const int NLIMITS = 6, DEFAULT_LIMIT = 4;  // index of 10
static const char* const kFilterText[] = {"none", "true", "false", "null", "{}", "[]", "{\"*\":true}", "[true]", "{\"a\":true}",
                                          "{\"*\":[{\"*\":true}]}", "\"x\"", "1", "2", "[{\"a\":[true]}]"};
static const int NFILTERS = 14;

// Allocator ledger with the semantics of engine/ledger_alloc.hpp (every block must come from and return to this
// allocator exactly once; reallocate always moves the block so that a stale pointer is an ASan report), but with the
// live set in a small vector instead of a std::map — a run of this check makes 10^9 allocator calls — and a cap:
// a request above 1 MB returns null, so that a hostile MessagePack length header cannot exhaust memory
// (NoMemory is then a legitimate, and source-independent, code).
struct CappedAllocator : ArduinoJson::Allocator {
  struct Block {
    void* p;
    size_t n;
  };
  std::vector<Block> live;
  std::vector<std::string> errors;
  uint64_t nAlloc = 0, nRealloc = 0, nFree = 0, refused = 0;
  static constexpr size_t kCap = 1u << 20;
  // every fresh byte handed to the library is set to `fill`, which the harness makes different for every input kind:
  // a result that depends on uninitialised memory (e.g. a string whose bytes were never read from the input) then
  // differs between kinds and is caught by the source-independence clause instead of passing by luck
  unsigned char fill = 0;

  ~CappedAllocator() { for (auto& b : live) free(b.p); }
  void resetCounters() { nAlloc = nRealloc = nFree = 0; }
  int find(void* p) const {
    for (size_t i = live.size(); i-- > 0;)
      if (live[i].p == p) return int(i);
    return -1;
  }
  void* allocate(size_t n) override {
    nAlloc++;
    if (n > kCap) { refused++; return nullptr; }
    void* p = malloc(n ? n : 1);
    memset(p, fill, n);
    live.push_back({p, n});
    return p;
  }
  void deallocate(void* p) override {
    nFree++;
    if (!p) return;
    int i = find(p);
    if (i < 0) {
      errors.push_back("deallocate of a block this allocator does not own (double free or foreign block)");
      return;  // not freed: the process stays alive and the violation is reported with its case
    }
    live[size_t(i)] = live.back();
    live.pop_back();
    free(p);
  }
  void* reallocate(void* p, size_t n) override {
    nRealloc++;
    int i = -1;
    size_t old = 0;
    if (p) {
      i = find(p);
      if (i < 0) {
        errors.push_back("reallocate of a block this allocator does not own");
        return nullptr;
      }
      old = live[size_t(i)].n;
    }
    if (n > kCap) { refused++; return nullptr; }  // like realloc: the old block stays valid
    void* q = malloc(n ? n : 1);
    if (n > old) memset(static_cast<char*>(q) + old, fill, n - old);
    if (p) {
      memcpy(q, p, old < n ? old : n);
      free(p);
      live[size_t(i)] = {q, n};
    } else {
      live.push_back({q, n});
    }
    return q;
  }
  std::string takeErrors() {
    std::string r;
    for (auto& e : errors) r += e + "; ";
    errors.clear();
    return r;
  }
  std::string liveSignature() const {
    std::string r;
    for (auto& b : live) r += std::to_string(b.n) + " ";
    return r;
  }
};

// ------------------------------------------------------------------------------------------------ sources
// custom reader (duck-typed: int read(), size_t readBytes(char*, size_t)); counts calls made after it reported the end
struct MemReader {
  const char* p = nullptr;
  size_t n = 0, pos = 0;
  bool ended = false;
  uint64_t afterEnd = 0;
  void reset(const char* b, size_t len) { p = b; n = len; pos = 0; ended = false; }
  int read() {
    if (ended) afterEnd++;
    if (pos >= n) { ended = true; return -1; }
    return (unsigned char)p[pos++];
  }
  size_t readBytes(char* dst, size_t len) {
    if (ended) afterEnd++;
    size_t k = 0;
    while (k < len && pos < n) dst[k++] = p[pos++];
    if (k < len) ended = true;
    return k;
  }
};
// Arduino Stream (virtual interface of the repository's stub)
struct MemStream : Stream {
  MemReader r;
  int read() override { return r.read(); }
  size_t readBytes(char* dst, size_t len) override { return r.readBytes(dst, len); }
};
// Arduino String holding arbitrary bytes: the stub's (const char*) constructor stops at a NUL, the protected
// concat(ptr, len) (which real cores have too) does not; length() is the byte count, so this is a bounded kind.
struct BinString : ::String {
  BinString() {}
  void assignBytes(const char* p, size_t n) {
    ::String::operator=("");
    limitCapacityTo(n + 16);
    if (n) concat(p, n);
  }
};

// exactly-sized heap blocks, one per size, reused: [block, block+size) is addressable, block[size] is a redzone.
// size 0: a 1-byte block whose END is handed out, so that any dereference is a report.
struct ExactBlocks {
  std::vector<char*> bySize;
  ~ExactBlocks() {
    for (size_t n = 0; n < bySize.size(); n++)
      if (bySize[n]) free(bySize[n] - (n ? 0 : 1));
  }
  char* get(size_t n) {
    if (n >= bySize.size()) bySize.resize(n + 1, nullptr);
    if (!bySize[n]) bySize[n] = static_cast<char*>(malloc(n ? n : 1)) + (n ? 0 : 1);
    return bySize[n];
  }
};

// ------------------------------------------------------------------------------------------------ one input, all its sources
struct Env {
  Ctx& C;
  JsonDocument filters[14];
  CappedAllocator A;
  ExactBlocks blocksFull, blocksZt;  // separate pools: a bounded block and a terminated block may have the same size
  std::string obsTmp, out1, out2;
  uint64_t runs = 0, runsByFmtCode[2][8] = {{0}}, inputsByFmtCode[2][8] = {{0}}, nontrivialCounted = 0, customAfterEnd = 0, streamAfterEnd = 0, consumedMismatch = 0;
  uint64_t inputs[2] = {0, 0}, inputsWithNul = 0;
  explicit Env(Ctx& c) : C(c) {
    for (int i = 1; i < NFILTERS; i++) {
      if (deserializeJson(filters[i], kFilterText[i]) != DeserializationError::Ok) {
        fprintf(stderr, "cannot build filter %s\n", kFilterText[i]);
        exit(3);
      }
    }
  }
};

struct Result {
  int code = -1;
  std::string obs;
  uint64_t allocCalls = 0;
  size_t consumed = 0;
};

// An iterator range over NON-contiguous storage: the bytes live in 3-byte blocks, each in its own exactly-sized heap
// block, so that anything that treats the range as one contiguous buffer is an ASan report (or a different document).
struct SegSource {
  static constexpr size_t B = 3;
  std::vector<char*> blocks;
  size_t n = 0;
  SegSource() {}
  SegSource(const SegSource&) = delete;
  ~SegSource() { clear(); }
  void clear() {
    for (char* b : blocks) free(b);
    blocks.clear();
    n = 0;
  }
  void assign(const char* p, size_t len) {
    clear();
    n = len;
    for (size_t i = 0; i < len; i += B) {
      size_t k = std::min(B, len - i);
      char* b = static_cast<char*>(malloc(k));
      memcpy(b, p + i, k);
      blocks.push_back(b);
    }
  }
  struct const_iterator {
    typedef std::random_access_iterator_tag iterator_category;
    typedef char value_type;
    typedef ptrdiff_t difference_type;
    typedef const char* pointer;
    typedef const char& reference;
    const SegSource* s = nullptr;
    size_t i = 0;
    const char& operator*() const { return s->blocks[i / B][i % B]; }
    const_iterator& operator++() { ++i; return *this; }
    const_iterator operator++(int) { const_iterator t = *this; ++i; return t; }
    const_iterator& operator+=(ptrdiff_t d) { i = size_t(ptrdiff_t(i) + d); return *this; }
    const_iterator operator+(ptrdiff_t d) const { const_iterator t = *this; t += d; return t; }
    ptrdiff_t operator-(const const_iterator& o) const { return ptrdiff_t(i) - ptrdiff_t(o.i); }
    bool operator<(const const_iterator& o) const { return i < o.i; }
    bool operator==(const const_iterator& o) const { return i == o.i; }
    bool operator!=(const const_iterator& o) const { return i != o.i; }
  };
  const_iterator begin() const { const_iterator it; it.s = this; it.i = 0; return it; }
  const_iterator end() const { const_iterator it; it.s = this; it.i = n; return it; }
};

struct Input {
  bool mp = false;
  const std::string* bytes = nullptr;
  size_t ztLen = 0;
  bool hasNul = false;
  const char* full = nullptr;  // exactly bytes->size() addressable bytes
  const char* zt = nullptr;    // ztLen bytes + NUL, exactly
  // prepared on demand
  bool rich = false;
  std::string s;
  BinString as;
  std::istringstream iss;
  MemReader rd;
  MemStream st;
  JsonDocument owned, linked;
  SegSource seg;
};

template <class... In>
inline DeserializationError desJson(Env& E, JsonDocument& doc, int li, int fi, In&&... in) {
  auto nl = DeserializationOption::NestingLimit(uint8_t(kLimits[li]));
  if (fi == 0) return deserializeJson(doc, in..., nl);
  return deserializeJson(doc, in..., DeserializationOption::Filter(E.filters[fi].as<JsonVariantConst>()), nl);
}
template <class... In>
inline DeserializationError desMp(Env& E, JsonDocument& doc, int li, int fi, In&&... in) {
  auto nl = DeserializationOption::NestingLimit(uint8_t(kLimits[li]));
  if (fi == 0) return deserializeMsgPack(doc, in..., nl);
  // the other argument order, for variety: (NestingLimit, Filter)
  return deserializeMsgPack(doc, in..., nl, DeserializationOption::Filter(E.filters[fi].as<JsonVariantConst>()));
}
template <class... In>
inline DeserializationError des(Env& E, bool mp, JsonDocument& doc, int li, int fi, In&&... in) {
  return mp ? desMp(E, doc, li, fi, in...) : desJson(E, doc, li, fi, in...);
}

inline const __FlashStringHelper* asFlash(const char* p) {
  return reinterpret_cast<const __FlashStringHelper*>(convertPtrToFlash(p));
}

// the deserialization call itself, for one kind.  `onZt`: use the NUL-truncated bytes (reference run of kind `sized`
// for the zero-terminated kinds).
inline DeserializationError invoke(Env& E, Input& I, int kind, bool onZt, JsonDocument& doc, int li, int fi, size_t& consumed) {
  const bool mp = I.mp;
  const size_t n = I.bytes->size();
  consumed = 0;
  switch (kind) {
    case K_CSTR: {
      const char* p = I.zt;
      return desJson(E, doc, li, fi, p);
    }
    case K_SIZED: {
      const char* p = onZt ? I.zt : I.full;
      size_t len = onZt ? I.ztLen : n;
      return des(E, mp, doc, li, fi, p, len);
    }
    case K_STRING: return des(E, mp, doc, li, fi, I.s);
    case K_SVIEW: {
      std::string_view sv(I.full, n);
      return des(E, mp, doc, li, fi, sv);
    }
    case K_ISTREAM: {
      I.iss.clear();
      I.iss.seekg(0);
      DeserializationError e = des(E, mp, doc, li, fi, I.iss);
      I.iss.clear();
      std::streamoff off = I.iss.tellg();
      consumed = off < 0 ? n : size_t(off);
      return e;
    }
    case K_READER: {
      I.rd.reset(I.full, n);
      DeserializationError e = des(E, mp, doc, li, fi, I.rd);
      E.customAfterEnd += I.rd.afterEnd;
      I.rd.afterEnd = 0;
      consumed = I.rd.pos;
      return e;
    }
    case K_FLASH: return desJson(E, doc, li, fi, asFlash(I.zt));
    case K_FLASHN: return des(E, mp, doc, li, fi, asFlash(I.full), n);
    case K_ASTRING: return des(E, mp, doc, li, fi, static_cast<const ::String&>(I.as));
    case K_ASTREAM: {
      I.st.r.reset(I.full, n);
      DeserializationError e = des(E, mp, doc, li, fi, static_cast<Stream&>(I.st));
      E.streamAfterEnd += I.st.r.afterEnd;
      I.st.r.afterEnd = 0;
      consumed = I.st.r.pos;
      return e;
    }
    case K_JVC: {
      JsonVariantConst v = I.owned.as<JsonVariantConst>();
      return desJson(E, doc, li, fi, v);
    }
    case K_JV: {
      JsonVariant v = I.linked.as<JsonVariant>();
      return desJson(E, doc, li, fi, v);
    }
    case K_RANGE: return des(E, mp, doc, li, fi, static_cast<const SegSource&>(I.seg));
  }
  return DeserializationError::Ok;
}

inline const char* codeName(int c) {
  static const char* const names[] = {"Ok", "EmptyInput", "IncompleteInput", "InvalidInput", "NoMemory", "TooDeep"};
  return (c >= 0 && c < 6) ? names[c] : "(undocumented code)";
}

// run one (kind, limit, filter) and apply the per-run oracle; problems are appended to `problems`
inline void runOne(Env& E, Input& I, int kind, bool onZt, int li, int fi, Result& R, std::string& problems) {
  CappedAllocator& A = E.A;
  A.resetCounters();
  A.fill = static_cast<unsigned char>(0xA0 + kind);
  E.runs++;
  if (E.C.verbose) {  // replay: the last RUN line before a sanitizer report names the (kind, limit, filter)
    printf("RUN kind=%s%s|limit=%d|filter=%s\n", kKindName[kind], onZt ? "(bytes up to the first NUL)" : "", kLimits[li], kFilterText[fi]);
    fflush(stdout);
  }
  {
    JsonDocument doc(&A);
    DeserializationError err = invoke(E, I, kind, onZt, doc, li, fi, R.consumed);
    R.code = int(err.code());
    R.allocCalls = A.nAlloc + A.nRealloc;
    if (R.code < 0 || R.code > 5) problems += "return value " + std::to_string(R.code) + " is not one of the six documented codes; ";
    else {
      E.runsByFmtCode[I.mp][R.code]++;
      if (strcmp(err.c_str(), codeName(R.code)) != 0) problems += std::string("c_str() of the code is ") + err.c_str() + "; ";
    }
    // the document is a well-formed value: traverse, serialize, clear, reuse
    R.obs.clear();
    obsReal(doc.as<JsonVariantConst>(), R.obs);
    size_t bang = R.obs.find('!');
    if (bang != std::string::npos) problems += "document is not a well-formed value: " + R.obs.substr(bang, 60) + "; ";
    E.out1.clear();
    size_t n1 = serializeJson(doc, E.out1);
    if (n1 != E.out1.size()) problems += "serializeJson returned a count different from the bytes written; ";
    E.out2.clear();
    size_t n2 = serializeMsgPack(doc, E.out2);
    if (n2 != E.out2.size()) problems += "serializeMsgPack returned a count different from the bytes written; ";
    if (n1 == 0 || n2 == 0) problems += "serialization of the document produced nothing; ";
    doc.clear();
    if (!doc.isNull() || doc.size() != 0) problems += "document not null after clear(); ";
    DeserializationError e2 = deserializeJson(doc, "[1]");
    if (e2 != DeserializationError::Ok || !doc.is<JsonArrayConst>() || doc.size() != 1 || doc[0] != 1 || !doc[0].is<int>())
      problems += std::string("document not reusable: deserializeJson(doc, \"[1]\") gave ") + e2.c_str() + "; ";
    if (!A.errors.empty()) problems += "allocator misuse: " + A.takeErrors();
  }
  if (!A.live.empty()) {
    problems += "blocks live after destruction of the document: " + A.liveSignature() + "; ";
    for (auto& b : A.live) free(b.p);
    A.live.clear();
  }
  if (!A.errors.empty()) problems += "allocator misuse: " + A.takeErrors();
}

inline std::string diffText(const Result& a, const Result& b) {
  std::string r = std::string(codeName(a.code)) + " vs " + codeName(b.code);
  if (a.obs != b.obs) {
    size_t i = 0;
    while (i < a.obs.size() && i < b.obs.size() && a.obs[i] == b.obs[i]) i++;
    r += "; documents differ at observation offset " + std::to_string(i) + ": ..." + a.obs.substr(i > 30 ? i - 30 : 0, 100) + " vs ..." +
         b.obs.substr(i > 30 ? i - 30 : 0, 100);
  }
  return r;
}

enum Shape { FULL, STAR, RAM };

struct Plan {
  bool starZt = true;  // the limit / filter arms of the star also run kind cstr (JSON), not only kind sized
};

inline void appendHex(std::string& r, const std::string& s) {
  static const char* d = "0123456789abcdef";
  for (unsigned char c : s) {
    r.push_back(d[c >> 4]);
    r.push_back(d[c & 15]);
  }
}

struct Evaluator {
  Env& E;
  Plan plan;
  Input I;
  std::string key, sub, problems;
  bool countOnly = false;
  Result R, Rz, Rk;
  Evaluator(Env& e, const Plan& p) : E(e), plan(p) {}

  std::string subKey(int kind, int li, int fi, bool onZt) {
    return key + "|kind=" + kKindName[kind] + (onZt ? "(bytes up to the first NUL)" : "") + "|limit=" + std::to_string(kLimits[li]) +
           "|filter=" + kFilterText[fi];
  }

  // reference run(s) of kind `sized` + every kind of `kinds` compared with it
  void group(int li, int fi, const bool* kinds, bool isDefault) {
    problems.clear();
    runOne(E, I, K_SIZED, false, li, fi, R, problems);
    if (!problems.empty()) E.C.failKey(subKey(K_SIZED, li, fi, false), "safety", problems);
    if (isDefault) {
      if (R.code >= 0 && R.code < 6) E.inputsByFmtCode[I.mp][R.code]++;
      // Appendix C: Ok with a non-null document, or failed after having stored something
      bool nonNull = R.obs.size() < 6 || R.obs[5] != 'n';
      if ((R.code == 0 && nonNull) || (R.code != 0 && (nonNull || R.allocCalls > 0))) {
        // the deepest levels are 10^8..10^9 inputs: they are counted, not remembered in the set of hashes
        if (countOnly) E.nontrivialCounted++;
        else E.C.nontrivial();
      }
    }
    bool anyZt = false;
    for (int k = 0; k < NKINDS; k++) anyZt = anyZt || (!I.mp && kinds[k] && kZeroTerminated[k]);
    const Result* refZt = &R;
    if (anyZt && I.hasNul) {
      problems.clear();
      runOne(E, I, K_SIZED, true, li, fi, Rz, problems);
      if (!problems.empty()) E.C.failKey(subKey(K_SIZED, li, fi, true), "safety", problems);
      refZt = &Rz;
    }
    size_t consumedStreams[3] = {0, 0, 0};
    int ns = 0;
    for (int k = 0; k < NKINDS; k++) {
      if (!kinds[k] || k == K_SIZED) continue;
      if (I.mp && kZeroTerminated[k]) continue;
      problems.clear();
      runOne(E, I, k, false, li, fi, Rk, problems);
      if (!problems.empty()) E.C.failKey(subKey(k, li, fi, false), "safety", problems);
      const Result& ref = kZeroTerminated[k] ? *refZt : R;
      if (Rk.code != ref.code || Rk.obs != ref.obs)
        E.C.failKey(subKey(k, li, fi, false), "source-dependence",
                    std::string("kind ") + kKindName[k] + " vs kind sized on the same bytes: " + diffText(Rk, ref));
      if (k == K_ISTREAM || k == K_READER || k == K_ASTREAM) consumedStreams[ns++] = Rk.consumed;
    }
    // recorded, not judged (C16 judges consumption): the three streaming kinds stop at the same offset
    if (ns == 3 && (consumedStreams[0] != consumedStreams[1] || consumedStreams[1] != consumedStreams[2])) E.consumedMismatch++;
  }

  void prepare(bool mp, const std::string& bytes, bool rich) {
    I.mp = mp;
    I.bytes = &bytes;
    size_t n = bytes.size();
    size_t z = bytes.find('\0');
    I.hasNul = z != std::string::npos;
    I.ztLen = I.hasNul ? z : n;
    char* f = E.blocksFull.get(n);
    if (n) memcpy(f, bytes.data(), n);
    I.full = f;
    if (!mp) {
      char* t = E.blocksZt.get(I.ztLen + 1);
      if (I.ztLen) memcpy(t, bytes.data(), I.ztLen);
      t[I.ztLen] = 0;
      I.zt = t;
    } else {
      I.zt = nullptr;
    }
    I.rich = rich;
    if (rich) {
      I.s = bytes;
      I.seg.assign(bytes.data(), n);
      I.as.assignBytes(bytes.data(), n);
      if (I.as.length() != n || memcmp(I.as.c_str(), bytes.data(), n) != 0) E.C.fail("harness", "the Arduino String stub does not hold the bytes");
      I.iss.clear();
      I.iss.str(bytes);
      if (!mp) {
        I.owned.set(std::string(bytes.data(), I.ztLen));  // owned copy in the other document's string pool
        I.linked.set(static_cast<const char*>(I.zt));     // linked: points at the terminated exact block
        if (!I.owned.is<const char*>() || !I.linked.is<const char*>()) E.C.fail("harness", "cannot store the text in the source variants");
      }
    }
  }

  void eval(bool mp, const std::string& bytes, Shape shape) {
    key.assign(mp ? "in:msgpack:" : "in:json:");
    appendHex(key, bytes);
    key += "|cfg=";
    key += kCfg;
    E.C.begin(key);
    E.inputs[mp]++;
    prepare(mp, bytes, shape != RAM);
    if (I.hasNul) E.inputsWithNul++;
    bool all[NKINDS], ram[NKINDS], one[NKINDS];
    for (int k = 0; k < NKINDS; k++) {
      all[k] = true;
      ram[k] = k == K_CSTR || k == K_SIZED;
      one[k] = k == K_SIZED || (plan.starZt && k == K_CSTR);
    }
    switch (shape) {
      case FULL:
        for (int li = 0; li < NLIMITS; li++)
          for (int fi = 0; fi < NFILTERS; fi++) group(li, fi, all, li == DEFAULT_LIMIT && fi == 0);
        break;
      case STAR:
        group(DEFAULT_LIMIT, 0, all, true);
        for (int li = 0; li < NLIMITS; li++)
          if (li != DEFAULT_LIMIT) group(li, 0, one, false);
        for (int fi = 1; fi < NFILTERS; fi++) group(DEFAULT_LIMIT, fi, one, false);
        break;
      case RAM:
        group(DEFAULT_LIMIT, 0, ram, true);
        break;
    }
    E.C.end();
  }
};

// ------------------------------------------------------------------------------------------------ corpus
inline std::vector<std::pair<std::string, std::string>> readDir(const std::string& dir) {
  std::vector<std::pair<std::string, std::string>> r;
  DIR* d = opendir(dir.c_str());
  if (!d) return r;
  while (dirent* e = readdir(d)) {
    if (e->d_name[0] == '.') continue;
    std::string path = dir + "/" + e->d_name;
    FILE* f = fopen(path.c_str(), "rb");
    if (!f) continue;
    std::string s;
    char buf[4096];
    size_t k;
    while ((k = fread(buf, 1, sizeof buf, f)) > 0) s.append(buf, k);
    fclose(f);
    r.emplace_back(e->d_name, s);
  }
  closedir(d);
  std::sort(r.begin(), r.end());
  return r;
}

inline std::vector<MValue> generatedTrees() {
  auto num = [](const char* lit, MValue m) { m.s = lit; return m; };
  std::vector<MValue> T;
  {  // nested arrays with numbers
    MValue a = MValue::array(), b = MValue::array(), c = MValue::array();
    c.a.push_back(num("-1", MValue::integer(-1)));
    b.a.push_back(c);
    b.a.push_back(num("2.5e3", MValue::f64(2.5e3)));
    a.a.push_back(b);
    a.a.push_back(MValue::null());
    T.push_back(a);  // [[[-1],2.5e3],null]
  }
  {  // object with string escapes and a NUL inside a string
    MValue o = MValue::object();
    o.o.emplace_back("a", MValue::str(std::string("x\0y", 3)));
    o.o.emplace_back("b\n", MValue::boolean(true));
    T.push_back(o);
  }
  {  // object in array in object, duplicate key
    MValue o = MValue::object(), a = MValue::array(), i = MValue::object();
    i.o.emplace_back("a", num("1", MValue::integer(1)));
    i.o.emplace_back("a", MValue::boolean(false));
    a.a.push_back(i);
    o.o.emplace_back("k", a);
    o.o.emplace_back("", MValue::str("\xc3\xa9\xf0\x9f\x98\x80"));
    T.push_back(o);
  }
  {  // integer boundaries
    MValue a = MValue::array();
    a.a.push_back(num("18446744073709551615", MValue::integer((i128(1) << 64) - 1)));
    a.a.push_back(num("-9223372036854775808", MValue::integer(-(i128(1) << 63))));
    a.a.push_back(num("4294967296", MValue::integer(i128(1) << 32)));
    T.push_back(a);
  }
  {  // nesting 4 with mixed containers
    MValue a = MValue::array(), o = MValue::object(), b = MValue::array(), p = MValue::object();
    p.o.emplace_back("z", MValue::str(""));
    b.a.push_back(p);
    o.o.emplace_back("y", b);
    a.a.push_back(o);
    a.a.push_back(num("0.1", MValue::f64(0.1)));
    T.push_back(a);  // [{"y":[{"z":""}]},0.1]
  }
  {  // a 40-character string and a 33-character key (string builder growth, str8 in MessagePack)
    MValue o = MValue::object();
    o.o.emplace_back(std::string(33, 'k'), MValue::str(std::string(40, 's')));
    T.push_back(o);
  }
  return T;
}

struct CorpusItem {
  bool mp;
  std::string name, bytes;
};

inline std::vector<CorpusItem> corpus(size_t maxFile) {
  std::vector<CorpusItem> r;
  const char* repo = getenv("VERIF_REPO");
  std::string base = std::string(repo ? repo : "/repo") + "/extras/fuzzing/";
  for (auto& f : readDir(base + "json_seed_corpus"))
    if (f.second.size() <= maxFile) r.push_back({false, "seed:" + f.first, f.second});
  for (auto& f : readDir(base + "msgpack_seed_corpus"))
    if (f.second.size() <= maxFile) r.push_back({true, "seed:" + f.first, f.second});
  int i = 0;
  for (auto& t : generatedTrees()) {
    refjson::PrintOpt po;
    po.spelling = (i == 1) ? 2 : 0;  // one document with \uXXXX escapes
    po.layout = (i == 2) ? 1 : 0;    // one with a space at every whitespace position
    r.push_back({false, "gen" + std::to_string(i) + ".json", refjson::printDoc(t, po)});
    std::function<void(MValue&)> strip = [&](MValue& x) { if (x.isNumber()) x.s.clear(); for (auto& e : x.a) strip(e); for (auto& kv : x.o) strip(kv.second); };
    MValue m = t;
    strip(m);
    r.push_back({true, "gen" + std::to_string(i) + ".msgpack", refmp::encode(m)});
    i++;
  }
  // number tokens around the 63-character scratch buffer of the JSON parser (every truncation of these walks 66..1 characters)
  r.push_back({false, "longnum-array.json", "[" + std::string(66, '1') + "]"});
  r.push_back({false, "longnum-top.json", "-0." + std::string(62, '0') + "1e-5"});
  r.push_back({false, "longnum-member.json", "{\"a\":" + std::string(64, '9') + ",\"b\":1}"});
  // \u escapes of every UTF-8 length class and every surrogate situation
  r.push_back({false, "esc-classes.json", "[\"\\u0041\\u00e9\\u20ac\\ud83d\\ude00\"]"});
  r.push_back({false, "esc-lone-high.json", "\"\\ud83d\""});
  r.push_back({false, "esc-lone-low.json", "\"\\ude00\""});
  r.push_back({false, "esc-high-high-low.json", "\"\\ud83d\\ud83d\\ude00\""});
  r.push_back({false, "esc-key.json", "{\"\\ud834\\udd1e\":1}"});
  // repeated keys whose replaced value owns resources (strings, containers, extension slots): released and re-used while parsing
  r.push_back({false, "dup-strings.json", "{\"a\":\"x\",\"a\":\"x\",\"b\":\"x\"}"});
  r.push_back({false, "dup-containers.json", "{\"a\":[1,[2]],\"a\":{\"b\":\"a\"},\"a\":\"a\"}"});
  r.push_back({false, "dup-extensions.json", "{\"a\":1.5e300,\"a\":18446744073709551615,\"a\":null}"});
  r.push_back({false, "dup-nested.json", "{\"a\":{\"a\":{\"a\":1}},\"a\":[\"a\"]}"});
  r.push_back({true, "dup-strings.msgpack", std::string("\x83\xa1" "a\xa1x\xa1" "a\xa1x\xa1" "b\xa1x", 13)});
  return r;
}

// ------------------------------------------------------------------------------------------------ enumeration
static const char kAlpha[] = {'[', ']', '{', '}', ',', ':', '"', '\'', '\\', '/', '*', 'u', '0', '1', '9', '-', '+', '.', 'e', 'a', 't', 'r', 'n', ' ', '\n', char(0x80)};
static const int NA = 26;

inline bool mpHeaderByte(unsigned c) {
  if (c >= 0x80 && c <= 0xbf) return true;  // fixmap, fixarray, fixstr
  if (c >= 0xc4 && c <= 0xc9) return true;  // bin8/16/32, ext8/16/32
  if (c >= 0xd4 && c <= 0xdf) return true;  // fixext1..16, str8/16/32, array16/32, map16/32
  return false;
}

inline void run(Ctx& C) {
  const bool T = C.thorough();
  auto optI = [&](const char* name, int dflt) { return atoi(C.opt(name, std::to_string(dflt)).c_str()); };
  // per-job budget: the driver's deadline is shared by the jobs of a property, which run one after the other, and each
  // job is handed what is left of it.  --share=f lets this job use at most the fraction f of what is left (so that the
  // configurations that run first cannot starve the last one); --budget=s is an absolute cap in seconds.
  double share = atof(C.opt("share", "0").c_str());
  if (share > 0 && C.deadline > 0) C.deadline *= share;
  double budget = atof(C.opt("budget", "0").c_str());
  if (budget > 0 && (C.deadline <= 0 || budget < C.deadline)) C.deadline = budget;

  const int jsonFull = optI("json-full", T ? 3 : 2);     // full product up to this length
  const int jsonStar = optI("json-star", T ? 4 : 3);     // star up to this length
  const int jsonRam = optI("json-ram", T ? 5 : 4);       // kinds cstr+sized up to this length (the deepest level)
  const int mpFull = optI("mp-full", 2);                 // MessagePack: full product up to this length
  const int mpStar = std::max(mpFull, optI("mp-star", mpFull));  // star (all strings) up to this length
  const int mpStar3 = optI("mp-star3", T ? 1 : 0);       // 1: star on header-led 3-byte strings, 2: on all 2^24
  const int mpRam3 = optI("mp-ram3", T ? 2 : 1);         // kind sized on 3-byte strings: 1 header-led, 2 all 2^24
  const int mpRam4 = optI("mp-ram4", 0);                // kind sized on header-led 4-byte strings (deepest level)
  const int corpusMax = optI("corpus-max", T ? 1024 : 256);
  const int corpusFull = optI("corpus-full", T ? 64 : 24);
  const int corpusStar = optI("corpus-star", T ? 256 : 64);
  const int corpusFullMp = optI("corpus-full-mp", corpusFull);  // same threshold for MessagePack items (a build option that
                                                                // only touches the JSON parser may lower it)
  Plan plan;
  plan.starZt = optI("star-zt", 1) != 0;

  Env E(C);
  Evaluator V(E, plan);
  std::vector<std::string> cut;
  bool stop = false;
  auto expired = [&](const char* section) {
    if (stop) return true;
    if (C.expired()) {
      stop = true;
      cut.push_back(section);
      return true;
    }
    return false;
  };

  auto shapeForJsonLen = [&](int len) { return len <= jsonFull ? FULL : len <= jsonStar ? STAR : RAM; };

  // all strings of exactly `len` symbols; and all single insertions of NUL / 0xFF into the strings of len-1 symbols
  auto jsonLevel = [&](int len, const char* section) {
    if (expired(section)) return;
    Shape shape = shapeForJsonLen(len);
    V.countOnly = shape == RAM && len >= 5;
    std::string text;
    std::vector<int> idx;
    // (i) plain strings of length len
    idx.assign(size_t(len), 0);
    uint64_t tick = 0;
    for (;;) {
      if ((++tick & 63) == 0 && expired(section)) return;
      if (shape == RAM) {
        if (C.take()) {
          text.clear();
          for (int k : idx) text.push_back(kAlpha[k]);
          V.eval(false, text, shape);
        }
      } else {  // sharded by content: an input that is generated twice (corpus mutation = enumerated string) lands in one shard
        text.clear();
        for (int k : idx) text.push_back(kAlpha[k]);
        if (C.takeByHash(fnv1a(text))) V.eval(false, text, shape);
      }
      int k = len - 1;
      while (k >= 0 && ++idx[size_t(k)] == NA) idx[size_t(k--)] = 0;
      if (k < 0) break;
    }
    // (ii) insertions: base strings of length len-1, special byte at every position
    if (len < 1) return;
    idx.assign(size_t(len - 1), 0);
    for (;;) {
      if ((++tick & 63) == 0 && expired(section)) return;
      for (int pos = 0; pos < len; pos++) {
        for (int special = 0; special < 2; special++) {
          if (shape == RAM && !C.take()) continue;
          text.clear();
          for (int k : idx) text.push_back(kAlpha[k]);
          text.insert(text.begin() + pos, special ? char(0xff) : char(0));
          if (shape != RAM && !C.takeByHash(fnv1a(text))) continue;
          V.eval(false, text, shape);
        }
      }
      int k = len - 2;
      while (k >= 0 && ++idx[size_t(k)] == NA) idx[size_t(k--)] = 0;
      if (k < 0) break;
    }
  };

  // MessagePack: all strings of exactly `len` bytes (optionally only those led by a header byte)
  auto mpLevel = [&](int len, bool headerOnly, Shape shape, const char* section, bool skipHeaderLed = false) {
    if (expired(section)) return;
    uint64_t total = 1ULL << (8 * len);
    V.countOnly = shape == RAM && len >= 3;
    std::string b;
    for (uint64_t v = 0; v < total; v++) {
      if (len > 0) {
        unsigned first = unsigned(v >> (8 * (len - 1))) & 255;
        bool hdr = mpHeaderByte(first);
        if ((headerOnly && !hdr) || (skipHeaderLed && hdr)) {
          v += (1ULL << (8 * (len - 1))) - 1;  // skip the whole block of this first byte
          continue;
        }
      }
      if ((v & 255) == 0 && expired(section)) return;
      if (shape == RAM && !C.take()) continue;
      b.clear();
      for (int i = len - 1; i >= 0; i--) b.push_back(char((v >> (8 * i)) & 255));
      if (shape != RAM && !C.takeByHash(fnv1a(b) ^ 0x9e3779b97f4a7c15ULL)) continue;
      V.eval(true, b, shape);
    }
  };

  // corpus item: itself, every truncation, every single-byte substitution
  auto corpusItem = [&](const CorpusItem& it, Shape shape, const char* section) {
    if (expired(section)) return;
    V.countOnly = false;
    const uint64_t salt = it.mp ? 0x9e3779b97f4a7c15ULL : 0;  // the same bytes as JSON and as MessagePack are two inputs
    auto mine = [&](const std::string& x) { return shape == RAM ? C.take() : C.takeByHash(fnv1a(x) ^ salt); };
    if (mine(it.bytes)) V.eval(it.mp, it.bytes, shape);
    std::string m;
    for (size_t p = 0; p < it.bytes.size(); p++) {
      if (expired(section)) return;
      m = it.bytes.substr(0, p);
      if (mine(m)) V.eval(it.mp, m, shape);
    }
    for (size_t p = 0; p < it.bytes.size(); p++) {
      for (int v = 0; v < 256; v++) {
        if ((unsigned char)it.bytes[p] == v) continue;
        if ((v & 31) == 0 && expired(section)) return;
        if (shape == RAM) {
          if (!C.take()) continue;
          m = it.bytes;
          m[p] = char(v);
        } else {
          m = it.bytes;
          m[p] = char(v);
          if (!C.takeByHash(fnv1a(m) ^ salt)) continue;
        }
        V.eval(it.mp, m, shape);
      }
    }
  };

  std::vector<CorpusItem> items;
  if (corpusMax > 0) items = corpus(size_t(corpusMax));
  {
    std::string only = C.opt("corpus-only");  // debugging aid: keep the items whose name contains this text
    if (!only.empty()) {
      std::vector<CorpusItem> kept;
      for (auto& it : items) if (it.name.find(only) != std::string::npos) kept.push_back(it);
      items = kept;
    }
  }
  if (C.flag("list-corpus")) {
    for (auto& it : items) printf("%-8s %-28s %5zu  %s\n", it.mp ? "msgpack" : "json", it.name.c_str(), it.bytes.size(), vis(it.bytes).substr(0, 100).c_str());
    return;
  }
  // ---- order: cheapest complete levels first; the deepest level of each format last (first thing lost at the deadline)
  for (int len = 0; len <= jsonFull; len++) jsonLevel(len, "json-full");
  for (int len = 0; len <= mpFull; len++) mpLevel(len, false, FULL, "msgpack-full");
  for (int len = mpFull + 1; len <= mpStar; len++) mpLevel(len, false, STAR, "msgpack-star");
  size_t nFullItems = 0, nStarItems = 0, nRamItems = 0, corpusBytes = 0;
  for (int pass = 0; pass < 3; pass++) {
    for (auto& it : items) {
      Shape sh = it.bytes.size() <= size_t(it.mp ? corpusFullMp : corpusFull) ? FULL : it.bytes.size() <= size_t(corpusStar) ? STAR : RAM;
      if (int(sh) != pass) continue;
      (sh == FULL ? nFullItems : sh == STAR ? nStarItems : nRamItems)++;
      corpusBytes += it.bytes.size();
      corpusItem(it, sh, sh == FULL ? "corpus-full" : sh == STAR ? "corpus-star" : "corpus-ram");
    }
  }
  for (int len = jsonFull + 1; len <= jsonStar; len++) jsonLevel(len, "json-star");
  if (mpStar < 3) {
    if (mpStar3 == 2) mpLevel(3, false, STAR, "msgpack-3-star");
    else if (mpStar3 == 1) mpLevel(3, true, STAR, "msgpack-3-star(header-led)");
    if (mpRam3 == 2 && mpStar3 == 1) mpLevel(3, false, RAM, "msgpack-3-sized(not header-led)", true);
    else if (mpRam3 == 2 && mpStar3 == 0) mpLevel(3, false, RAM, "msgpack-3-sized");
    else if (mpRam3 == 1 && mpStar3 == 0) mpLevel(3, true, RAM, "msgpack-3-sized(header-led)");
  }
  for (int len = jsonStar + 1; len <= jsonRam; len++) jsonLevel(len, len == jsonRam ? "json-deepest" : "json-ram");
  if (mpRam4) mpLevel(4, true, RAM, "msgpack-4-sized(header-led)");

  // ---- evidence
  for (int f = 0; f < 2; f++)
    for (int c = 0; c < 6; c++)
    {
      if (E.runsByFmtCode[f][c]) C.outcomes[std::string(f ? "msgpack" : "json") + ":runs:" + codeName(c)] += E.runsByFmtCode[f][c];
      if (E.inputsByFmtCode[f][c]) C.outcomes[std::string(f ? "msgpack" : "json") + ":" + codeName(c)] += E.inputsByFmtCode[f][c];
    }
  C.metrics["nontrivial_inputs_counted_in_deepest_levels"] += double(E.nontrivialCounted);
  C.metrics["runs"] += double(E.runs);
  C.metrics["inputs_json"] += double(E.inputs[0]);
  C.metrics["inputs_msgpack"] += double(E.inputs[1]);
  C.metrics["inputs_with_nul"] += double(E.inputsWithNul);
  C.metrics["reader_calls_after_end_custom_reader"] += double(E.customAfterEnd);
  C.metrics["reader_calls_after_end_arduino_stream"] += double(E.streamAfterEnd);
  C.metrics["streaming_kinds_stopped_at_different_offsets"] += double(E.consumedMismatch);
  std::string b = std::string("cfg=") + kCfg + ": JSON all strings over the 26-symbol alphabet (+ NUL / 0xFF inserted once at every position, total length counted): length <= " +
                  std::to_string(jsonFull) + " full product 12 kinds x 6 limits x 14 filters, <= " + std::to_string(jsonStar) +
                  " star (12 kinds at limit 10/no filter; every limit and every filter with kinds sized" + (plan.starZt ? "+cstr" : "") + "), <= " +
                  std::to_string(jsonRam) + " kinds cstr+sized; MessagePack all byte strings of length <= " + std::to_string(mpFull) +
                  " full product 8 bounded kinds x 6 x 14, <= " + std::to_string(mpStar) + " star; 3-byte strings: " +
                  (mpStar3 == 2 ? "all 2^24 star" : mpStar3 == 1 ? "header-led star" : "no star") + ", kind sized on " +
                  (mpRam3 == 2 ? "all 2^24" : mpRam3 == 1 ? "header-led" : "none") + "; header-led 4-byte strings kind sized: " + (mpRam4 ? "yes" : "no") +
                  "; corpus (" + std::to_string(items.size()) + " items, " + std::to_string(corpusBytes) + " bytes: fuzzing seeds <= " + std::to_string(corpusMax) +
                  " bytes + 12 generated + 3 long-number documents) itself + every truncation + every single-byte substitution: items <= " + std::to_string(corpusFull) +
                  " bytes (MessagePack items: " + std::to_string(corpusFullMp) + ") full product (" + std::to_string(nFullItems) + "), <= " + std::to_string(corpusStar) + " star (" + std::to_string(nStarItems) +
                  "), longer kinds cstr+sized (" + std::to_string(nRamItems) + ")";
  C.bound(b);
  if (!cut.empty())
    C.note(std::string("cfg=") + kCfg + ": deadline reached in section " + cut[0] +
           "; this section is incomplete and the later (deeper) sections were dropped — the deepest enumeration level is by design the first thing lost");
}
}  // namespace ix_any
