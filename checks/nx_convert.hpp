// C13 — typed extraction is exact when it fits and zero otherwise, never undefined.
//
// Modes (one source; the job table builds one binary per mode with -DNXC_MODE_<MODE>):
//   convert    (san)   boundary sets of every storage kind x every target type through as<T>() / is<T>() /
//                      operator| on the document, on a JsonVariantConst handle and after a trip through JSON text;
//                      numeric strings on a length grid (linked strings live in exactly-sized heap blocks so
//                      that ASan sees any read past the terminator)
//   strings    (fast)  numeric strings of EVERY length 1..1300, nine families, both signs, linked and copied,
//                      every target type; value oracle only (linked strings are followed by zero bytes so that
//                      a read past the terminator is deterministic)
//   convert32  (fast)  all 2^32 bit patterns of int32 / uint32 / float storage x every distinct target type,
//                      one journalled case per block of 65536 values
//   copyarray  (san)   copyArray() into 1-D, 2-D and char[N] destinations, each both alone in an exactly-sized
//                      heap block and between guard elements
// Any mode accepts --selftest-negative (seeded wrong oracle, must produce violations).
//
// Reference conversion (written from the statement, in __int128 / long double):
//   the stored value is known to lie in [a,b] (a==b for everything except parsed non-integer text);
//   integral T, result r:  r is acceptable iff  r == trunc(v') for some v' in [a,b] with trunc(v') in range(T),
//                          or r == 0 and some v' in [a,b] lies outside range(T)  (NaN -> 0 only).
//     For an exact v this is: v in range -> trunc(v); trunc(v) out of range -> 0; and for the sliver
//     highest(T) < v < highest(T)+1 (resp. lowest) the statement can be read both ways ("v lies within the
//     range of T" vs "trunc(v) fits"), so both trunc(v) and 0 are accepted there (counted as `dontcare`).
//   floating T: static_cast<T>(a) <= r <= static_cast<T>(b) (round to nearest), NaN -> NaN.
//   is<T>() for integral T: iff stored as an integer and lowest(T) <= v <= highest(T).
#pragma once
#include <ArduinoJson.h>

#include <cfloat>
#include <cmath>
#include <limits>
#include <type_traits>

#include "common.hpp"

namespace nx_convert {
using namespace ArduinoJson;
using verif::Ctx;
typedef __int128 i128;
typedef unsigned __int128 u128;

// ------------------------------------------------------------------ small helpers

inline std::string dec(i128 v) {
  if (v == 0) return "0";
  bool neg = v < 0;
  u128 m = neg ? u128(0) - u128(v) : u128(v);
  std::string r;
  while (m) {
    r.insert(r.begin(), char('0' + int(m % 10)));
    m /= 10;
  }
  return neg ? "-" + r : r;
}

inline std::string ldstr(long double x) {
  char b[64];
  snprintf(b, sizeof b, "%.21Lg", x);
  return b;
}

template <class T>
inline std::string show(T r) {
  if constexpr (std::is_integral<T>::value)
    return dec(i128(r));
  else
    return ldstr((long double)r);
}

template <class S>
inline std::string bitsHex(S x) {
  char b[24];
  if constexpr (sizeof(S) == 4) {
    uint32_t u;
    memcpy(&u, &x, 4);
    snprintf(b, sizeof b, "%08x", u);
  } else {
    uint64_t u;
    memcpy(&u, &x, 8);
    snprintf(b, sizeof b, "%016llx", (unsigned long long)u);
  }
  return b;
}

template <class T>
struct Tag {
  using type = T;
  const char* name;
};

// all fourteen target type names of the statement
template <class F>
inline void forEachTarget(F&& f) {
  f(Tag<int8_t>{"int8"});
  f(Tag<uint8_t>{"uint8"});
  f(Tag<int16_t>{"int16"});
  f(Tag<uint16_t>{"uint16"});
  f(Tag<int32_t>{"int32"});
  f(Tag<uint32_t>{"uint32"});
  f(Tag<int64_t>{"int64"});
  f(Tag<uint64_t>{"uint64"});
  f(Tag<long>{"long"});
  f(Tag<unsigned long>{"ulong"});
  f(Tag<long long>{"llong"});
  f(Tag<unsigned long long>{"ullong"});
  f(Tag<float>{"float"});
  f(Tag<double>{"double"});
}
// integral types used for the "agrees with as<U>() for every wider U" clause
template <class F>
inline void forEachWide(F&& f) {
  f(Tag<int16_t>{"int16"});
  f(Tag<uint16_t>{"uint16"});
  f(Tag<int32_t>{"int32"});
  f(Tag<uint32_t>{"uint32"});
  f(Tag<int64_t>{"int64"});
  f(Tag<uint64_t>{"uint64"});
  f(Tag<long long>{"llong"});
  f(Tag<unsigned long long>{"ullong"});
}

template <class T>
constexpr i128 lo() {
  return i128(std::numeric_limits<T>::lowest());
}
template <class T>
constexpr i128 hi() {
  return i128(std::numeric_limits<T>::max());
}

// ------------------------------------------------------------------ the reference value

struct Val {
  bool isInt = false;  // stored as an integer (only then may is<integral>() hold)
  bool isNan = false;
  long double a = 0, b = 0;  // the mathematical value lies in [a,b]
  i128 tlo = 0, thi = 0;     // trunc(a), trunc(b), clamped to +-2^100
  int fa = 0, fb = 0;        // sign of a - trunc(a), of b - trunc(b)  (so that "a < n" is decided in integers)
  bool gapInf = false;       // parsed text beyond 1e300: +-inf also accepted for a floating target
  bool gapZero = false;      // parsed text below 1e-300: 0 also accepted
  bool exact() const { return a == b; }
  bool whole() const { return a == b && fa == 0; }
  bool below(i128 n) const { return tlo < n || (tlo == n && fa < 0); }  // a < n
  bool above(i128 n) const { return thi > n || (thi == n && fb > 0); }  // b > n
};

// trunc(x) clamped to +-2^100 and the sign of the discarded fraction
inline i128 truncClamp(long double x, int& fracSign) {
  fracSign = 0;
  if (x > -0x1p63L && x < 0x1p63L) {
    int64_t t = int64_t(x);  // C++ conversion truncates toward zero
    long double back = (long double)t;
    fracSign = (x > back) - (x < back);
    return i128(t);
  }
  if (x >= 0x1p100L) return i128(1) << 100;
  if (x <= -0x1p100L) return -(i128(1) << 100);
  return i128(truncl(x));  // |x| >= 2^63: a long double has no fraction bits left
}

inline Val ofInt(i128 i) {  // |i| < 2^64: exact in long double (64-bit significand)
  Val v;
  v.isInt = true;
  v.a = v.b = (long double)i;
  v.tlo = v.thi = i;
  return v;
}
inline Val ofFloating(long double f) {
  Val v;
  if (f != f) {
    v.isNan = true;
    return v;
  }
  v.a = v.b = f;
  v.tlo = v.thi = truncClamp(f, v.fa);
  v.fb = v.fa;
  return v;
}
inline Val ofInterval(long double lo_, long double hi_) {
  Val v;
  v.a = lo_;
  v.b = hi_;
  v.tlo = truncClamp(lo_, v.fa);
  v.thi = truncClamp(hi_, v.fb);
  return v;
}
template <class S>
inline Val ofStored(S x) {
  if constexpr (std::is_integral<S>::value)
    return ofInt(i128(x));
  else
    return ofFloating((long double)x);
}

// ---- the verdicts (not templates: the per-type code is only the observation below)

#ifdef NXC_MODE_CONVERT32
#  define NXC_HOT inline __attribute__((always_inline))
#else
#  define NXC_HOT inline
#endif

struct Lim {
  i128 lo, hi;
};
template <class T>
constexpr Lim limOf() {
  return Lim{lo<T>(), hi<T>()};
}

NXC_HOT bool okIntegralL(const Val& v, i128 R, Lim t) {  // t.lo <= R <= t.hi by construction
  if (v.isNan) return R == 0;
  if (R >= v.tlo && R <= v.thi) return true;
  if (R == 0) return v.below(t.lo) || v.above(t.hi);
  return false;
}
// 0 = in range and integral (the trivial case), 1 = must be zero, 2 = must truncate a fraction, 3 = don't-care sliver / interval
NXC_HOT int classIntegralL(const Val& v, Lim t) {
  if (v.isNan) return 1;
  bool outside = v.below(t.lo) || v.above(t.hi);
  bool someIn = v.thi >= t.lo && v.tlo <= t.hi;
  if (outside && !someIn) return 1;
  if (outside) return 3;
  if (!v.exact()) return 3;
  return v.fa == 0 ? 0 : 2;
}
inline std::string wantIntegralL(const Val& v, Lim t) {
  if (v.isNan) return "0 (NaN)";
  std::string s;
  bool outside = v.below(t.lo) || v.above(t.hi);
  bool someIn = v.thi >= t.lo && v.tlo <= t.hi;
  if (someIn) s = v.tlo == v.thi ? dec(v.tlo) : "[" + dec(v.tlo) + ".." + dec(v.thi) + "]";
  if (outside) s += s.empty() ? "0" : " or 0";
  return s + " (v=" + ldstr(v.a) + (v.exact() ? "" : ".." + ldstr(v.b)) + ")";
}
NXC_HOT long double nearest(long double x, bool single) {  // round to nearest, overflow -> inf
  return single ? (long double)static_cast<float>(x) : (long double)static_cast<double>(x);
}
NXC_HOT bool okFloatingL(const Val& v, long double r, bool single) {
  if (v.isNan) return r != r;
  if (r != r) return false;
  if (r >= nearest(v.a, single) && r <= nearest(v.b, single)) return true;
  if (v.gapInf && std::isinf(r) && (r > 0) == (v.a > 0)) return true;
  if (v.gapZero && r == 0) return true;
  return false;
}
template <class T>
inline bool okIntegral(const Val& v, T r) {
  return okIntegralL(v, i128(r), limOf<T>());
}
template <class T>
inline bool okFloating(const Val& v, T r) {
  return okFloatingL(v, (long double)r, sizeof(T) == 4);
}
NXC_HOT bool sameLd(long double x, long double y) { return x == y || (x != x && y != y); }

struct Stats {
  uint64_t conversions = 0, nontrivial = 0, dontcare = 0, zeroed = 0, fractional = 0, isTrue = 0;
};

// --selftest-negative: a deliberately wrong reference (int8_t is taken to end at 126) that the harness must
// report as a violation: a harness that has never failed has not been shown to work
inline bool& selftestNegative() {
  static bool on = false;
  return on;
}

// what the library answered for one target type
struct Obs {
  bool integral = false, single = false, is = false;
  Lim lim{0, 0};
  i128 ri = 0, di = 0, oi = 0;        // as<T>(), the default handed to operator|, (v | default)
  long double rf = 0, df = 0, of = 0;  // the same for a floating T (every float/double is exact in long double)
};
inline bool sameObs(const Obs& x, const Obs& y) {
  return x.is == y.is && x.ri == y.ri && x.oi == y.oi && sameLd(x.rf, y.rf) && sameLd(x.of, y.of);
}
inline std::string showObs(const Obs& o) {
  return o.integral ? "as=" + dec(o.ri) + " is=" + (o.is ? "1" : "0") + " or=" + dec(o.oi)
                    : "as=" + ldstr(o.rf) + " is=" + (o.is ? "1" : "0") + " or=" + ldstr(o.of);
}

template <class T, class Src>
NXC_HOT Obs observe(Src& src, const Val& v) {
  Obs o;
  if constexpr (std::is_integral<T>::value) {
    o.integral = true;
    o.lim = limOf<T>();
    if (std::is_same<T, int8_t>::value && selftestNegative()) o.lim.hi = 126;
    T d = T(v.tlo == 42 ? 43 : 42);
    o.di = i128(d);
    o.ri = i128(T(src.template as<T>()));
    o.is = src.template is<T>();
    o.oi = i128(T(src | d));
  } else {
    o.single = sizeof(T) == 4;
    T d = T(42.5);
    o.df = d;
    o.rf = T(src.template as<T>());
    o.is = src.template is<T>();
    o.of = T(src | d);
  }
  return o;
}

// Judge as<T>(), is<T>() and operator| against the reference value.  Returns 0 when everything agrees, else the
// name of the violated clause (explain() then says what was expected).
NXC_HOT const char* judgeObs(const Obs& o, const Val& v, Stats& st) {
  st.conversions++;
  if (o.integral) {
    int cls = classIntegralL(v, o.lim);
    if (cls) st.nontrivial++;
    if (cls == 1) st.zeroed++;
    if (cls == 2) st.fractional++;
    if (cls == 3) st.dontcare++;
    if (!okIntegralL(v, o.ri, o.lim)) return "as-integral";
    bool fits = v.isInt && v.tlo >= o.lim.lo && v.tlo <= o.lim.hi;
    if (o.is != fits) return "is-integral";
    if (fits) st.isTrue++;
    if (o.oi != (fits ? v.tlo : o.di)) return "or-default";
  } else {
    if (v.isNan || !v.isInt) st.nontrivial++;
    if (!okFloatingL(v, o.rf, o.single)) return "as-floating";
    if (!sameLd(o.of, o.is ? o.rf : o.df)) return "or-default";
  }
  return nullptr;
}
__attribute__((noinline, cold)) inline std::string explain(const Obs& o, const Val& v, const char* clause) {
  std::string c = clause;
  if (c == "as-integral") return "as<T>() = " + dec(o.ri) + ", want " + wantIntegralL(v, o.lim);
  if (c == "is-integral")
    return std::string("is<T>() = ") + (o.is ? "true" : "false") + ", stored " + (v.isInt ? "integer " : "non-integer ") + ldstr(v.a);
  if (c == "as-floating") {
    long double l = nearest(v.a, o.single), h = nearest(v.b, o.single);
    return "as<T>() = " + ldstr(o.rf) + ", want " + (v.isNan ? std::string("NaN") : l == h ? ldstr(l) : "[" + ldstr(l) + ".." + ldstr(h) + "]") +
           " (v=" + ldstr(v.a) + (v.exact() ? "" : ".." + ldstr(v.b)) + ")";
  }
  if (o.integral) {
    bool fits = v.isInt && v.tlo >= o.lim.lo && v.tlo <= o.lim.hi;
    return "(v | " + dec(o.di) + ") = " + dec(o.oi) + ", want " + dec(fits ? v.tlo : o.di);
  }
  return "(v | 42.5) = " + ldstr(o.of) + " but is<T>() = " + (o.is ? "true" : "false") + " and as<T>() = " + ldstr(o.rf);
}

// ------------------------------------------------------------------ mode convert32: all 2^32 patterns

template <class S>
inline S fromBits32(uint32_t u) {
  S x;
  memcpy(&x, &u, 4);
  return x;
}

template <class S>
__attribute__((noinline, cold)) void report32(Ctx& C, const char* sname, const char* tname, S x, const char* clause, const Obs& o,
                                              const Val& v) {
  if (C.metrics["failures"]++ >= 100000) return;  // the count stays exact; the records are capped anyway
  C.failKey("conv:" + std::string(sname) + ":" + bitsHex(x) + "->T=" + tname, clause, explain(o, v, clause));
}

template <class S, class T>
NXC_HOT void one32(Ctx& C, const char* sname, const char* tname, S x, const Val& v, JsonDocument& doc, Stats& st) {
  Obs o = observe<T>(doc, v);
  const char* clause = judgeObs(o, v, st);
  if (__builtin_expect(clause != nullptr, 0)) report32<S>(C, sname, tname, x, clause, o, v);
}

constexpr bool kLongIsInt64 = std::is_same<long, int64_t>::value;
constexpr bool kULongIsUint64 = std::is_same<unsigned long, uint64_t>::value;
constexpr int kDistinctTargets = 12 + (kLongIsInt64 ? 0 : 1) + (kULongIsUint64 ? 0 : 1);

template <class S>
inline void block32(Ctx& C, const char* sname, uint32_t block, Stats& st) {
  JsonDocument doc;
  for (uint32_t low = 0; low < 65536; low++) {
    uint32_t bits = (block << 16) | low;
    S x = fromBits32<S>(bits);
    if (!doc.set(x)) {
      C.failKey("conv:" + std::string(sname) + ":" + bitsHex(x) + "->T=int32", "set", "doc.set() returned false");
      continue;
    }
    Val v = ofStored(x);
    one32<S, int8_t>(C, sname, "int8", x, v, doc, st);
    one32<S, uint8_t>(C, sname, "uint8", x, v, doc, st);
    one32<S, int16_t>(C, sname, "int16", x, v, doc, st);
    one32<S, uint16_t>(C, sname, "uint16", x, v, doc, st);
    one32<S, int32_t>(C, sname, "int32", x, v, doc, st);
    one32<S, uint32_t>(C, sname, "uint32", x, v, doc, st);
    one32<S, int64_t>(C, sname, "int64", x, v, doc, st);
    one32<S, uint64_t>(C, sname, "uint64", x, v, doc, st);
    if (!kLongIsInt64) one32<S, long>(C, sname, "long", x, v, doc, st);
    if (!kULongIsUint64) one32<S, unsigned long>(C, sname, "ulong", x, v, doc, st);
    one32<S, long long>(C, sname, "llong", x, v, doc, st);
    one32<S, unsigned long long>(C, sname, "ullong", x, v, doc, st);
    one32<S, float>(C, sname, "float", x, v, doc, st);
    one32<S, double>(C, sname, "double", x, v, doc, st);
  }
}

// quick tier: both blocks around every multiple of 2^22 (every power of two >= 2^22 and every
// (sign, exponent, top mantissa bit) of a float starts such a block) plus the 64 lowest and 64 highest blocks
inline bool onGrid(uint32_t b) { return (b & 63) == 0 || (b & 63) == 63 || b < 64 || b >= 65536 - 64; }

inline void runConvert32(Ctx& C) {
  const std::string sel = C.opt("blocks", C.thorough() ? "all" : "grid");
  const bool all = sel == "all";
  static const char* kStorage[] = {"int32", "uint32", "float"};
  uint64_t blocksDone = 0;
  bool stopped = false;
  for (int s = 0; s < 3 && !stopped; s++) {
    for (uint32_t b = 0; b < 65536; b++) {
      if (!all && !onGrid(b)) continue;
      if (!C.take()) continue;
      if (C.expired()) {
        stopped = true;
        break;
      }
      char kb[64];
      snprintf(kb, sizeof kb, "conv32:%s:block=%04x", kStorage[s], b);
      C.begin(kb);
      Stats st;
      if (s == 0) block32<int32_t>(C, kStorage[s], b, st);
      if (s == 1) block32<uint32_t>(C, kStorage[s], b, st);
      if (s == 2) block32<float>(C, kStorage[s], b, st);
      C.metrics["values"] += 65536;
      C.metrics["conversions"] += double(st.conversions);
      C.metrics["nontrivial_conversions"] += double(st.nontrivial);
      C.metrics["zeroed_out_of_range"] += double(st.zeroed);
      C.metrics["truncated_fraction"] += double(st.fractional);
      C.metrics["dontcare_sliver"] += double(st.dontcare);
      C.metrics["is_true"] += double(st.isTrue);
      if (st.nontrivial) C.nontrivial();
      C.outcome(std::string(kStorage[s]) + (st.zeroed ? ":zeroed" : "") + (st.fractional ? ":fraction" : "") +
                (st.isTrue ? ":is" : "") + (st.dontcare ? ":sliver" : ""));
      blocksDone++;
      C.end();
    }
  }
  char nb[500];
  snprintf(nb, sizeof nb,
           "convert32 %s: int32, uint32, float storage x 65536-value blocks x %d distinct target types "
           "(long/unsigned long are %s)%s",
           all ? "all 2^32 bit patterns" : "grid of 2172 blocks per storage kind (both blocks around every multiple of 2^22, the 64 lowest, the 64 highest)", kDistinctTargets,
           kLongIsInt64 ? "the same types as int64_t/uint64_t here and are exercised under those names" : "distinct types",
           stopped ? "; STOPPED by the deadline" : "");
  C.bound(nb);
}

// ------------------------------------------------------------------ mode convert: boundary sets

inline std::vector<i128> intBoundaries() {
  std::set<i128> s;
  for (int k = 0; k <= 66; k++)
    for (int d = -2; d <= 2; d++) {
      i128 p = (i128(1) << k) + d;
      s.insert(p);
      s.insert(-p);
    }
  for (int d = 40; d <= 44; d++) s.insert(d), s.insert(-d);  // around the operator| defaults
  i128 p10 = 1;
  for (int k = 1; k <= 19; k++) {
    p10 *= 10;
    s.insert(p10);
    s.insert(-p10);
  }
  // rounding to float / double: values just below, at and just above the midpoint between two neighbours of the target
  // format (cut c = 24 or 53 significant bits), and values whose low bits decide the rounding only if the conversion is done
  // in one step (a detour through the other floating-point width rounds twice)
  for (int k = 25; k <= 63; k++) {
    for (int c : {24, 53}) {
      if (k - c < 0) continue;
      i128 half = i128(1) << (k - c);
      for (int d = -1; d <= 1; d++) {
        for (i128 v : {(i128(1) << k) + half + d, (i128(1) << k) + 3 * half + d}) {
          s.insert(v);
          s.insert(-v);
        }
      }
    }
    if (k - 24 >= 0)
      for (int j = 0; j < k - 53; j++)
        for (int sg : {-1, 1}) {
          i128 v = (i128(1) << k) + (i128(1) << (k - 24)) + sg * (i128(1) << j);
          s.insert(v);
          s.insert(-v);
        }
  }
  return std::vector<i128>(s.begin(), s.end());
}

template <class S>
inline std::vector<S> intSet() {
  std::vector<S> r;
  for (i128 v : intBoundaries())
    if (v >= lo<S>() && v <= hi<S>()) r.push_back(S(v));
  return r;
}

template <class S>
struct FBits;
template <>
struct FBits<float> {
  typedef uint32_t U;
  static const int mant = 23, expn = 8;
};
template <>
struct FBits<double> {
  typedef uint64_t U;
  static const int mant = 52, expn = 11;
};

template <class S>
inline std::vector<S> floatSet(bool thorough) {
  typedef typename FBits<S>::U U;
  std::set<U> bits;
  auto add = [&](S x) {
    U u;
    memcpy(&u, &x, sizeof u);
    bits.insert(u);
  };
  auto around = [&](S x) {
    S inf = std::numeric_limits<S>::infinity();
    S up = x, dn = x;
    add(x);
    for (int i = 0; i < 2; i++) {
      up = std::nextafter(up, inf);
      dn = std::nextafter(dn, -inf);
      add(up);
      add(dn);
    }
  };
  for (i128 b : intBoundaries()) {
    long double c = (long double)b;
    around(S(c));
    around(S(c + 0.5L));
    around(S(c - 0.5L));
    add(S(c + 0.25L));
    add(S(c - 0.25L));
    add(S(c + 0.999L));
    add(S(c - 0.999L));
  }
  S specials[] = {S(0.0),
                  S(-0.0),
                  std::numeric_limits<S>::denorm_min(),
                  std::numeric_limits<S>::min(),
                  std::numeric_limits<S>::max(),
                  std::numeric_limits<S>::infinity(),
                  std::numeric_limits<S>::quiet_NaN(),
                  std::numeric_limits<S>::epsilon(),
                  S(0.1),
                  S(0.5),
                  S(0.999),
                  S(1.5),
                  S(2.5),
                  S(3.4e38),
                  S(3.5e38),
                  S(1e19),
                  S(1.8e19),
                  S(1.9e19),
                  S(9.2e18),
                  S(9.3e18)};
  for (S x : specials) {
    around(x);
    around(-x);
  }
  // every (sign, exponent) x mantissa patterns
  const int M = FBits<S>::mant;
  std::vector<U> pats = {U(0), U(1), (U(1) << (M - 1)), (U(1) << M) - 1, (U(1) << (M - 1)) - 1, (U(1) << (M - 1)) + 1,
                         ((U(1) << M) - 1) / 3, ((U(1) << M) - 1) / 3 * 2};
  if (M == 52) pats.push_back(((U(1) << 23) - 1) << 29);  // largest mantissa that is still a float
  if (thorough)
    for (int i = 1; i < M - 1; i++) {
      pats.push_back(U(1) << i);
      pats.push_back(((U(1) << M) - 1) ^ (U(1) << i));
    }
  const U nexp = U(1) << FBits<S>::expn;
  for (U sign = 0; sign < 2; sign++)
    for (U e = 0; e < nexp; e++)
      for (U m : pats) bits.insert((sign << (M + FBits<S>::expn)) | (e << M) | m);
  // a signalling-NaN pattern and a NaN with the sign bit
  bits.insert((nexp - 1) << M | 1);
  bits.insert((U(1) << (M + FBits<S>::expn)) | (nexp - 1) << M | (U(1) << (M - 1)));
  std::vector<S> r;
  for (U u : bits) {
    S x;
    memcpy(&x, &u, sizeof x);
    r.push_back(x);
  }
  return r;
}

// the JSON literal of a stored value: an integer literal for integer storage, always a float literal otherwise
template <class S>
inline std::string literalOf(S x) {
  if constexpr (std::is_integral<S>::value) {
    return dec(i128(x));
  } else {
    char b[64];
    snprintf(b, sizeof b, "%.*e", sizeof(S) == 4 ? 8 : 16, double(x));
    return b;
  }
}

inline Val ofParsedText(const std::string& lit, bool integerLiteral, i128 exactInt) {
  if (integerLiteral) return ofInt(exactInt);  // statement of C12: integers in [-2^63, 2^64) are stored exactly, as integers
  long double t = strtold(lit.c_str(), nullptr);
  long double e = fabsl(t) * 1e-6L;
  Val v = ofInterval(t - e, t + e);
  v.gapInf = fabsl(t) > 1e300L;
  v.gapZero = fabsl(t) < 1e-300L;
  return v;
}

// one stored value, independent of its C++ type
struct Stored {
  std::function<bool(JsonDocument&)> set;
  Val v;
  bool integerStorage = false;
  bool finite = true;
  std::string literal;  // its JSON spelling
};
template <class S>
inline Stored stored(S x) {
  Stored s;
  s.set = [x](JsonDocument& doc) { return doc.set(x); };
  s.v = ofStored(x);
  s.integerStorage = std::is_integral<S>::value;
  if constexpr (!std::is_integral<S>::value) s.finite = std::isfinite(x);
  s.literal = literalOf(x);
  return s;
}

// is<T>() => as<T>() agrees with as<U>() (and is<U>() holds) for every wider integral U
inline void checkWider(Ctx& C, JsonVariantConst h, const Obs& o, const char* tname) {
  if (!o.integral || !o.is) return;
  forEachWide([&](auto u) {
    using U = typename decltype(u)::type;
    if (lo<U>() <= o.lim.lo && hi<U>() >= o.lim.hi) {
      U w = h.as<U>();
      if (i128(w) != o.ri)
        C.fail("wider-agrees", std::string("as<") + tname + ">() = " + dec(o.ri) + " but as<" + u.name + ">() = " + dec(i128(w)));
      if (!h.is<U>()) C.fail("wider-agrees", std::string("is<") + tname + ">() but not is<" + u.name + ">()");
    }
  });
}

template <class T>
inline void convCase(Ctx& C, const Stored& s, const char* tname) {
  const Val& v = s.v;
  Stats st;
  {
    JsonDocument doc;
    if (!s.set(doc)) {
      C.fail("set", "doc.set() returned false");
      return;
    }
    Obs od = observe<T>(doc, v);
    if (const char* clause = judgeObs(od, v, st)) C.fail(clause, explain(od, v, clause));
    // the same through a JsonVariantConst handle
    JsonVariantConst h = doc.as<JsonVariantConst>();
    Obs oh = observe<T>(h, v);
    if (!sameObs(od, oh)) C.fail("handle-differs", "document: " + showObs(od) + "; JsonVariantConst: " + showObs(oh));
    checkWider(C, h, od, tname);
  }
  // the same number arriving as JSON text
  if (s.finite) {
    std::string text = "[" + s.literal + "]";
    JsonDocument doc;
    DeserializationError err = deserializeJson(doc, text);
    if (err) {
      C.fail("text-parse", text + " -> " + err.c_str());
    } else {
      Val tv = ofParsedText(s.literal, s.integerStorage, v.tlo);
      JsonVariantConst e = doc[0];
      Obs ot = observe<T>(e, tv);
      if (const char* clause = judgeObs(ot, tv, st)) C.fail(std::string("text-") + clause, text + ": " + explain(ot, tv, clause));
    }
  }
  C.metrics["conversions"] += double(st.conversions);
  C.metrics["nontrivial_conversions"] += double(st.nontrivial);
  C.metrics["dontcare_sliver"] += double(st.dontcare);
  if (st.nontrivial) C.nontrivial();
  if constexpr (std::is_integral<T>::value) {
    static const char* kCls[] = {"exact", "zeroed", "truncated", "sliver"};
    C.outcome(std::string(s.integerStorage ? "int->int:" : "fp->int:") + kCls[classIntegralL(v, limOf<T>())]);
  } else {
    C.outcome(s.integerStorage ? "int->fp" : (v.isNan ? "nan->fp" : "fp->fp"));
  }
}

template <class S>
inline void convStorage(Ctx& C, const char* sname, const std::vector<S>& values) {
  size_t n = 0;
  for (S x : values) {
    std::string hexbits = bitsHex(x);
    Stored st = stored(x);
    forEachTarget([&](auto t) {
      using T = typename decltype(t)::type;
      if (!C.take()) return;
      C.begin("conv:" + std::string(sname) + ":" + hexbits + "->T=" + t.name);
      convCase<T>(C, st, t.name);
      C.end();
    });
    if ((++n & 255) == 0 && C.expired()) return;
  }
  C.maxMetrics[std::string("values_") + sname] = double(values.size());
}

// ------------------------------------------------------------------ numeric strings

// run-length abbreviation of a literal: repeated units of 1..10 characters covering >= 16 characters are
// written c{n} or (unit){n}; everything else is verbatim, so the key determines the literal
inline std::string abbreviate(const std::string& s) {
  std::string r;
  size_t p = 0;
  while (p < s.size()) {
    size_t bestQ = 0, bestR = 0;
    for (size_t q = 1; q <= 10 && p + 2 * q <= s.size(); q++) {
      size_t reps = 1;
      while (p + (reps + 1) * q <= s.size() && s.compare(p + reps * q, q, s, p, q) == 0) reps++;
      if (reps >= 2 && reps * q >= 16 && reps * q > bestQ * bestR) bestQ = q, bestR = reps;
    }
    if (bestQ) {
      std::string unit = s.substr(p, bestQ);
      r += (bestQ == 1 ? unit : "(" + unit + ")") + "{" + std::to_string(bestR) + "}";
      p += bestQ * bestR;
    } else {
      r.push_back(s[p++]);
    }
  }
  return verif::vis(r);
}

static const char* kFamily[] = {"pow10", "tiny", "digits", "nines", "half", "leadzero", "pi", "expbal", "fracnines"};
const int kFamilies = 9;

inline std::string cyc(const char* unit, size_t n) {
  std::string r;
  size_t u = strlen(unit);
  for (size_t i = 0; i < n; i++) r.push_back(unit[i % u]);
  return r;
}
// the member of family `fam` with exactly n characters (without sign); "" if the family has none of that length
inline std::string famString(int fam, size_t n) {
  switch (fam) {
    case 0: return "1" + std::string(n - 1, '0');
    case 1: return n >= 3 ? "0." + std::string(n - 3, '0') + "1" : "";
    case 2: return cyc("1234567890", n);
    case 3: return std::string(n, '9');
    case 4: return n >= 3 ? "1" + std::string(n - 3, '0') + ".5" : "";
    case 5: return std::string(n - 1, '0') + "7";
    case 6: return n >= 3 ? "3." + cyc("1415926535", n - 2) : "";
    case 7: {  // 1 followed by m zeros, times 10^-m  (= 1)
      for (size_t dm = 1; dm <= 4; dm++) {
        if (n < 3 + dm + 1) break;
        size_t m = n - 3 - dm;
        if (std::to_string(m).size() == dm) return "1" + std::string(m, '0') + "e-" + std::to_string(m);
      }
      return "";
    }
    default: return n >= 3 ? "0." + std::string(n - 2, '9') : "";
  }
}

// -?(digits[.digits*] | .digits)[(e|E)[+-]digits]
inline bool looksNumeric(const std::string& s) {
  size_t i = 0, n = s.size();
  if (i < n && s[i] == '-') i++;
  size_t d0 = i;
  while (i < n && s[i] >= '0' && s[i] <= '9') i++;
  size_t intDigits = i - d0, fracDigits = 0;
  if (i < n && s[i] == '.') {
    i++;
    size_t f0 = i;
    while (i < n && s[i] >= '0' && s[i] <= '9') i++;
    fracDigits = i - f0;
  }
  if (intDigits + fracDigits == 0) return false;
  if (i < n && (s[i] == 'e' || s[i] == 'E')) {
    i++;
    if (i < n && (s[i] == '+' || s[i] == '-')) i++;
    size_t e0 = i;
    while (i < n && s[i] >= '0' && s[i] <= '9') i++;
    if (i == e0) return false;
  }
  return i == n;
}

// the reference value of a numeric string: exact for integer literals in [-2^63, 2^64), else strtold +- 1e-6
inline Val ofString(const std::string& s, bool& isNumber) {
  const char* p = s.c_str();
  char* end = nullptr;
  long double t = 0;
  isNumber = looksNumeric(s);
  if (isNumber) {
    t = strtold(p, &end);
    isNumber = end == p + s.size() && !std::isnan(t);
    // beyond even the long double range (exponents of five and more digits): a number, of a magnitude that no target holds
    if (isNumber && std::isinf(t)) t = copysignl(1e4900L, t);
  }
  if (!isNumber) {
    Val z = ofInt(0);
    z.isInt = false;
    return z;
  }
  size_t i = s[0] == '-' ? 1 : 0;
  bool intLit = i < s.size();
  for (size_t j = i; j < s.size(); j++)
    if (s[j] < '0' || s[j] > '9') intLit = false;
  if (intLit) {
    while (i + 1 < s.size() && s[i] == '0') i++;
    if (s.size() - i <= 20) {
      u128 m = 0;
      for (size_t j = i; j < s.size(); j++) m = m * 10 + u128(s[j] - '0');
      i128 val = s[0] == '-' ? -i128(m) : i128(m);
      if (val >= -(i128(1) << 63) && val < (i128(1) << 64)) {
        Val v = ofInt(val);
        v.isInt = false;  // a string is never "stored as an integer"
        return v;
      }
    }
  }
  // the statement's accuracy (C12: 1e-6 relative) is that of the default configuration; a single-precision build keeps six
  // significant digits of the mantissa (mantissa_max = 2^23-1), which alone is an error of up to 1e-6: 1e-5 there (that build
  // is run for the parser's 8-bit digit counters, whose failures are wrong by orders of magnitude)
  long double e = fabsl(t) * (ARDUINOJSON_USE_DOUBLE ? 1e-6L : 1e-5L);
#if !ARDUINOJSON_USE_DOUBLE
  // below the normal range of float the nearest representable value is a denormal with few significant bits: anything
  // between zero and the value (one denormal step of slack) is "a smaller magnitude becomes +-0, never a wrong magnitude"
  if (fabsl(t) < 1e-37L) {
    long double step = 1.5e-45L;
    Val d = ofInterval(std::min(0.0L, t - e) - step, std::max(0.0L, t + e) + step);
    d.gapZero = true;
    return d;
  }
#endif
  Val v = ofInterval(t - e, t + e);
  // in a single-precision build every string is parsed as a float: its range decides what becomes infinity / zero
  v.gapInf = fabsl(t) > (ARDUINOJSON_USE_DOUBLE ? 1e300L : 1e38L);
  v.gapZero = fabsl(t) < (ARDUINOJSON_USE_DOUBLE ? 1e-300L : 1e-37L);
  return v;
}

struct LinkedBuf {  // a zero-terminated copy in its own heap block: exactly sized, or followed by `pad` zero bytes
  char* p;
  LinkedBuf(const std::string& s, size_t pad) : p(static_cast<char*>(calloc(s.size() + 1 + pad, 1))) {
    memcpy(p, s.data(), s.size());
  }
  ~LinkedBuf() { free(p); }
  LinkedBuf(const LinkedBuf&) = delete;
};

#if ARDUINOJSON_ENABLE_ARDUINO_STREAM
// an Arduino-style Printable that hands its text to Print::write(buffer, size) in blocks of `block` bytes (0 = byte-wise)
struct NumPrintable : Printable {
  std::string text;
  size_t block;
  NumPrintable(const std::string& t, size_t b) : text(t), block(b) {}
  size_t printTo(Print& p) const override {
    size_t n = 0;
    if (!block) {
      for (char c : text) n += p.write(uint8_t(c));
      return n;
    }
    for (size_t i = 0; i < text.size(); i += block)
      n += p.write(reinterpret_cast<const uint8_t*>(text.data() + i), std::min(block, text.size() - i));
    return n;
  }
};
static const int kStrKinds = 6;
#else
static const int kStrKinds = 2;
#endif
static const char* kStrKindName[] = {"linked", "copied", "String", "Printable-1block", "Printable-7byte-blocks", "Printable-bytewise"};

// the entry points through which a numeric string reaches the document (the conversion rules may not depend on them)
inline bool storeString(JsonDocument& doc, const std::string& s, const char* linked, int kind) {
  switch (kind) {
    case 0: return doc.set(linked);
    case 1: return doc.set(s);
#if ARDUINOJSON_ENABLE_ARDUINO_STREAM
    case 2: return doc.set(::String(s.c_str()));
    case 3: return doc.set(NumPrintable(s, s.size() + 1));
    case 4: return doc.set(NumPrintable(s, 7));
    case 5: return doc.set(NumPrintable(s, 0));
#endif
    default: return false;
  }
}

template <class T>
inline void strCase(Ctx& C, const std::string& s, const Val& v, bool isNumber, int kind, size_t pad) {
  Stats st;
  LinkedBuf buf(s, pad);
  JsonDocument doc;
  bool ok = storeString(doc, s, static_cast<const char*>(buf.p), kind);
  if (!ok) {
    C.fail("set", "doc.set(string) returned false");
    return;
  }
  Obs od = observe<T>(doc, v);
  if (const char* clause = judgeObs(od, v, st)) C.fail(std::string("str-") + clause, explain(od, v, clause));
  C.metrics["string_conversions"] += 1;
  bool nt = !isNumber || s.size() > 20 || st.nontrivial;
  if (nt) {
    C.metrics["nontrivial_conversions"] += 1;
    C.nontrivial();
  }
  if constexpr (std::is_integral<T>::value) {
    static const char* kCls[] = {"exact", "zeroed", "truncated", "interval"};
    C.outcome(std::string(isNumber ? "str->int:" : "notnum->int:") + kCls[classIntegralL(v, limOf<T>())]);
  } else {
    C.outcome(isNumber ? (v.exact() ? "str->fp:exact" : "str->fp:tolerance") : "notnum->fp");
  }
}

// all targets of one literal, both kinds
inline void strLiteral(Ctx& C, const std::string& s, size_t pad) {
  static std::set<std::string> seen;  // the families overlap on the shortest lengths: one case per literal
  if (!seen.insert(s).second) return;
  bool isNumber = false;
  Val v = ofString(s, isNumber);
  std::string ab = abbreviate(s);
  for (int kind = 0; kind < kStrKinds; kind++) {
    if (kind >= 2 && s.find('\0') != std::string::npos) continue;
    if (kind >= 1 && s.size() > ArduinoJson::detail::StringNode::maxLength) continue;  // cannot be copied: linked only
    forEachTarget([&](auto t) {
      using T = typename decltype(t)::type;
      if (!C.take()) return;
      C.begin("str:" + ab + "|kind=" + kStrKindName[kind] + "->T=" + t.name);
      strCase<T>(C, s, v, isNumber, kind, pad);
      C.end();
    });
  }
}

inline std::vector<size_t> lengthGrid(bool thorough) {
  std::set<size_t> g;
  for (size_t n = 1; n <= (thorough ? 48u : 24u); n++) g.insert(n);
  size_t pts[] = {32, 40, 64, 128, 256, 308, 309, 310, 311, 330, 400, 511, 512, 513, 527, 528, 529, 540, 1024, 1300};
  for (size_t n : pts) g.insert(n);
  if (thorough)
    for (size_t n = 50; n <= 1300; n += 50) g.insert(n), g.insert(n + 1);
  return std::vector<size_t>(g.begin(), g.end());
}

// `full`: every length 1..1300 and every target (fast flavour, linked strings padded with zeros so that a read
// past the terminator is deterministic); otherwise the length grid with exactly-sized blocks (sanitizer flavour)
inline void runStrings(Ctx& C, bool full) {
  std::vector<size_t> lengths;
  if (full)
    for (size_t n = 1; n <= 1300; n++) lengths.push_back(n);
  else
    lengths = lengthGrid(C.thorough());
  const size_t pad = full ? 64 : 0;
  // 1. strings that are not numbers -> 0 for every T, is<T>() false
  static const char* kNot[] = {"", "abc", "-", "x1", "1x", "1.2.3", "--1", "true", "null", "e5", "-e", "1 2", "0x10", "12345678901234567890x"};
  for (const char* s : kNot) strLiteral(C, s, pad);
  // 2. the families
  for (size_t n : lengths) {
    for (int fam = 0; fam < kFamilies; fam++) {
      std::string s = famString(fam, n);
      if (s.empty()) continue;
      strLiteral(C, s, pad);
      strLiteral(C, "-" + s, pad);
    }
    if (C.expired()) return;
  }
  // 2b. explicit exponents: every marker spelling, zero and non-zero mantissas, exponents around every table / type boundary
  {
    const char* mants[] = {"0", "0.0", "0.000", "00", "1", "1.0", "9.99", "123456789012345678901"};
    const char* marks[] = {"e", "E", "e+", "E+", "e-", "E-"};
    std::vector<std::string> exps;
    for (int e = 0; e <= 45; e++) exps.push_back(std::to_string(e));
    for (int e = 300; e <= 330; e++) exps.push_back(std::to_string(e));
    for (const char* e : {"400", "1000", "39999", "99999999", "2147483647", "2147483648", "99999999999", "007"}) exps.push_back(e);
    for (const char* m : mants)
      for (const char* k : marks)
        for (auto& e : exps) {
          strLiteral(C, std::string(m) + k + e, 16);
          strLiteral(C, "-" + std::string(m) + k + e, 16);
        }
    // not numbers (an exponent marker without digits - "1e", "1e+" - is accepted as 1 by the library; the statement does not say
    // what such a string converts to, so it is not listed)
    for (const char* bad : {"1e400x", "0e309 ", "1e5.0", "e", "1ee5", "1e+-5", "0e309x"}) strLiteral(C, bad, 16);
    if (C.expired()) return;
  }
  // 2c. very long literals: the digit counters of the parser are narrower than size_t (16 bits by default, 8 bits in a
  //     single-precision build); linked strings only beyond the maximum length of a copied string
  if (full) {
    for (size_t n : std::vector<size_t>{32760, 32767, 32768, 32769, 32775, 65530, 65535, 65536, 65537, 65541, 70000, 131072}) {
      for (int fam = 0; fam < kFamilies; fam++) {
        std::string s = famString(fam, n);
        if (s.empty()) {
          if (fam != 7) continue;
          size_t m = n - 3 - std::to_string(n).size();  // 1 0{m} e-m of about n characters
          s = "1" + std::string(m, '0') + "e-" + std::to_string(m);
        }
        strLiteral(C, s, pad);
        strLiteral(C, "-" + s, pad);
      }
      if (C.expired()) return;
    }
  }
  // 3. decimal spellings of 2^k + d: type limits and the edges of the integer range [-2^63, 2^64)
  //    (linked copies are zero-padded here: the short ones would otherwise all die in the same way)
  for (int k = 0; k <= 70; k++)
    for (int d = -1; d <= 1; d++) {
      i128 p = (i128(1) << k) + d;
      if (k == 0 && d < 0) continue;
      if (k == 1 && d < 0) continue;  // 2-1 = 1 = 2^0
      if (k == 0 && d > 0) continue;  // 1+1 = 2 = 2^1
      strLiteral(C, dec(p), 16);
      strLiteral(C, dec(-p), 16);
    }
  strLiteral(C, "0", 16);
  strLiteral(C, "-0", 16);
  char nb[320];
  snprintf(nb, sizeof nb, "numeric strings: %d families x 2 signs x %zu lengths (%s) x %d entry points (linked, copied%s) x 14 targets; 8 mantissas x 6 exponent markers x 90 exponents; lengths around 2^15, 2^16, 2^17; 2^k+-1 for k<=70; %zu non-numbers",
           kFamilies, lengths.size(), full ? "every length 1..1300" : "length grid up to 1300", kStrKinds, kStrKinds > 2 ? ", String, Printable in one block / 7-byte blocks / byte-wise" : "", sizeof kNot / sizeof kNot[0]);
  C.bound(nb);
}

inline void runConvert(Ctx& C) {
  const bool T = C.thorough();
  runStrings(C, false);  // first: the cases that can die under the sanitizer come before the long clean tail
  convStorage<int32_t>(C, "int32", intSet<int32_t>());
  convStorage<uint32_t>(C, "uint32", intSet<uint32_t>());
  convStorage<int64_t>(C, "int64", intSet<int64_t>());
  convStorage<uint64_t>(C, "uint64", intSet<uint64_t>());
  convStorage<float>(C, "float", floatSet<float>(T));
  convStorage<double>(C, "double", floatSet<double>(T));
  C.bound(std::string("boundary sets: integers within 2 of +-2^k (k<=66, clipped to the storage type) and +-10^k; floats/doubles: "
                      "those values +-{0, .25, .5, .999} and +-2 ulps, specials, every (sign, exponent) x ") +
          (T ? "mantissa patterns incl. every single bit set/cleared" : "9 mantissa patterns") +
          "; x 14 target names; each through doc, JsonVariantConst and JSON text");
}

// ------------------------------------------------------------------ mode copyarray

const unsigned char kFill = 0xA5;

inline bool allFill(const void* p, size_t n) {
  auto b = static_cast<const unsigned char*>(p);
  for (size_t i = 0; i < n; i++)
    if (b[i] != kFill) return false;
  return true;
}

// A destination of N elements of E: either alone in an exactly-sized heap block (ASan fences it), or in the
// middle of a block with 4 guard elements on each side (checked by value).  N == 0 still yields a valid pointer.
template <class E>
struct Dest {
  size_t n, g;
  unsigned char* raw;
  Dest(size_t n_, bool guarded) : n(n_), g(guarded ? 4 : 0) {
    size_t bytes = (n + 2 * g) * sizeof(E);
    raw = static_cast<unsigned char*>(malloc(bytes ? bytes : 1));
    memset(raw, kFill, bytes ? bytes : 1);
  }
  ~Dest() { free(raw); }
  Dest(const Dest&) = delete;
  E* data() { return reinterpret_cast<E*>(raw) + g; }
  bool guardsIntact() const { return allFill(raw, g * sizeof(E)) && allFill(raw + (g + n) * sizeof(E), g * sizeof(E)); }
  bool untouched(size_t from) const { return allFill(raw + (g + from) * sizeof(E), (n - from) * sizeof(E)); }
};

static const int kSrcValues[] = {11, -22, 300, 44, 70000, 66, 77};

template <class E>
inline bool elemOk(int v, E got) {
  Val val = ofInt(v);
  if constexpr (std::is_integral<E>::value)
    return okIntegral<E>(val, got);
  else
    return okFloating<E>(val, got);
}

static const char* kSrcKind[] = {"array", "arrayconst", "variant", "document", "member", "null", "int", "string", "object", "float", "bool"};
const int kSrcKinds = 11;

// builds the source inside `doc` and returns the number of elements a copy can deliver
inline size_t buildSource(JsonDocument& doc, int kind, size_t slen) {
  auto fill = [&](JsonArray a) {
    for (size_t i = 0; i < slen; i++) a.add(kSrcValues[i]);
  };
  switch (kind) {
    case 0: case 1: case 2: case 3: fill(doc.to<JsonArray>()); return slen;
    case 4: fill(doc["m"].to<JsonArray>()); return slen;
    case 5: doc.clear(); return 0;
    case 6: doc.set(42); return 0;
    case 7: doc.set(std::string("12")); return 0;
    case 8: doc["a"] = 1; return 0;
    case 9: doc.set(1.5); return 0;
    default: doc.set(true); return 0;
  }
}

template <class E, size_t N>
inline size_t callRef(JsonDocument& doc, int kind, E* p) {
  E(&dst)[N] = *reinterpret_cast<E(*)[N]>(p);
  switch (kind) {
    case 0: return copyArray(doc.as<JsonArray>(), dst);
    case 1: return copyArray(doc.as<JsonArrayConst>(), dst);
    case 2: return copyArray(doc.as<JsonVariant>(), dst);
    case 4: return copyArray(doc["m"].as<JsonArrayConst>(), dst);
    default: return copyArray(doc, dst);
  }
}
template <class E>
inline size_t callPtr(JsonDocument& doc, int kind, E* p, size_t n) {
  switch (kind) {
    case 0: return copyArray(doc.as<JsonArray>(), p, n);
    case 4: return copyArray(doc["m"].as<JsonArrayConst>(), p, n);
    case 2: return copyArray(doc.as<JsonVariant>(), p, n);
    default: return copyArray(doc.as<JsonArrayConst>(), p, n);
  }
}

template <class E>
inline void copy1d(Ctx& C, const char* ename) {
  for (int kind = 0; kind < kSrcKinds; kind++)
    for (size_t slen = 0; slen <= 6; slen++) {
      if (kind >= 5 && slen > 0) continue;
      for (size_t dlen = 0; dlen <= 6; dlen++)
        for (int api = 0; api < 2; api++) {  // 0 = (T*, len), 1 = T(&)[N]
          if (api == 1 && dlen == 0) continue;
          for (int guarded = 0; guarded < 2; guarded++) {
            if (!C.take()) continue;
            char kb[160];
            snprintf(kb, sizeof kb, "copyarray:1d|elem=%s|src=%s|slen=%zu|dlen=%zu|api=%s|place=%s", ename, kSrcKind[kind], slen,
                     dlen, api ? "ref" : "ptr", guarded ? "guard" : "heap");
            C.begin(kb);
            JsonDocument doc;
            size_t avail = buildSource(doc, kind, slen);
            Dest<E> d(dlen, guarded != 0);
            size_t ret;
            if (api == 0) {
              ret = callPtr<E>(doc, kind, d.data(), dlen);
            } else {
              switch (dlen) {
                case 1: ret = callRef<E, 1>(doc, kind, d.data()); break;
                case 2: ret = callRef<E, 2>(doc, kind, d.data()); break;
                case 3: ret = callRef<E, 3>(doc, kind, d.data()); break;
                case 4: ret = callRef<E, 4>(doc, kind, d.data()); break;
                case 5: ret = callRef<E, 5>(doc, kind, d.data()); break;
                default: ret = callRef<E, 6>(doc, kind, d.data()); break;
              }
            }
            size_t want = avail < dlen ? avail : dlen;
            if (ret != want) C.fail("copy-count", "returned " + std::to_string(ret) + ", want " + std::to_string(want));
            if (!d.guardsIntact()) C.fail("copy-guard", "a guard element next to the destination was modified");
            for (size_t i = 0; i < want && i < ret; i++)
              if (!elemOk<E>(kSrcValues[i], d.data()[i]))
                C.fail("copy-value", "dst[" + std::to_string(i) + "] = " + show(d.data()[i]) + " from " + std::to_string(kSrcValues[i]));
            C.outcome(std::string("1d:") + (d.untouched(want) ? "tail-untouched" : "tail-written") + (avail > dlen ? ":truncated" : ""));
            C.metrics["copies"] += 1;
            if (avail > dlen || kind >= 5) C.nontrivial();
            C.end();
          }
        }
    }
}

// 2-D: int[3][3] from r x c sources (uniform, ragged, and with a scalar in place of a row)
inline void copy2d(Ctx& C) {
  static const char* kShape[] = {"uniform", "ragged", "scalar-row"};
  for (int shape = 0; shape < 3; shape++)
    for (size_t r = 0; r <= 4; r++)
      for (size_t c = 0; c <= 4; c++)
        for (int viaDoc = 0; viaDoc < 2; viaDoc++)
          for (int guarded = 0; guarded < 2; guarded++) {
            if (!C.take()) continue;
            char kb[160];
            snprintf(kb, sizeof kb, "copyarray:2d|elem=int|shape=%s|rows=%zu|cols=%zu|src=%s|place=%s", kShape[shape], r, c,
                     viaDoc ? "document" : "array", guarded ? "guard" : "heap");
            C.begin(kb);
            JsonDocument doc;
            JsonArray root = doc.to<JsonArray>();
            std::vector<std::vector<int>> model;
            for (size_t i = 0; i < r; i++) {
              if (shape == 2 && i == 1) {
                root.add(5);
                model.push_back({});
                continue;
              }
              size_t cols = shape == 1 ? (c + i) % 5 : c;
              JsonArray row = root.add<JsonArray>();
              std::vector<int> mrow;
              for (size_t j = 0; j < cols; j++) {
                int val = int(100 * (i + 1) + j);
                row.add(val);
                mrow.push_back(val);
              }
              model.push_back(mrow);
            }
            Dest<int> d(9, guarded != 0);
            int(&dst)[3][3] = *reinterpret_cast<int(*)[3][3]>(d.data());
            size_t ret = viaDoc ? copyArray(doc, dst) : copyArray(doc.as<JsonArrayConst>(), dst);
            size_t want = r < 3 ? r : 3;
            if (ret != want) C.fail("copy-count", "returned " + std::to_string(ret) + ", want " + std::to_string(want));
            if (!d.guardsIntact()) C.fail("copy-guard", "a guard element next to the destination was modified");
            for (size_t i = 0; i < want; i++)
              for (size_t j = 0; j < 3 && j < model[i].size(); j++)
                if (dst[i][j] != model[i][j])
                  C.fail("copy-value", "dst[" + std::to_string(i) + "][" + std::to_string(j) + "] = " + std::to_string(dst[i][j]) +
                                           ", want " + std::to_string(model[i][j]));
            C.outcome(std::string("2d:") + (r > 3 ? "rows-truncated" : "rows-fit") + (c > 3 ? ":cols-truncated" : ":cols-fit"));
            C.metrics["copies"] += 1;
            if (r > 3 || c > 3 || shape) C.nontrivial();
            C.end();
          }
}

static const char* kCharSrc[] = {"linked", "copied", "null", "int", "float", "bool", "array", "object", "unbound"};

template <size_t N>
inline void copyCharN(Ctx& C, bool stringSources) {
  const std::string alphabet = "abcdefghijklmnopqrstuvwxyz";
  for (int src = stringSources ? 0 : 2; src < (stringSources ? 2 : 9); src++)
    for (size_t L = (N >= 2 ? N - 2 : 0); L <= N + 2; L++) {
      if (src >= 2 && L != N) continue;  // the length only matters for string sources
      for (int guarded = 0; guarded < 2; guarded++) {
        if (!C.take()) continue;
        char kb[160];
        if (src < 2)
          snprintf(kb, sizeof kb, "copyarray:char|N=%zu|len=%zu|src=%s|place=%s", N, L, kCharSrc[src], guarded ? "guard" : "heap");
        else
          snprintf(kb, sizeof kb, "copyarray:char|N=%zu|src=%s|place=%s", N, kCharSrc[src], guarded ? "guard" : "heap");
        C.begin(kb);
        std::string s = alphabet.substr(0, L);
        LinkedBuf lb(s, 0);
        JsonDocument doc;
        JsonVariantConst v = doc.as<JsonVariantConst>();
        switch (src) {
          case 0: doc.set(static_cast<const char*>(lb.p)); break;
          case 1: doc.set(s); break;
          case 2: break;
          case 3: doc.set(42); break;
          case 4: doc.set(1.5); break;
          case 5: doc.set(true); break;
          case 6: doc.add(1); break;
          case 7: doc["a"] = 1; break;
          default: v = JsonVariantConst(); break;
        }
        Dest<char> d(N, guarded != 0);
        char(&dst)[N] = *reinterpret_cast<char(*)[N]>(d.data());
        size_t ret = copyArray(v, dst);
        if (!d.guardsIntact()) C.fail("copy-guard", "a byte next to the destination was modified");
        std::string want = src < 2 ? s.substr(0, N - 1) : "";
        size_t z = 0;
        while (z < N && dst[z]) z++;
        if (z == N)
          C.fail("copy-terminator", "destination is not zero-terminated");
        else if (std::string(dst, z) != want)
          C.fail("copy-value", "dst = \"" + verif::vis(std::string(dst, z)) + "\", want \"" + want + "\"");
        if (src < 2 && ret != 1) C.fail("copy-count", "returned " + std::to_string(ret) + ", want 1");
        if (src >= 2 && ret > 1) C.fail("copy-count", "returned " + std::to_string(ret) + " for a non-string source");
        C.outcome(std::string("char:") + (src < 2 ? (L >= N ? "truncated" : "fits") : "non-string") + ":ret=" + std::to_string(ret));
        C.metrics["copies"] += 1;
        if (src >= 2 || L >= N) C.nontrivial();
        C.end();
      }
    }
}

// char[3][N] from an array of r strings (and one non-string element)
template <size_t N>
inline void copyChar2d(Ctx& C, int mixed) {
  const std::string alphabet = "klmnopqrstuvwxyzabcdefghij";
  for (size_t r = 0; r <= 4; r++) {
      for (int guarded = 0; guarded < 2; guarded++) {
        if (!C.take()) continue;
        char kb[160];
        snprintf(kb, sizeof kb, "copyarray:char2d|N=%zu|rows=%zu|elems=%s|place=%s", N, r, mixed ? "mixed" : "strings",
                 guarded ? "guard" : "heap");
        C.begin(kb);
        JsonDocument doc;
        JsonArray root = doc.to<JsonArray>();
        std::vector<std::string> model;
        for (size_t i = 0; i < r; i++) {
          if (mixed && i == 1) {
            root.add(7);
            model.push_back("");
            continue;
          }
          std::string s = alphabet.substr(i, (N >= 2 ? N - 2 : 0) + i);  // lengths N-2 .. N+2
          root.add(s);
          model.push_back(s.substr(0, N - 1));
        }
        Dest<char> d(3 * N, guarded != 0);
        char(&dst)[3][N] = *reinterpret_cast<char(*)[3][N]>(d.data());
        size_t ret = copyArray(doc, dst);
        size_t want = r < 3 ? r : 3;
        if (ret != want) C.fail("copy-count", "returned " + std::to_string(ret) + ", want " + std::to_string(want));
        if (!d.guardsIntact()) C.fail("copy-guard", "a byte next to the destination was modified");
        for (size_t i = 0; i < want; i++) {
          size_t z = 0;
          while (z < N && dst[i][z]) z++;
          if (z == N)
            C.fail("copy-terminator", "row " + std::to_string(i) + " is not zero-terminated");
          else if (std::string(dst[i], z) != model[i])
            C.fail("copy-value", "row " + std::to_string(i) + " = \"" + verif::vis(std::string(dst[i], z)) + "\", want \"" + model[i] + "\"");
        }
        C.outcome(std::string("char2d:") + (r > 3 ? "rows-truncated" : "rows-fit") + (mixed ? ":mixed" : ""));
        C.metrics["copies"] += 1;
        C.nontrivial();
        C.end();
      }
  }
}

inline void runCopyArray(Ctx& C) {
  // the non-string sources first: on the unchanged tree they die under UBSan (memcpy from a null pointer), and a
  // shard that dies loses the counters of the segment it was in
  for (int pass = 0; pass < 2; pass++) {
    bool strings = pass == 1;
    copyCharN<1>(C, strings);
    copyCharN<2>(C, strings);
    copyCharN<3>(C, strings);
    copyCharN<4>(C, strings);
    copyCharN<5>(C, strings);
    copyCharN<6>(C, strings);
    copyCharN<16>(C, strings);
    copyChar2d<1>(C, strings ? 0 : 1);
    copyChar2d<2>(C, strings ? 0 : 1);
    copyChar2d<4>(C, strings ? 0 : 1);
  }
  copy1d<int>(C, "int");
  copy1d<uint8_t>(C, "uint8");
  copy1d<double>(C, "double");
  copy2d(C);
  C.bound("copyArray: 1-D int/uint8/double, source length 0..6 x destination length 0..6 x {(T*,len), T(&)[N]} x 11 source kinds; "
          "2-D int[3][3] from 0..4 x 0..4 (uniform, ragged, scalar row); char[N] N in {1..6,16} x string length N-2..N+2 "
          "(linked, copied) and 7 non-string sources; char[3][N]; every destination both in an exactly-sized heap block and between guards");
}

}  // namespace nx_convert
