// C14 — how a string is stored (linked, copied, de-duplicated) is unobservable (mode "strings").
// Bounded exhaustive enumeration: string alphabet x source kinds x uses x mini-histories, judged by a
// pairwise differential oracle (kind A vs kind B on fresh documents), an independence clause (the source of a
// copied kind is overwritten / destroyed right after the call) and a sharing grid (k users of the same bytes
// in every combination of roles, every single mutation, model-predicted observation + inspector + ledger).
#pragma once
#include <Arduino.h>  // repository stubs: String, F(), __FlashStringHelper (extras/tests/Helpers)

#include <ArduinoJson.h>

#include <algorithm>
#include <functional>
#include <memory>
#include <set>
#include <string>
#include <string_view>
#include <vector>

#include "common.hpp"
#include "ledger_alloc.hpp"
#include "model.hpp"
#ifndef VERIF_NO_INSPECTOR
#include "inspector.hpp"
#endif

namespace hx_strings {
using namespace ArduinoJson;
using namespace verif;

// ------------------------------------------------------------------------------------------- alphabet
// real string literals (index, text); index 3 ("a\0b") and the two maximum-length strings are not literals
#define HXS_LITERALS(X)                                                                                        \
  X(0, "") X(1, "a") X(2, "ab") X(4, "\x80\xff") X(5, "42") X(6, "-7.5") X(7, "1e3") X(8, "3.25")              \
  X(9, "12345678901234567890") X(10, " 1") X(11, "true") X(12, "abcdefghijklmnopqrstuvwxyz01234")              \
  X(13, "abcdefghijklmnopqrstuvwxyz012345")

enum { S_NUL = 3, S_MAX = 14, S_OVER = 15, S_COUNT = 16 };
static const size_t kMaxLen = ArduinoJson::detail::StringNode::maxLength;  // 65535 with the default length size

struct SDef {
  std::string name, bytes;
  bool hasNul = false, special = false;  // special: NUL / high bytes / numeric looking / boundary length
};

inline std::string digitsPattern(size_t n) {
  std::string r;
  r.reserve(n);
  for (size_t i = 0; i < n; i++) r.push_back(char('0' + (i + 1) % 10));
  return r;
}

inline const std::vector<SDef>& alphabet() {
  static std::vector<SDef> S;
  if (!S.empty()) return S;
  S.resize(S_COUNT);
  static const char* names[S_COUNT] = {"empty", "a",   "ab",   "a.nul.b", "hi8",   "42",       "-7.5",      "1e3",
                                       "3.25",  "big20", "sp1", "true",    "len31", "len32", "max65535", "over65536"};
#define X(i, lit) S[i].bytes = std::string(lit, sizeof(lit) - 1);
  HXS_LITERALS(X)
#undef X
  S[S_NUL].bytes = std::string("a\0b", 3);
  S[S_MAX].bytes = digitsPattern(kMaxLen);
  S[S_OVER].bytes = digitsPattern(kMaxLen + 1);
  for (int i = 0; i < S_COUNT; i++) {
    S[i].name = names[i];
    S[i].hasNul = S[i].bytes.find('\0') != std::string::npos;
    S[i].special = i >= 3;
  }
  return S;
}

// ------------------------------------------------------------------------------------------- source kinds
enum Kind { Lit, ConstPtr, CharPtr, CharArr, StdString, StringView, JsCopied, JsLinkedP, JsDefault, JsSizedDefault, ArdString, Flash, NKINDS };
static const char* kKindName[NKINDS] = {"lit",      "constptr",  "charptr",   "chararr",   "stdstring", "stringview",
                                        "jscopied", "jslinked", "jsdefault", "jssizeddefault", "ardstring", "flash"};
inline bool byAddress(Kind k) { return k == Lit || k == ConstPtr || k == JsLinkedP || k == JsDefault || k == JsSizedDefault; }
inline bool sized(Kind k) { return k == StdString || k == StringView || k == JsCopied || k == ArdString; }
inline bool canExpress(Kind k, const SDef& s) { return !s.hasNul || sized(k); }
static const Kind kCopiedKinds[] = {CharPtr, CharArr, StdString, StringView, JsCopied, ArdString, Flash};
static const Kind kLinkedKinds[] = {Lit, ConstPtr, JsLinkedP, JsDefault, JsSizedDefault};

template <class F, class X>
__attribute__((noinline)) void callWith(F& f, X& x) {  // one out-of-line body per (call site, argument type)
  f(x);
}

struct NulString : ::String {  // the stub only exposes sized construction through the protected concat()
  bool append(const char* p, size_t n) { return concat(p, n) != 0; }
};

// static storage standing for the two literals that cannot be spelled in the source (same type: const char[N])
inline char* bigLiteralStorage(int idx) {
  static char maxBuf[65536], overBuf[65537];
  static bool init = false;
  if (!init) {
    init = true;
    memcpy(maxBuf, alphabet()[S_MAX].bytes.c_str(), 65536);
    memcpy(overBuf, alphabet()[S_OVER].bytes.c_str(), 65537);
  }
  return idx == S_MAX ? maxBuf : overBuf;
}

// One materialised source of kind `kind` holding the bytes of S[idx].
//  * by-address kinds: buffer of exactly n+1 bytes that stays alive and untouched until the Source dies
//  * zero-terminated copied kinds (char*, char[N], flash): heap buffer of exactly n+1 bytes (pad=false) or of
//    n+2 bytes "s\0\0" (pad=true, used by the overwrite run so that even "" can be visibly overwritten)
//  * sized copied kinds: heap buffer of exactly n bytes WITHOUT terminator (string_view, JsonString Copied),
//    heap-allocated std::string / String objects
struct Source {
  Kind kind;
  int idx;
  std::string bytes;
  size_t n;
  bool pad;
  char* buf = nullptr;
  size_t bufSize = 0;
  std::string* ss = nullptr;
  NulString* as = nullptr;
  bool gone = false;

  Source(Kind k, int i, bool padded = false) : kind(k), idx(i), bytes(alphabet()[i].bytes), n(bytes.size()), pad(padded) {
    switch (kind) {
      case Lit: break;
      case StdString: ss = new std::string(bytes); break;
      case ArdString:
        as = new NulString;
        as->limitCapacityTo(size_t(1) << 20);
        as->append(bytes.data(), n);
        break;
      case StringView:
      case JsCopied:
        bufSize = n;
        buf = new char[bufSize];
        memcpy(buf, bytes.data(), n);
        break;
      default:
        bufSize = n + 1 + (((pad && !byAddress(kind)) || kind == CharArr) ? 1 : 0);
        buf = new char[bufSize];
        memset(buf, 0, bufSize);
        memcpy(buf, bytes.data(), n);
    }
  }
  Source(const Source&) = delete;
  ~Source() {
    if (!gone) release();
  }
  void release() {
    delete[] buf;
    delete ss;
    delete as;
    buf = nullptr;
    ss = nullptr;
    as = nullptr;
    gone = true;
  }

  // 1 = overwrite the source in place with 'X'; 2 = overwrite and destroy it.  Never for by-address kinds.
  void scrub(int mode) {
    if (mode == 0 || byAddress(kind) || gone) return;
    if (buf) {
      size_t m = bufSize;
      if (kind == CharPtr || kind == CharArr || kind == Flash) m = bufSize - 1;  // keep one terminator
      memset(buf, 'X', m);
    }
    if (ss) {
      std::fill(ss->begin(), ss->end(), 'X');
      ss->append(1, 'X');
    }
    if (as) *static_cast<::String*>(as) = std::string(n + 1, 'X').c_str();
    if (mode == 2) release();
  }

  template <class F>
  void visitLiteral(F&& f) {
    switch (idx) {
#define X(i, lit) \
  case i: callWith(f, lit); break;
      HXS_LITERALS(X)
#undef X
      case S_MAX: callWith(f, reinterpret_cast<const char(&)[65536]>(*bigLiteralStorage(S_MAX))); break;
      case S_OVER: callWith(f, reinterpret_cast<const char(&)[65537]>(*bigLiteralStorage(S_OVER))); break;
      default: abort();
    }
  }
  template <class F>
  void visitArray(F&& f) {  // char[N] with N = length + 2 (always the padded layout "s\0\0")
    size_t N = bufSize;
    switch (N) {
#define A(N_) \
  case N_: callWith(f, reinterpret_cast<char(&)[N_]>(*buf)); break;
      A(2) A(3) A(4) A(5) A(6) A(22) A(33) A(34) A(65537) A(65538)
#undef A
      default: abort();
    }
  }
  // calls f(x) with x an lvalue of the exact C++ type a user of this kind would pass
  template <class F>
  void visit(F&& f) {
    switch (kind) {
      case Lit: visitLiteral(f); break;
      case ConstPtr: { const char* p = buf; callWith(f, p); break; }
      case CharPtr: { char* p = buf; callWith(f, p); break; }
      case CharArr: visitArray(f); break;
      case StdString: callWith(f, *ss); break;
      case StringView: { std::string_view sv(buf, n); callWith(f, sv); break; }
      case JsCopied: { JsonString js(buf, n, JsonString::Copied); callWith(f, js); break; }
      case JsLinkedP: { JsonString js(buf, JsonString::Linked); callWith(f, js); break; }
      case JsDefault: { JsonString js(buf); callWith(f, js); break; }
      case JsSizedDefault: { JsonString js(buf, n); callWith(f, js); break; }  // 2-argument form: ownership defaults to Linked; size == strlen
      case ArdString: { const ::String& r = *as; callWith(f, r); break; }
      case Flash: { const __FlashStringHelper* fp = reinterpret_cast<const __FlashStringHelper*>(convertPtrToFlash(buf)); callWith(f, fp); break; }
      default: abort();
    }
  }
};


// ------------------------------------------------------------------------------------------- observation
inline std::string compact(const std::string& s) {  // long payloads are replaced by length + hash
  if (s.size() <= 160) return s;
  char b[64];
  snprintf(b, sizeof b, "#%zu:%016llx", s.size(), (unsigned long long)fnv1a(s));
  return b;
}
inline void sect(std::string& o, const char* name, const std::string& payload) {
  o += name;
  o += "=";
  o += compact(payload);
  o += ";";
}

struct Env {
  Source* src = nullptr;
  int scrubMode = 0;
  std::vector<int> operands;  // indices of S used as comparison operands
  std::string obs;            // differential observation
  std::string problems;       // absolute clauses violated: "clause: text\n"
  std::string outcome;        // short result signature
  void after() { src->scrub(scrubMode); }
  void problem(const std::string& clause, const std::string& text) { problems += clause + ": " + text + "\n"; }
};

#define HXS_CMP12(r, LHS, x)        \
  do {                              \
    r += ((LHS) == (x)) ? '1' : '0'; \
    r += ((LHS) != (x)) ? '1' : '0'; \
    r += ((LHS) < (x)) ? '1' : '0';  \
    r += ((LHS) <= (x)) ? '1' : '0'; \
    r += ((LHS) > (x)) ? '1' : '0';  \
    r += ((LHS) >= (x)) ? '1' : '0'; \
    r += ((x) == (LHS)) ? '1' : '0'; \
    r += ((x) != (LHS)) ? '1' : '0'; \
    r += ((x) < (LHS)) ? '1' : '0';  \
    r += ((x) <= (LHS)) ? '1' : '0'; \
    r += ((x) > (LHS)) ? '1' : '0';  \
    r += ((x) >= (LHS)) ? '1' : '0'; \
  } while (0)

#define HXS_CMP4(r, LHS, x)         \
  do {                              \
    r += ((LHS) == (x)) ? '1' : '0'; \
    r += ((LHS) < (x)) ? '1' : '0';  \
    r += ((x) == (LHS)) ? '1' : '0'; \
    r += ((x) >= (LHS)) ? '1' : '0'; \
  } while (0)

// everything the public read API says about one string-holding value (isLinked() excluded on purpose)
inline void extString(Env& E, JsonVariantConst v, std::string& o) {
  char b[256];
  snprintf(b, sizeof b, "as:%d,%d,%u,%d,%u,%ld,%lu,%lld,%llu,%08x,%016llx;", int(v.as<bool>()), int(v.as<int8_t>()),
           unsigned(v.as<uint8_t>()), int(v.as<int16_t>()), unsigned(v.as<uint16_t>()), long(v.as<int32_t>()),
           (unsigned long)v.as<uint32_t>(), (long long)v.as<int64_t>(), (unsigned long long)v.as<uint64_t>(),
           fbits(v.as<float>()), (unsigned long long)dbits(v.as<double>()));
  o += b;
  IsMask k;
  k.add(v.is<bool>()); k.add(v.is<int8_t>()); k.add(v.is<uint8_t>()); k.add(v.is<int16_t>()); k.add(v.is<uint16_t>());
  k.add(v.is<int32_t>()); k.add(v.is<uint32_t>()); k.add(v.is<int64_t>()); k.add(v.is<uint64_t>()); k.add(v.is<float>());
  k.add(v.is<double>()); k.add(v.is<const char*>()); k.add(v.is<JsonString>()); k.add(v.is<std::string>());
  k.add(v.is<std::string_view>()); k.add(v.is<::String>());
  snprintf(b, sizeof b, "is:%05x;", k.m);
  o += b;
  JsonString js = v.as<JsonString>();
  sect(o, "js", js.c_str() ? hex(std::string(js.c_str(), js.size())) + "/" + std::to_string(js.size()) : "NULL");
  sect(o, "std", hex(v.as<std::string>()));
  std::string_view sv = v.as<std::string_view>();
  sect(o, "sv", sv.data() ? hex(std::string(sv.data(), sv.size())) : "NULL");
  ::String as = v.as<::String>();
  sect(o, "ard", hex(std::string(as.c_str(), as.length())));
  const char* cs = v.as<const char*>();
  sect(o, "cstr", cs ? hex(std::string(cs)) : "NULL");
  const auto& S = alphabet();
  for (int t : E.operands) {
    std::string r;
    const std::string& ts = S[t].bytes;
    HXS_CMP12(r, v, ts);
    if (!S[t].hasNul) {
      const char* tp = ts.c_str();
      r += '/';
      HXS_CMP12(r, v, tp);
    }
    o += "c" + std::to_string(t) + ":" + r + ";";
  }
}

inline void extWalk(Env& E, JsonVariantConst v, std::string& o, int depth = 0) {
  if (depth > 8) return;
  if (v.is<JsonArrayConst>()) {
    o += "[";
    for (JsonVariantConst e : v.as<JsonArrayConst>()) extWalk(E, e, o, depth + 1);
    o += "]";
  } else if (v.is<JsonObjectConst>()) {
    o += "{";
    for (JsonPairConst p : v.as<JsonObjectConst>()) extWalk(E, p.value(), o, depth + 1);
    o += "}";
  } else if (v.is<JsonString>()) {
    o += "<";
    extString(E, v, o);
    o += ">";
  }
}

// strings found in a document: (isKey, bytes), document order
typedef std::vector<std::pair<bool, std::string>> Found;
inline void collect(JsonVariantConst v, Found& f, int depth = 0) {
  if (depth > 8) return;
  if (v.is<JsonArrayConst>()) {
    for (JsonVariantConst e : v.as<JsonArrayConst>()) collect(e, f, depth + 1);
  } else if (v.is<JsonObjectConst>()) {
    for (JsonPairConst p : v.as<JsonObjectConst>()) {
      JsonString k = p.key();
      f.emplace_back(true, k.c_str() ? std::string(k.c_str(), k.size()) : std::string("<null key>"));
      collect(p.value(), f, depth + 1);
    }
  } else if (v.is<JsonString>()) {
    JsonString s = v.as<JsonString>();
    f.emplace_back(false, std::string(s.c_str(), s.size()));
  }
}
inline std::string foundText(const Found& f) {
  std::string r;
  for (auto& e : f) r += std::string(e.first ? "key:" : "val:") + compact(hex(e.second)) + " ";
  return r;
}

inline void inspectDoc(Env& E, const JsonDocument& doc, const char* where) {
#ifndef VERIF_NO_INSPECTOR
  Inspector::Report rep = Inspector::inspect(doc);
  if (!rep.errors.empty()) E.problem("inspector", std::string(where) + ": " + rep.errors);
#else
  (void)E; (void)doc; (void)where;
#endif
}

// full observation of a document (appended to E.obs); `tag` names the document inside the mini-history
inline void observeDoc(Env& E, const JsonDocument& doc, const char* tag) {
  std::string& o = E.obs;
  o += std::string("\n@") + tag + ":";
  std::string base = obsReal(doc.as<JsonVariantConst>());
  if (base.find('!') != std::string::npos) E.problem("api-consistency", std::string(tag) + ": " + compact(base.substr(base.find('!'), 60)));
  sect(o, "obs", base);
  o += doc.overflowed() ? "ovf=1;" : "ovf=0;";
  std::string ext;
  extWalk(E, doc.as<JsonVariantConst>(), ext);
  o += "ext=" + ext + ";";
  std::string json, pretty, mp;
  size_t nj = serializeJson(doc, json), np = serializeJsonPretty(doc, pretty), nm = serializeMsgPack(doc, mp);
  sect(o, "json", json);
  sect(o, "pretty", pretty);
  sect(o, "msgpack", hex(mp));
  if (nj != json.size() || measureJson(doc) != nj) E.problem("api-consistency", std::string(tag) + ": serializeJson/measureJson sizes disagree");
  if (np != pretty.size() || measureJsonPretty(doc) != np) E.problem("api-consistency", std::string(tag) + ": serializeJsonPretty/measureJsonPretty sizes disagree");
  if (nm != mp.size() || measureMsgPack(doc) != nm) E.problem("api-consistency", std::string(tag) + ": serializeMsgPack/measureMsgPack sizes disagree");
  {  // member of a document that is then copied
    JsonDocument copy(doc);
    sect(o, "copy", obsReal(copy.as<JsonVariantConst>()));
    JsonDocument viaSet;
    viaSet["pad"] = 1;
    bool ok = viaSet.set(doc);
    sect(o, "docset", (ok ? "1" : "0") + obsReal(viaSet.as<JsonVariantConst>()));
    JsonDocument other;
    bool ok2 = other["dst"].set(doc.as<JsonVariantConst>());
    sect(o, "varset", (ok2 ? "1" : "0") + obsReal(other.as<JsonVariantConst>()));
  }
  {  // round trips
    JsonDocument back;
    DeserializationError e = deserializeJson(back, json);
    sect(o, "rtjson", std::string(e.c_str()) + ":" + obsReal(back.as<JsonVariantConst>()));
    JsonDocument back2;
    DeserializationError e2 = deserializeMsgPack(back2, mp.data(), mp.size());
    sect(o, "rtmsgpack", std::string(e2.c_str()) + ":" + obsReal(back2.as<JsonVariantConst>()));
  }
  inspectDoc(E, doc, tag);
}

// absolute clause: the strings stored in `doc` are exactly `want` (byte-exact, embedded NUL included)
inline void expectStrings(Env& E, const JsonDocument& doc, const Found& want, const char* clause = "stored-bytes") {
  Found got;
  collect(doc.as<JsonVariantConst>(), got);
  if (got != want) E.problem(clause, "document holds [" + foundText(got) + "] expected [" + foundText(want) + "]");
}

inline void ledgerEnd(Env& E, LedgerAllocator& A) {
  std::string errs = A.takeErrors();
  if (!errs.empty()) E.problem("ledger", errs);
  if (!A.live.empty()) E.problem("ledger", std::to_string(A.live.size()) + " block(s) live after destruction: " + A.liveSignature());
}


// ------------------------------------------------------------------------------------------- uses (phase A)
// E.src->visit() hands the call site an lvalue `x` of the exact type of the kind; E.after() scrubs the source
#define HXS_CALL(E, stmt)                          \
  do {                                             \
    (E).src->visit([&](auto& x) { stmt; });        \
    (E).after();                                   \
  } while (0)

inline bool refusedExpected(const Env& E) { return !byAddress(E.src->kind) && E.src->n > kMaxLen; }

inline std::string storageSig(JsonVariantConst v, int depth = 0) {  // outcome label only, never compared
  std::string r;
  if (depth > 8) return r;
  if (v.is<JsonArrayConst>()) {
    for (JsonVariantConst e : v.as<JsonArrayConst>()) r += storageSig(e, depth + 1);
  } else if (v.is<JsonObjectConst>()) {
    for (JsonPairConst p : v.as<JsonObjectConst>()) {
      r += p.key().isLinked() ? 'l' : 'c';
      r += storageSig(p.value(), depth + 1);
    }
  } else if (v.is<JsonString>()) {
    r += v.as<JsonString>().isLinked() ? 'L' : 'C';
  }
  return r;
}

// runs `body(doc)` on a fresh document over a ledger allocator, then observes and checks the stored strings.
// `want` lists the strings expected when the source string was stored; entries equal to the source string
// vanish when a copying kind must refuse it (longer than the maximum length).
inline void freshDoc(Env& E, const Found& wantStored, const std::function<int(JsonDocument&)>& body) {
  LedgerAllocator A;
  {
    JsonDocument doc(&A);
    int ok = body(doc);  // 1 / 0 = result reported by the call, -1 = the call reports nothing
    bool rej = refusedExpected(E);
    E.obs += std::string("ok=") + (ok < 0 ? "-" : ok ? "1" : "0") + ";";
    if (ok >= 0 && rej && ok == 1) E.problem("refused", "a string longer than the maximum length was reported as stored");
    if (ok >= 0 && !rej && ok == 0) E.problem("stored-bytes", "the call reported failure for a string within the limits");
    Found want;
    for (auto& w : wantStored)
      if (!(rej && w.second == E.src->bytes)) want.push_back(w);
    observeDoc(E, doc, "doc");
    expectStrings(E, doc, want, rej ? "refused" : "stored-bytes");
    E.outcome = rej ? "refused" : "stored-" + storageSig(doc.as<JsonVariantConst>());
  }
  ledgerEnd(E, A);
}
inline Found F1(bool isKey, const std::string& s) { return Found{{isKey, s}}; }

// ---- the string as a VALUE
inline void u_docSet(Env& E) {
  freshDoc(E, F1(false, E.src->bytes), [&](JsonDocument& doc) { bool ok = false; HXS_CALL(E, ok = doc.set(x)); return int(ok); });
}
inline void u_varSet(Env& E) {
  freshDoc(E, F1(false, E.src->bytes), [&](JsonDocument& doc) {
    JsonVariant v = doc.to<JsonVariant>(); bool ok = false; HXS_CALL(E, ok = v.set(x)); return int(ok); });
}
inline void u_docAdd(Env& E) {
  freshDoc(E, F1(false, E.src->bytes), [&](JsonDocument& doc) { bool ok = false; HXS_CALL(E, ok = doc.add(x)); return int(ok); });
}
inline void u_arrAdd(Env& E) {
  freshDoc(E, F1(false, E.src->bytes), [&](JsonDocument& doc) {
    JsonArray a = doc.to<JsonArray>(); bool ok = false; HXS_CALL(E, ok = a.add(x)); return int(ok); });
}
inline void u_varAdd(Env& E) {
  freshDoc(E, F1(false, E.src->bytes), [&](JsonDocument& doc) {
    JsonVariant v = doc.to<JsonVariant>(); bool ok = false; HXS_CALL(E, ok = v.add(x)); return int(ok); });
}
inline void u_arrAddTwice(Env& E) {  // the same source stored twice (de-duplicated when copied)
  Found w{{false, E.src->bytes}, {false, E.src->bytes}};
  freshDoc(E, w, [&](JsonDocument& doc) {
    JsonArray a = doc.to<JsonArray>(); bool ok = false, ok2 = false;
    E.src->visit([&](auto& x) { ok = a.add(x); ok2 = a.add(x); });
    E.after();
    return int(ok && ok2); });
}
inline void u_docMember(Env& E) {
  Found w{{true, "k"}, {false, E.src->bytes}};
  freshDoc(E, w, [&](JsonDocument& doc) { HXS_CALL(E, doc["k"] = x); return -1; });
}
inline void u_objMember(Env& E) {
  Found w{{true, "k"}, {false, E.src->bytes}};
  freshDoc(E, w, [&](JsonDocument& doc) { JsonObject o = doc.to<JsonObject>(); HXS_CALL(E, o["k"] = x); return -1; });
}
inline void u_memberSet(Env& E) {
  Found w{{true, "k"}, {false, E.src->bytes}};
  freshDoc(E, w, [&](JsonDocument& doc) {
    JsonObject o = doc.to<JsonObject>(); bool ok = false; HXS_CALL(E, ok = o["k"].set(x)); return int(ok); });
}
inline void u_docElement(Env& E) {
  Found w{{false, E.src->bytes}};
  freshDoc(E, w, [&](JsonDocument& doc) { doc.add(0); HXS_CALL(E, doc[0] = x); return -1; });
}
inline void u_elementSet(Env& E) {
  Found w{{false, "first"}, {false, E.src->bytes}};
  freshDoc(E, w, [&](JsonDocument& doc) {
    JsonArray a = doc.to<JsonArray>(); a.add("first"); a.add(0); bool ok = false; HXS_CALL(E, ok = a[1].set(x)); return int(ok); });
}
inline void u_replaceCopied(Env& E) {  // overwrites a value that holds a copied string
  Found w{{true, "k"}, {false, E.src->bytes}, {true, "other"}, {false, "old-copied"}};
  freshDoc(E, w, [&](JsonDocument& doc) {
    doc["k"] = std::string("old-copied"); doc["other"] = std::string("old-copied");
    bool ok = false; HXS_CALL(E, ok = doc["k"].set(x)); return int(ok); });
}
inline void u_replaceSame(Env& E) {  // overwrites a value that already holds the same bytes (copied through std::string)
  Found w{{true, "k"}, {false, E.src->bytes}};
  freshDoc(E, w, [&](JsonDocument& doc) {
    if (E.src->n <= kMaxLen) doc["k"] = std::string(E.src->bytes); else doc["k"] = 0;
    bool ok = false; HXS_CALL(E, ok = doc["k"].set(x)); return int(ok); });
}

// overwrites a value that is LINKED to the very buffer the source lives in (stored through const char* just before)
inline void u_replaceLinkedSameBuffer(Env& E) {
  Found w{{true, "k"}, {false, E.src->bytes}};
  freshDoc(E, w, [&](JsonDocument& doc) {
    const char* p = nullptr;
    if (!byAddress(E.src->kind)) {
      if (E.src->kind == StdString) p = E.src->ss->c_str();
      else if (E.src->kind == ArdString) p = E.src->as->c_str();
      else if (E.src->kind == CharPtr || E.src->kind == CharArr) p = E.src->buf;
    }
    if (p) doc["k"] = p; else doc["k"] = "linked-elsewhere";
    bool ok = false; HXS_CALL(E, ok = doc["k"].set(x)); return int(ok); });
}
// overwrites a value whose copied string has the SAME LENGTH as the new one and is shared with another member
inline void u_replaceCopiedSameLength(Env& E) {
  std::string other = E.src->bytes;
  if (other.empty() || other.size() > kMaxLen) other = "old-copied";
  else other[other.size() - 1] = char(other[other.size() - 1] ^ 1);
  Found w{{true, "k"}, {false, E.src->bytes}, {true, "other"}, {false, other}};
  freshDoc(E, w, [&](JsonDocument& doc) {
    doc["k"] = other; doc["other"] = other;
    bool ok = false; HXS_CALL(E, ok = doc["k"].set(x)); return int(ok); });
}

// copied neighbours (longer, NUL-extended, shorter) live in the same pool: de-duplication must be byte-exact
inline void u_neighbours(Env& E) {
  const std::string& s = E.src->bytes;
  std::vector<std::string> before, after;
  if (s.size() + 1 <= kMaxLen) { before.push_back(s + "x"); before.push_back(s + std::string(1, '\0')); }
  if (!s.empty()) after.push_back(s.substr(0, s.size() - 1));
  if (s.find('\0') != std::string::npos) after.push_back(s.substr(0, s.find('\0')));
  after.push_back(s.size() + 1 <= kMaxLen ? s + "y" : std::string("y"));
  Found w;
  for (auto& b : before) w.emplace_back(false, b);
  w.emplace_back(false, s);
  for (auto& a : after) w.emplace_back(false, a);
  freshDoc(E, w, [&](JsonDocument& doc) {
    JsonArray arr = doc.to<JsonArray>();
    for (auto& b : before) arr.add(b);
    bool ok = false;
    HXS_CALL(E, ok = arr.add(x));
    for (auto& a : after) arr.add(a);
    return int(ok);
  });
}

// ---- the string as a KEY
inline void u_keyDoc(Env& E) {
  freshDoc(E, F1(true, E.src->bytes), [&](JsonDocument& doc) { HXS_CALL(E, doc[x] = 1); return -1; });
}
inline void u_keyObj(Env& E) {
  freshDoc(E, F1(true, E.src->bytes), [&](JsonDocument& doc) { JsonObject o = doc.to<JsonObject>(); HXS_CALL(E, o[x] = 1); return -1; });
}
inline void u_keyVar(Env& E) {
  freshDoc(E, F1(true, E.src->bytes), [&](JsonDocument& doc) { JsonVariant v = doc.to<JsonVariant>(); HXS_CALL(E, v[x] = 1); return -1; });
}
inline void u_keyObjSet(Env& E) {
  freshDoc(E, F1(true, E.src->bytes), [&](JsonDocument& doc) {
    JsonObject o = doc.to<JsonObject>(); bool ok = false; HXS_CALL(E, ok = o[x].set(1)); return int(ok); });
}
inline void u_keyDocDoc(Env& E) {
  Found w{{true, E.src->bytes}, {true, E.src->bytes}};
  freshDoc(E, w, [&](JsonDocument& doc) { HXS_CALL(E, doc[x][x] = 1); return -1; });
}
inline void u_keyAndValue(Env& E) {
  Found w{{true, E.src->bytes}, {false, E.src->bytes}};
  freshDoc(E, w, [&](JsonDocument& doc) { JsonObject o = doc.to<JsonObject>(); HXS_CALL(E, o[x] = x); return -1; });
}
inline void u_keyToArray(Env& E) {
  freshDoc(E, F1(true, E.src->bytes), [&](JsonDocument& doc) {
    JsonObject o = doc.to<JsonObject>(); HXS_CALL(E, o[x].template to<JsonArray>().add(1)); return -1; });
}
inline void u_keyDocAdd(Env& E) {
  freshDoc(E, F1(true, E.src->bytes), [&](JsonDocument& doc) { bool ok = false; HXS_CALL(E, ok = doc[x].add(1)); return int(ok); });
}
// the key already exists (stored copied through std::string / linked through const char*): obj[x] = 2 must replace it
inline void keyExisting(Env& E, bool linkedFirst) {
  const std::string& s = E.src->bytes;
  Found w{{true, "before"}, {true, s}, {true, "after"}};
  Source keep(ConstPtr, E.src->idx);
  freshDoc(E, w, [&](JsonDocument& doc) {
    doc["before"] = 0;
    if (linkedFirst) { const char* p = keep.buf; doc[p] = 1; }
    else if (s.size() <= kMaxLen) doc[s] = 1;
    else { const char* p = keep.buf; doc[p] = 1; }  // over-long strings can only pre-exist by address
    doc["after"] = 3;
    HXS_CALL(E, doc[x] = 2);
    if (doc.size() != 3) E.problem("lookup", "assigning through an existing key changed the member count to " + std::to_string(doc.size()));
    if (doc[s.c_str()] != 2 && !alphabet()[E.src->idx].hasNul) E.problem("lookup", "assigning through an existing key did not replace its value");
    return -1;
  });
}
inline void u_keyExistingCopied(Env& E) { keyExisting(E, false); }
inline void u_keyExistingLinked(Env& E) { keyExisting(E, true); }


// ---- the string as a LOOKUP KEY
// population: neighbours of s that a NUL-insensitive, prefix or pointer comparison would confuse with s
struct Member { std::string key; int value; };
inline std::vector<Member> population(const std::string& s, bool withS) {
  std::vector<std::string> keys;
  auto push = [&](const std::string& k) {
    if (k.size() > kMaxLen) return;
    if (k == s && !withS) return;
    for (auto& e : keys) if (e == k) return;
    keys.push_back(k);
  };
  size_t z = s.find('\0');
  if (z != std::string::npos) push(s.substr(0, z));
  if (!s.empty()) push(s.substr(0, s.size() - 1));
  push(s);
  push(s + "x");
  push(s + std::string(1, '\0'));
  push("zz-unrelated");
  std::vector<Member> m;
  int n = 10;
  for (auto& k : keys) m.push_back({k, n++});
  return m;
}
struct Populated {  // keeps the by-address key buffers alive
  std::vector<std::unique_ptr<char[]>> keep;
  void fill(JsonDocument& doc, const std::vector<Member>& m, bool linked) {
    doc.to<JsonObject>();
    for (auto& e : m) {
      if (linked && e.key.find('\0') == std::string::npos) {
        keep.emplace_back(new char[e.key.size() + 1]);
        memcpy(keep.back().get(), e.key.c_str(), e.key.size() + 1);
        const char* p = keep.back().get();
        doc[p] = e.value;
      } else {
        doc[e.key] = e.value;
      }
    }
  }
};
inline std::string intOrNull(JsonVariantConst v) {
  if (v.isUnbound()) return "U";
  if (v.isNull()) return "null";
  if (!v.is<int>()) return "?" + obsReal(v);
  return std::to_string(v.as<int>());
}
inline int modelFind(const std::vector<Member>& m, const std::string& s) {
  for (size_t i = 0; i < m.size(); i++) if (m[i].key == s) return int(i);
  return -1;
}

// call(doc, x) -> text of the result; kind: 'i' index (value or absent), 'b' boolean presence, 'r' removal
inline void lookupUse(Env& E, char what, const std::function<std::string(JsonDocument&, Source&)>& call) {
  const std::string& s = E.src->bytes;
  for (int variant = 0; variant < 4; variant++) {
    bool withS = (variant & 1) == 0, linked = (variant & 2) != 0;
    if (s.size() > kMaxLen && !linked) withS = false;  // an over-long key can only be present by address
    std::vector<Member> m = population(s, withS);
    if (s.size() > kMaxLen && linked && (variant & 1) == 0) m.insert(m.begin() + 1, Member{s, 99});
    LedgerAllocator A;
    {
      JsonDocument doc(&A);
      Populated P;
      P.fill(doc, m, linked);
      std::string res;
      Source* src = E.src;
      // a fresh source per variant when the run scrubs it
      std::unique_ptr<Source> local;
      if (E.scrubMode) { local.reset(new Source(src->kind, src->idx, src->pad)); E.src = local.get(); }
      res = call(doc, *E.src);
      E.after();
      E.src = src;
      int at = modelFind(m, s);
      std::string want;
      if (what == 'i') want = at < 0 ? "absent" : std::to_string(m[size_t(at)].value);
      if (what == 'b') want = at < 0 ? "0" : "1";
      if (what == 'r') { want = "-"; if (at >= 0) m.erase(m.begin() + at); }
      std::string got = res;
      if (what == 'i' && (got == "U" || got == "null")) got = "absent";
      E.obs += "\n#v" + std::to_string(variant) + ":res=" + res + ";";
      if (got != want) E.problem("lookup", "variant " + std::to_string(variant) + " (" + (withS ? "present" : "absent") + ", keys " + (linked ? "linked" : "copied") + "): result " + res + ", expected " + want);
      Found f;
      for (auto& e : m) f.emplace_back(true, e.key);
      expectStrings(E, doc, f, "lookup");
      for (auto& e : m)
        if (doc[e.key] != e.value) E.problem("lookup", "member " + vis(compact(e.key)) + " no longer holds its value after the lookup");
      observeDoc(E, doc, "doc");
      E.outcome = std::string(at >= 0 ? "hit" : "miss");
    }
    ledgerEnd(E, A);
  }
}
#define HXS_LOOKUP(name, what, expr) \
  inline void name(Env& E) {                                                                    \
    lookupUse(E, what, [](JsonDocument& doc, Source& src) -> std::string {                      \
      std::string res;                                                                          \
      src.visit([&](auto& x) { res = expr; });                                                  \
      return res;                                                                               \
    });                                                                                         \
  }
// presence lookups when the member holds null, "" or an empty array ("present" and "present and non-null" differ there):
// no absolute expectation, the answers of all source kinds are compared with each other
inline void presenceUse(Env& E, const std::function<std::string(JsonDocument&, Source&)>& call) {
  const std::string& s = E.src->bytes;
  if (s.size() > kMaxLen) return;
  for (int variant = 0; variant < 3; variant++) {
    LedgerAllocator A;
    {
      JsonDocument doc(&A);
      doc["a"] = 1;
      if (variant == 0) doc[s] = nullptr;
      else if (variant == 1) doc[s] = "";
      else doc[s].to<JsonArray>();
      doc["z"] = 2;
      Source* src = E.src;
      std::unique_ptr<Source> local;
      if (E.scrubMode) { local.reset(new Source(src->kind, src->idx, src->pad)); E.src = local.get(); }
      std::string res = call(doc, *E.src);
      E.after();
      E.src = src;
      E.obs += "\n#p" + std::to_string(variant) + ":res=" + res + ";";
      observeDoc(E, doc, "doc");
      E.outcome = "presence";
    }
    ledgerEnd(E, A);
  }
}
#define HXS_PRESENCE(name, expr) \
  inline void name(Env& E) {                                                                    \
    presenceUse(E, [](JsonDocument& doc, Source& src) -> std::string {                          \
      std::string res;                                                                          \
      src.visit([&](auto& x) { res = expr; });                                                  \
      return res;                                                                               \
    });                                                                                         \
  }
HXS_PRESENCE(u_prDocContains, std::string(doc.containsKey(x) ? "1" : "0"))
HXS_PRESENCE(u_prObjContains, std::string(doc.as<JsonObject>().containsKey(x) ? "1" : "0"))
HXS_PRESENCE(u_prConstObjContains, std::string(doc.as<JsonObjectConst>().containsKey(x) ? "1" : "0"))
HXS_PRESENCE(u_prVarContains, std::string(doc.as<JsonVariant>().containsKey(x) ? "1" : "0"))
HXS_PRESENCE(u_prConstVarContains, std::string(doc.as<JsonVariantConst>().containsKey(x) ? "1" : "0"))
HXS_PRESENCE(u_prDocIsNull, std::string(doc[x].isNull() ? "1" : "0") + (doc[x].isUnbound() ? "U" : "B"))
HXS_PRESENCE(u_prConstDocIsNull, std::string(static_cast<const JsonDocument&>(doc)[x].isNull() ? "1" : "0") + (static_cast<const JsonDocument&>(doc)[x].isUnbound() ? "U" : "B"))
HXS_LOOKUP(u_lkDoc, 'i', intOrNull(doc[x]))
HXS_LOOKUP(u_lkConstDoc, 'i', intOrNull(static_cast<const JsonDocument&>(doc)[x]))
HXS_LOOKUP(u_lkObj, 'i', intOrNull(doc.as<JsonObject>()[x]))
HXS_LOOKUP(u_lkConstObj, 'i', intOrNull(doc.as<JsonObjectConst>()[x]))
HXS_LOOKUP(u_lkVar, 'i', intOrNull(doc.as<JsonVariant>()[x]))
HXS_LOOKUP(u_lkConstVar, 'i', intOrNull(doc.as<JsonVariantConst>()[x]))
HXS_LOOKUP(u_lkIsInt, 'b', std::string(doc.as<JsonObject>()[x].template is<int>() ? "1" : "0"))
HXS_LOOKUP(u_lkDocIsInt, 'b', std::string(doc[x].template is<int>() ? "1" : "0"))
HXS_LOOKUP(u_lkDocContains, 'b', std::string(doc.containsKey(x) ? "1" : "0"))
HXS_LOOKUP(u_lkObjContains, 'b', std::string(doc.as<JsonObject>().containsKey(x) ? "1" : "0"))
HXS_LOOKUP(u_lkConstObjContains, 'b', std::string(doc.as<JsonObjectConst>().containsKey(x) ? "1" : "0"))
HXS_LOOKUP(u_lkVarContains, 'b', std::string(doc.as<JsonVariant>().containsKey(x) ? "1" : "0"))
HXS_LOOKUP(u_lkConstVarContains, 'b', std::string(doc.as<JsonVariantConst>().containsKey(x) ? "1" : "0"))
HXS_LOOKUP(u_lkDocRemove, 'r', (doc.remove(x), std::string("-")))
HXS_LOOKUP(u_lkObjRemove, 'r', (doc.as<JsonObject>().remove(x), std::string("-")))
HXS_LOOKUP(u_lkVarRemove, 'r', (doc.as<JsonVariant>().remove(x), std::string("-")))

// ---- the string as a COMPARISON OPERAND (right and left) against a variant holding every operand string t
inline void u_compare(Env& E) {
  const auto& S = alphabet();
  const std::string& s = E.src->bytes;
  for (int t : E.operands) {
    for (int linked = 0; linked < 2; linked++) {
      if (linked && S[t].hasNul) continue;
      if (!linked && S[t].bytes.size() > kMaxLen) continue;
      LedgerAllocator A;
      {
        JsonDocument doc(&A);
        Source held(ConstPtr, t);
        if (linked) { const char* p = held.buf; doc["k"] = p; } else doc["k"] = S[t].bytes;
        doc["n"] = nullptr;
        doc["i"] = 42;
        std::string r;
        Source* src = E.src;
        std::unique_ptr<Source> local;
        if (E.scrubMode) { local.reset(new Source(src->kind, src->idx, src->pad)); E.src = local.get(); }
        E.src->visit([&](auto& x) {
          JsonVariantConst cv = doc["k"];
          JsonVariant v = doc["k"];
          HXS_CMP12(r, cv, x);
          r += '/';
          HXS_CMP12(r, doc["k"], x);
          r += '/';
          HXS_CMP4(r, v, x);
          r += "/n";
          HXS_CMP4(r, doc["n"], x);
          r += "/i";
          HXS_CMP4(r, doc["i"], x);
          r += "/u";
          HXS_CMP4(r, doc["missing"], x);
        });
        E.after();
        E.src = src;
        E.obs += "\n#t" + std::to_string(t) + (linked ? "L" : "C") + ":" + r + ";";
        // absolute clause for equality only: equal iff the bytes are identical (ordering is C18's business)
        bool same = S[t].bytes == s;
        const char* wantEq = same ? "10" : "01";
        for (size_t base : {size_t(0), size_t(6), size_t(13), size_t(19)})
          if (r.compare(base, 2, wantEq) != 0)
            E.problem("compare-eq", "variant holding " + S[t].name + (linked ? " (linked)" : " (copied)") + ": == / != answered " + r.substr(base, 2) + " at position " + std::to_string(base) + " of " + r);
        if (same) E.outcome = "equal";
        observeDoc(E, doc, "doc");
      }
      ledgerEnd(E, A);
    }
  }
  if (E.outcome.empty()) E.outcome = "differ";
}

// ---- member of a document that is then COPIED, the original being destroyed before the copy is observed
inline void copyUse(Env& E, int how) {
  const std::string& s = E.src->bytes;
  Found w{{true, "V"}, {false, s}, {true, s}, {true, "A"}, {false, s}};
  LedgerAllocator A, B;
  {
    JsonDocument* orig = new JsonDocument(&A);
    E.src->visit([&](auto& x) {
      (*orig)["V"] = x;
      (*orig)[x] = 1;
      (*orig)["A"].add(x);
    });
    E.after();
    bool rej = refusedExpected(E);
    Found want;
    for (auto& e : w) if (!(rej && e.second == s)) want.push_back(e);
    JsonDocument copy(&B);
    copy["junk"] = std::string("junk");
    switch (how) {
      case 0: { JsonDocument c2(*orig); swap(copy, c2); break; }          // copy constructor (allocator of the source)
      case 1: copy = *orig; break;                                         // copy assignment
      case 2: copy.set(*orig); break;                                      // JsonDocument::set(const JsonDocument&)
      case 3: copy = std::move(*orig); break;                              // move assignment
      case 4: copy.clear(); copy["V"].set((*orig)["V"]); copy[s] = (*orig)[s]; copy["A"].set((*orig)["A"]); break;  // member-wise v2.set(v1)
    }
    delete orig;
    observeDoc(E, copy, "copy");
    expectStrings(E, copy, want, rej ? "refused" : "stored-bytes");
    E.outcome = rej ? "refused" : "copied-" + storageSig(copy.as<JsonVariantConst>());
  }
  ledgerEnd(E, A);
  ledgerEnd(E, B);
}
inline void u_copyCtor(Env& E) { copyUse(E, 0); }
inline void u_copyAssign(Env& E) { copyUse(E, 1); }
inline void u_copyDocSet(Env& E) { copyUse(E, 2); }
inline void u_copyMove(Env& E) { copyUse(E, 3); }
inline void u_copyMembers(Env& E) { copyUse(E, 4); }
// v2.set(v1) inside one document, then the first user disappears
inline void u_copyWithin(Env& E) {
  const std::string& s = E.src->bytes;
  Found w{{true, "B"}, {false, s}};
  freshDoc(E, w, [&](JsonDocument& doc) {
    HXS_CALL(E, doc["A"] = x);
    bool ok = doc["B"].set(doc["A"]);
    doc.remove("A");
    return refusedExpected(E) ? -1 : int(ok);
  });
}


// ------------------------------------------------------------------------------------------- phase A driver
struct UseDef {
  const char* name;
  void (*fn)(Env&);
  bool withinLimitOnly;  // not defined for the over-long string
  bool nulFreeOnly;
};
// The translation unit can be built in parts (-DHXS_PART=1..6) so that the job builds run in parallel:
// 1 = value uses, 2 = key uses, 3 = index lookups, 4 = containsKey / remove lookups, 5 = comparison operands,
// 6 = copy paths and the sharing grid; 0 = everything.
#ifndef HXS_PART
#define HXS_PART 0
#endif
#define HXS_IN(part) (HXS_PART == 0 || HXS_PART == part)
static const UseDef kUses[] = {
#if HXS_IN(1)
    {"v.docSet", u_docSet, false, false},           {"v.varSet", u_varSet, false, false},
    {"v.docAdd", u_docAdd, false, false},           {"v.arrAdd", u_arrAdd, false, false},
    {"v.varAdd", u_varAdd, false, false},           {"v.arrAddTwice", u_arrAddTwice, false, false},
    {"v.docMember", u_docMember, false, false},     {"v.objMember", u_objMember, false, false},
    {"v.memberSet", u_memberSet, false, false},     {"v.docElement", u_docElement, false, false},
    {"v.elementSet", u_elementSet, false, false},   {"v.replaceCopied", u_replaceCopied, false, false},
    {"v.replaceSame", u_replaceSame, false, false}, {"v.neighbours", u_neighbours, true, false},
    {"v.replaceLinkedSameBuffer", u_replaceLinkedSameBuffer, false, false},
    {"v.replaceCopiedSameLength", u_replaceCopiedSameLength, false, false},
#endif
#if HXS_IN(2)
    {"k.doc", u_keyDoc, false, false},
    {"k.obj", u_keyObj, false, false},              {"k.var", u_keyVar, false, false},
    {"k.objSet", u_keyObjSet, false, false},        {"k.docDoc", u_keyDocDoc, false, false},
    {"k.keyAndValue", u_keyAndValue, false, false}, {"k.toArray", u_keyToArray, false, false},
    {"k.docAdd", u_keyDocAdd, false, false},        {"k.existingCopied", u_keyExistingCopied, true, false},
    {"k.existingLinked", u_keyExistingLinked, true, true},
#endif
#if HXS_IN(3)
    {"l.doc", u_lkDoc, false, false},               {"l.constDoc", u_lkConstDoc, false, false},
    {"l.obj", u_lkObj, false, false},               {"l.constObj", u_lkConstObj, false, false},
    {"l.var", u_lkVar, false, false},               {"l.constVar", u_lkConstVar, false, false},
    {"l.isInt", u_lkIsInt, false, false},           {"l.docIsInt", u_lkDocIsInt, false, false},
#endif
#if HXS_IN(4)
    {"l.docContains", u_lkDocContains, false, false},
    {"p.docContains", u_prDocContains, false, false},   {"p.objContains", u_prObjContains, false, false},
    {"p.constObjContains", u_prConstObjContains, false, false}, {"p.varContains", u_prVarContains, false, false},
    {"p.constVarContains", u_prConstVarContains, false, false}, {"p.docIsNull", u_prDocIsNull, false, false},
    {"p.constDocIsNull", u_prConstDocIsNull, false, false},
    {"l.objContains", u_lkObjContains, false, false},
    {"l.constObjContains", u_lkConstObjContains, false, false},
    {"l.varContains", u_lkVarContains, false, false},
    {"l.constVarContains", u_lkConstVarContains, false, false},
    {"l.docRemove", u_lkDocRemove, false, false},   {"l.objRemove", u_lkObjRemove, false, false},
    {"l.varRemove", u_lkVarRemove, false, false},
#endif
#if HXS_IN(5)
    {"c.operand", u_compare, false, false},
#endif
#if HXS_IN(6)
    {"d.copyCtor", u_copyCtor, true, false},        {"d.copyAssign", u_copyAssign, true, false},
    {"d.docSetDoc", u_copyDocSet, true, false},     {"d.moveAssign", u_copyMove, true, false},
    {"d.memberwise", u_copyMembers, true, false},   {"d.within", u_copyWithin, false, false},
#endif
};
static const size_t kNUses = sizeof(kUses) / sizeof(kUses[0]);

struct RunResult {
  std::string obs, problems, outcome;
};
inline RunResult runUse(const UseDef& u, Kind k, int sIdx, int scrubMode, const std::vector<int>& operands) {
  Source src(k, sIdx, scrubMode == 1);
  Env E;
  E.src = &src;
  E.scrubMode = scrubMode;
  E.operands = operands;
  u.fn(E);
  return {E.obs, E.problems, E.outcome};
}

inline std::string firstDiff(const std::string& a, const std::string& b) {
  size_t i = 0;
  while (i < a.size() && i < b.size() && a[i] == b[i]) i++;
  size_t from = i > 60 ? i - 60 : 0;
  return "first difference at offset " + std::to_string(i) + ": reference ..." + vis(a.substr(from, 160)) + "... got ..." +
         vis(b.substr(from, 160)) + "...";
}

inline void reportProblems(Ctx& C, const std::string& problems, const char* runName) {
  size_t i = 0;
  while (i < problems.size()) {
    size_t j = problems.find('\n', i);
    std::string line = problems.substr(i, j - i);
    size_t c = line.find(": ");
    std::string clause = line.substr(0, c);
    C.failKey(C.curKey + "|c=" + clause, clause, std::string(runName) + " run: " + line.substr(c + 2));
    i = j + 1;
  }
}

inline void phaseA(Ctx& C, const std::vector<int>& strings, const std::vector<int>& operands) {
  const auto& S = alphabet();
  std::string refFor;  // (s,use) of the cached reference observation
  RunResult ref;
  Kind refKind = Lit;
  for (int si : strings) {
    for (size_t ui = 0; ui < kNUses; ui++) {
      const UseDef& u = kUses[ui];
      if (u.withinLimitOnly && S[si].bytes.size() > kMaxLen) continue;
      if (u.nulFreeOnly && S[si].hasNul) continue;
      std::string group = "str:s=" + S[si].name + "|use=" + u.name;
      for (int ki = 0; ki < NKINDS; ki++) {
        Kind k = Kind(ki);
        if (!canExpress(k, S[si])) continue;
        if (!C.takeByHash(fnv1a(group))) continue;
        if (C.expired()) return;
        // reference = first kind that can express s; beyond the maximum length by-address kinds store and copying
        // kinds refuse (outside the quantifier): each family is compared with its own first member
        bool over = S[si].bytes.size() > kMaxLen;
        Kind a = Lit;
        while (!canExpress(a, S[si])) a = Kind(int(a) + 1);
        if (over && !byAddress(k)) a = CharPtr;
        std::string key = group + "|kinds=" + kKindName[a] + "~" + kKindName[k];
        C.begin(key);
        if (refFor != group + kKindName[a]) {
          ref = runUse(u, a, si, 0, operands);
          refFor = group + kKindName[a];
          refKind = a;
        }
        RunResult plain = k == a ? ref : runUse(u, k, si, 0, operands);
        reportProblems(C, plain.problems, "plain");
        (void)refKind;
        if (plain.obs != ref.obs)
          C.failKey(key + "|c=differential", "differential", firstDiff(ref.obs, plain.obs));
        bool indepOk = true;
        if (!byAddress(k)) {
          RunResult ow = runUse(u, k, si, 1, operands);
          if (ow.obs != plain.obs) {
            indepOk = false;
            C.failKey(key + "|c=independence", "independence",
                      "source overwritten with 'X' right after the call: " + firstDiff(plain.obs, ow.obs));
          } else if (ow.problems != plain.problems) {
            reportProblems(C, ow.problems, "overwritten-source");
          }
          if (indepOk) {  // destroying the source as well (ASan reports any later read of it)
            RunResult de = runUse(u, k, si, 2, operands);
            if (de.obs != plain.obs)
              C.failKey(key + "|c=independence", "independence",
                        "source overwritten and destroyed right after the call: " + firstDiff(plain.obs, de.obs));
          }
        }
        if (byAddress(k) != byAddress(a) || S[si].special) C.nontrivial();
        C.outcome(std::string(u.name) + ":" + plain.outcome);
        C.end();
      }
    }
  }
}


// ------------------------------------------------------------------------------------------- phase B: sharing
enum Role { VC, VL, KC, KL, RAW, NROLES };
static const char* kRoleName[NROLES] = {"vC", "vL", "kC", "kL", "raw"};
static const char* kContainer[3] = {"c0", "c1", "c2"};
enum Mut { M_NONE, M_OTHER, M_SAME, M_REMOVE, M_CLEAR, M_DROP, M_INT, M_COPY, M_REBUILD, NMUTS };
static const char* kMutName[NMUTS] = {"none", "other", "same", "remove", "clear", "drop", "int", "copy", "rebuild"};
static const Kind kSizedKinds[] = {StdString, StringView, JsCopied, ArdString};

inline Kind roleKind(Role r, int user, int rot, bool hasNul) {
  if (r == RAW) return StdString;
  if (r == VL || r == KL) return kLinkedKinds[size_t(rot + user) % 5];
  if (hasNul) return kSizedKinds[size_t(rot + user) % 4];
  return kCopiedKinds[size_t(rot + user) % 7];
}

struct ShareCase {
  int sIdx;
  std::vector<Role> roles;
  int rot;
  Mut mut;
  int j;
};

// adds the users to `doc` and to the model; sources of by-address kinds are parked in `keep`
inline bool buildUsers(const ShareCase& sc, JsonDocument& doc, MValue& model, std::vector<std::unique_ptr<Source>>& keep,
                       std::string& why) {
  const SDef& sd = alphabet()[sc.sIdx];
  model = MValue::object();
  for (size_t i = 0; i < sc.roles.size(); i++) {
    Role r = sc.roles[i];
    Kind k = roleKind(r, int(i), sc.rot, sd.hasNul);
    JsonVariant c = doc[kContainer[i]].to<JsonVariant>();
    bool ok = false;
    std::unique_ptr<Source> src(new Source(k, sc.sIdx));
    MValue m;
    if (r == RAW) {
      ok = c.add(serialized(*src->ss));
      m = MValue::array();
      m.a.push_back(MValue::raw(sd.bytes));
    } else if (r == VC || r == VL) {
      src->visit([&](auto& x) { ok = c.add(x); });
      m = MValue::array();
      m.a.push_back(MValue::str(sd.bytes));
    } else {
      src->visit([&](auto& x) { ok = c[x].set(int(i)); });
      m = MValue::object();
      m.o.emplace_back(sd.bytes, MValue::integer(int(i)));
    }
    if (!ok) why += "adding user " + std::to_string(i) + " reported failure; ";
    if (byAddress(k)) keep.push_back(std::move(src));
    else src->scrub(2);  // copied: independent of its source from the moment the call returns
    model.o.emplace_back(kContainer[i], m);
  }
  return why.empty();
}

inline void shareCase(Ctx& C, const ShareCase& sc) {
  const SDef& sd = alphabet()[sc.sIdx];
  const std::string& s = sd.bytes;
  std::string problems;
  LedgerAllocator A, B;
  std::vector<std::unique_ptr<Source>> keep;
  size_t copiedUsers = 0;
  {
    JsonDocument doc(&A);
    JsonDocument second(&B);
    JsonDocument* observed = &doc;
    MValue model;
    std::string why;
    if (!buildUsers(sc, doc, model, keep, why)) problems += "stored-bytes: " + why + "\n";
    size_t j = size_t(sc.j);
    Role rj = sc.roles[j];
    bool isKeyRole = rj == KC || rj == KL;
    const char* cj = kContainer[j];
    MValue& mj = model.o[j].second;
    switch (sc.mut) {
      case M_NONE: break;
      case M_OTHER:
        if (isKeyRole) {
          doc[cj].remove(s);
          doc[cj][std::string("other-string")] = int(j);
          mj.o.clear();
          mj.o.emplace_back("other-string", MValue::integer(int(j)));
        } else {
          doc[cj][0] = std::string("other-string");
          mj.a[0] = MValue::str("other-string");
        }
        break;
      case M_SAME:
        if (isKeyRole) {
          doc[cj][s] = int(j) + 100;
          mj.o[0].second = MValue::integer(int(j) + 100);
        } else {
          doc[cj][0] = s;
          mj.a[0] = MValue::str(s);
        }
        break;
      case M_REMOVE:
        if (isKeyRole) { doc[cj].remove(s); mj.o.clear(); }
        else { doc[cj].remove(0); mj.a.clear(); }
        break;
      case M_CLEAR:
        if (isKeyRole) { doc[cj].as<JsonObject>().clear(); mj.o.clear(); }
        else { doc[cj].as<JsonArray>().clear(); mj.a.clear(); }
        break;
      case M_DROP:
        doc.remove(cj);
        model.o.erase(model.o.begin() + long(j));
        break;
      case M_INT:
        if (isKeyRole) { doc[cj] = 7; mj = MValue::integer(7); }
        else { doc[cj][0] = 7; mj.a[0] = MValue::integer(7); }
        break;
      case M_COPY:
        second.set(doc);
        doc.clear();
        observed = &second;
        break;
      case M_REBUILD: {
        doc.clear();
        std::string why2;
        if (!buildUsers(sc, doc, model, keep, why2)) problems += "stored-bytes: rebuild: " + why2 + "\n";
        break;
      }
      default: break;
    }
    std::string got = obsReal(observed->as<JsonVariantConst>()), want = obsModel(&model);
    if (got != want) problems += "sharing: after the mutation the document observes differently from the model: " + firstDiff(want, got) + "\n";
    if (got.find('!') != std::string::npos) problems += "api-consistency: " + compact(got.substr(got.find('!'), 60)) + "\n";
    // expected number of pool users of the bytes of s
    std::function<void(const MValue&, bool)> count = [&](const MValue& m, bool) {
      if ((m.kind == MValue::Str || m.kind == MValue::Raw) && m.s == s) copiedUsers++;
      for (auto& e : m.a) count(e, false);
      for (auto& kv : m.o) { if (kv.first == s) copiedUsers++; count(kv.second, false); }
    };
    count(model, false);
#ifndef VERIF_NO_INSPECTOR
    {
      Inspector::Report rep = Inspector::inspect(*observed);
      if (!rep.errors.empty()) problems += "inspector: " + rep.errors + "\n";
      // the pool holds the bytes of s at most once and never more references than users of these bytes
      size_t nodes = 0, refs = 0;
      size_t from = rep.key.find(")S(");
      std::string needle = "\"" + vis(s) + "\"x";
      while (from != std::string::npos) {
        size_t at = rep.key.find(needle, from);
        if (at == std::string::npos) break;
        if (rep.key[at - 1] == '(' || rep.key[at - 1] == ',') {
          nodes++;
          refs += size_t(atol(rep.key.c_str() + at + needle.size()));
        }
        from = at + needle.size();
      }
      if (nodes > 1) problems += "inspector: the pool holds the shared bytes " + std::to_string(nodes) + " times\n";
      if (refs > copiedUsers) problems += "inspector: reference count " + std::to_string(refs) + " exceeds the " + std::to_string(copiedUsers) + " users of these bytes\n";
      if (sc.mut != M_COPY) {
        Inspector::Report rep2 = Inspector::inspect(second);
        if (!rep2.errors.empty()) problems += "inspector: second document: " + rep2.errors + "\n";
      }
    }
#endif
  }
  std::string e = A.takeErrors() + B.takeErrors();
  if (!e.empty()) problems += "ledger: " + e + "\n";
  if (!A.live.empty() || !B.live.empty()) problems += "ledger: blocks live after destruction: " + A.liveSignature() + "/ " + B.liveSignature() + "\n";
  reportProblems(C, problems, "sharing");
}

inline void phaseB(Ctx& C, const std::vector<int>& strings, int maxUsers, const std::vector<int>& rotations) {
  const auto& S = alphabet();
  for (int si : strings) {
    if (S[si].bytes.size() > kMaxLen) continue;
    for (int k = 2; k <= maxUsers; k++) {
      int combos = 1;
      for (int i = 0; i < k; i++) combos *= NROLES;
      for (int combo = 0; combo < combos; combo++) {
        std::vector<Role> roles;
        int c = combo, nCopied = 0, nLinked = 0;
        bool expressible = true;
        for (int i = 0; i < k; i++) {
          Role r = Role(c % NROLES);
          c /= NROLES;
          roles.push_back(r);
          if (r == VL || r == KL) { nLinked++; if (S[si].hasNul) expressible = false; }
          else nCopied++;
        }
        if (!expressible) continue;
        std::set<std::string> seenKinds;  // rotations that produce the same kinds tuple are the same case
        for (int rot : rotations) {
          if (si == S_MAX && rot >= 7) continue;  // 7 rotations put every kind at every position; enough for the 64 KiB string
          {
            std::string tuple;
            for (int i = 0; i < k; i++) tuple += std::to_string(int(roles[size_t(i)] == RAW ? NKINDS : roleKind(roles[size_t(i)], i, rot, S[si].hasNul))) + ",";
            if (!seenKinds.insert(tuple).second) continue;
          }
          for (int m = 0; m < NMUTS; m++) {
            for (int j = 0; j < k; j++) {
              if ((m == M_NONE || m == M_COPY || m == M_REBUILD) && j > 0) continue;
              if (!C.take()) continue;
              if (C.expired()) return;
              ShareCase sc{si, roles, rot, Mut(m), j};
              std::string key = "str:s=" + S[si].name + "|use=share." + kMutName[m] + "@" + std::to_string(j) + "|roles=";
              std::string kinds;
              for (int i = 0; i < k; i++) {
                key += std::string(i ? "." : "") + kRoleName[roles[size_t(i)]];
                kinds += std::string(i ? "~" : "") + (roles[size_t(i)] == RAW ? "raw" : kKindName[roleKind(roles[size_t(i)], i, rot, S[si].hasNul)]);
              }
              key += "|kinds=" + kinds;
              C.begin(key);
              shareCase(C, sc);
              if ((nCopied && nLinked) || S[si].special) C.nontrivial();
              C.outcome(std::string("share.") + kMutName[m] + ":copied" + std::to_string(nCopied) + "+linked" + std::to_string(nLinked));
              C.end();
            }
          }
        }
      }
    }
  }
}

// ------------------------------------------------------------------------------------------- phase C: aliasing operands
// A SIZED operand (string_view, JsonString(p,n,Copied)) that is a prefix view INTO a buffer the library already
// knows: (held) the buffer of a key / value the document keeps by address, (pool) the buffer of a pooled copied
// string obtained through the read API, (operand) the source buffer of the operand that stored the string.
// Same start address, different length.  Oracle: the same history with the operand copied to a fresh buffer at
// another address must observe identically, plus the absolute lookup / stored-bytes model.
enum AliasWhere { W_HELD, W_POOL, W_OPERAND, NWHERE };
static const char* kWhereName[NWHERE] = {"held", "pool", "operand"};
enum AliasUse { AU_LOOKUP, AU_LOOKUP_WITH_PREFIX, AU_INSERT, AU_VALUE, AU_COMPARE, NALIASUSES };
static const char* kAliasUseName[NALIASUSES] = {"lookup", "lookupPrefixPresent", "insert", "value", "compare"};

template <class F>
inline void withSizedOperand(Kind k, const char* base, size_t n, F&& f) {
  if (k == StringView) { std::string_view sv(base, n); callWith(f, sv); }
  else { JsonString js(base, n, JsonString::Copied); callWith(f, js); }
}

struct AliasCase {
  int sIdx;
  size_t n;
  Kind kind;  // StringView or JsCopied
  AliasWhere where;
  AliasUse use;
};

inline RunResult runAlias(const AliasCase& ac, bool aliased) {
  const std::string& s = alphabet()[size_t(ac.sIdx)].bytes;
  const std::string p = s.substr(0, ac.n);
  const bool full = ac.n == s.size();
  const bool keyDoc = ac.use == AU_LOOKUP || ac.use == AU_LOOKUP_WITH_PREFIX || ac.use == AU_INSERT;
  Env E;
  E.operands = {1, 2, ac.sIdx};
  // buffers that outlive the document
  std::unique_ptr<char[]> held(new char[s.size() + 1]);
  memcpy(held.get(), s.c_str(), s.size() + 1);
  std::unique_ptr<char[]> fresh(new char[ac.n]);  // exactly n bytes, no terminator, another address
  memcpy(fresh.get(), s.data(), ac.n);
  LedgerAllocator A;
  {
    JsonDocument doc(&A);
    const char* base = nullptr;
    // the document gets to know s
    switch (ac.where) {
      case W_HELD: {
        const char* h = held.get();
        if (keyDoc) doc[h] = 11; else doc["a"] = h;
        base = h;
        break;
      }
      case W_POOL:
        if (keyDoc) {
          doc[s] = 11;
          for (JsonPair kv : doc.as<JsonObject>()) { base = kv.key().c_str(); break; }
        } else {
          doc["a"] = s;
          base = doc["a"].as<const char*>();
        }
        break;
      case W_OPERAND:
        withSizedOperand(ac.kind, held.get(), s.size(), [&](auto& whole) {
          if (keyDoc) doc[whole] = 11; else doc["a"] = whole;
        });
        base = held.get();
        break;
      default: break;
    }
    if (!base) { E.problem("stored-bytes", "the stored string cannot be read back"); base = held.get(); }
    if (ac.use == AU_LOOKUP_WITH_PREFIX && !full) doc[std::string(p)] = 22;  // the prefix itself is a member, after s
    doc[std::string("zz-unrelated")] = 33;
    const char* from = aliased ? base : fresh.get();
    // model
    std::vector<Member> m;
    if (keyDoc) {
      m.push_back({s, 11});
      if (ac.use == AU_LOOKUP_WITH_PREFIX && !full) m.push_back({p, 22});
      m.push_back({"zz-unrelated", 33});
    }
    std::string r;
    switch (ac.use) {
      case AU_LOOKUP:
      case AU_LOOKUP_WITH_PREFIX: {
        withSizedOperand(ac.kind, from, ac.n, [&](auto& x) {
          r += intOrNull(doc[x]) + ",";
          r += intOrNull(static_cast<const JsonDocument&>(doc)[x]) + ",";
          r += intOrNull(doc.as<JsonObjectConst>()[x]) + ",";
          r += intOrNull(doc.as<JsonVariantConst>()[x]) + ",";
          r += doc.containsKey(x) ? "1," : "0,";
          r += doc[x].template is<int>() ? "1," : "0,";
        });
        int at = modelFind(m, p);
        std::string v = at < 0 ? "" : std::to_string(m[size_t(at)].value);
        std::string want = at < 0 ? "?,?,?,?,0,0," : v + "," + v + "," + v + "," + v + ",1,1,";
        std::string got = r;
        if (at < 0) {  // unbound and null both mean absent
          got.clear();
          size_t i = 0;
          for (int f = 0; f < 4; f++) { size_t j = r.find(',', i); std::string e = r.substr(i, j - i); got += (e == "U" || e == "null") ? "?," : e + ","; i = j + 1; }
          got += r.substr(i);
        }
        if (got != want) E.problem("lookup", "lookups with the " + std::to_string(ac.n) + "-byte operand answered " + r + ", expected " + want);
        E.obs += "res=" + r + ";";
        // removal through the same operand
        withSizedOperand(ac.kind, from, ac.n, [&](auto& x) { doc.remove(x); });
        if (at >= 0) m.erase(m.begin() + at);
        break;
      }
      case AU_INSERT: {
        withSizedOperand(ac.kind, from, ac.n, [&](auto& x) { doc[x] = 2; });
        int at = modelFind(m, p);
        if (at >= 0) m[size_t(at)].value = 2; else m.push_back({p, 2});
        break;
      }
      case AU_VALUE: {
        bool ok = false;
        withSizedOperand(ac.kind, from, ac.n, [&](auto& x) { ok = doc["b"].set(x); });
        E.obs += ok ? "ok=1;" : "ok=0;";
        if (!ok) E.problem("stored-bytes", "set() reported failure");
        Found w{{true, "a"}, {false, s}, {true, "zz-unrelated"}, {true, "b"}, {false, p}};
        expectStrings(E, doc, w);
        break;
      }
      case AU_COMPARE: {
        withSizedOperand(ac.kind, from, ac.n, [&](auto& x) {
          JsonVariantConst cv = doc["a"];
          HXS_CMP12(r, cv, x);
          r += '/';
          HXS_CMP12(r, doc["a"], x);
        });
        E.obs += "cmp=" + r + ";";
        const char* wantEq = full ? "10" : "01";
        for (size_t b : {size_t(0), size_t(6), size_t(13), size_t(19)})
          if (r.compare(b, 2, wantEq) != 0) E.problem("compare-eq", "== / != answered " + r.substr(b, 2) + " at position " + std::to_string(b) + " of " + r);
        break;
      }
      default: break;
    }
    if (keyDoc) {
      Found f;
      for (auto& e : m) f.emplace_back(true, e.key);
      expectStrings(E, doc, f, ac.use == AU_INSERT ? "stored-bytes" : "lookup");
      for (auto& e : m)
        if (doc[e.key] != e.value) E.problem(ac.use == AU_INSERT ? "stored-bytes" : "lookup", "member " + vis(compact(e.key)) + " does not hold " + std::to_string(e.value));
    }
    observeDoc(E, doc, "doc");
    E.outcome = full ? "whole" : (ac.n == 0 ? "empty-prefix" : "proper-prefix");
  }
  ledgerEnd(E, A);
  return {E.obs, E.problems, E.outcome};
}

inline void phaseC(Ctx& C, const std::vector<int>& strings) {
  const auto& S = alphabet();
  for (int si : strings) {
    const std::string& s = S[size_t(si)].bytes;
    if (s.size() < 2 || s.size() > kMaxLen) continue;
    std::vector<size_t> lens;
    if (s.size() <= 64) for (size_t n = 0; n <= s.size(); n++) lens.push_back(n);
    else lens = {0, 1, 2, 31, 32, s.size() / 2, s.size() - 2, s.size() - 1, s.size()};
    for (size_t n : lens)
      for (Kind k : {StringView, JsCopied})
        for (int w = 0; w < NWHERE; w++)
          for (int u = 0; u < NALIASUSES; u++) {
            if (w == W_HELD && S[size_t(si)].hasNul) continue;  // a by-address holder cannot express the NUL string
            if (!C.take()) continue;
            if (C.expired()) return;
            AliasCase ac{si, n, k, AliasWhere(w), AliasUse(u)};
            std::string key = "str:s=" + S[size_t(si)].name + "|use=alias." + kAliasUseName[u] + "|n=" + std::to_string(n) + "|kinds=" +
                              kKindName[k] + ".fresh~" + kKindName[k] + "." + kWhereName[w];
            C.begin(key);
            RunResult ref = runAlias(ac, false), ali = runAlias(ac, true);
            reportProblems(C, ref.problems, "fresh-buffer");
            reportProblems(C, ali.problems, "aliasing");
            if (ref.obs != ali.obs) C.failKey(key + "|c=differential", "differential", "operand at the address of a known buffer vs. at a fresh address: " + firstDiff(ref.obs, ali.obs));
            C.nontrivial();
            C.outcome(std::string("alias.") + kAliasUseName[u] + ":" + kWhereName[w] + ":" + ali.outcome);
            C.end();
          }
  }
}

// ------------------------------------------------------------------------------------------- entry point
inline void run(Ctx& C) {
  const bool T = C.thorough();
  std::vector<int> strings, operands;
  for (int i = 0; i < S_COUNT; i++)
    if (T || i < S_MAX) strings.push_back(i);
  std::string only = C.opt("string");
  if (!only.empty()) {
    strings.clear();
    for (int i = 0; i < S_COUNT; i++) if (alphabet()[size_t(i)].name == only) strings.push_back(i);
  }
  std::string phase = C.opt("phase", "ABC");
  if (phase.find('A') != std::string::npos) {
    if (T) {
      for (int i = 0; i < S_COUNT; i++) operands.push_back(i);
      phaseA(C, strings, operands);
    } else {
      // reduced operand matrix: the string itself plus the short / NUL / high-byte / numeric representatives
      for (int si : strings) {
        operands = {0, 1, 2, S_NUL, 4, 5};
        if (std::find(operands.begin(), operands.end(), si) == operands.end()) operands.push_back(si);
        phaseA(C, {si}, operands);
      }
    }
  }
#if HXS_IN(5)
  if (phase.find('C') != std::string::npos) phaseC(C, strings);
#endif
#if HXS_IN(6)
  if (phase.find('B') != std::string::npos) {
    std::vector<int> rots;
    if (T) for (int r = 0; r < 35; r++) rots.push_back(r);
    else rots = {0, 3};
    phaseB(C, strings, T ? 3 : 2, rots);
  }
#endif
  C.bound(std::string("strings {empty,a,ab,a\\0b,\\x80\\xff,42,-7.5,1e3,3.25,12345678901234567890,' 1',true,31 bytes,32 bytes") +
          (T ? ",65535 bytes,65536 bytes (refusal only)}" : "}") +
          " x 12 source kinds {literal,const char*,char*,char[N],std::string,string_view,JsonString Copied,JsonString(p,Linked),"
          "JsonString(p),JsonString(p,strlen),Arduino String,flash} x 47 uses over six jobs (14 value, 10 key, 16 lookup x 4 populations, "
          "12 comparison operators x 2 sides on JsonVariantConst and MemberProxy (4 on JsonVariant, null, integer and unbound operands) x operand set, 6 copy paths) x {plain, source overwritten, source destroyed}; "
          "aliasing operands: every s with |s| >= 2 x every prefix length 0..|s| (9 boundary lengths for the 65535-byte string) x "
          "{string_view, JsonString Copied} x view into {buffer held by address, pooled node, source of the storing operand} x "
          "{lookup, lookup with the prefix present, insertion key, value source, comparison operand}, each against the same history with "
          "the operand at a fresh address; sharing grid: " + (T ? "2..3" : "2") + " users x 5 roles x 9 mutations x " + (T ? "35 kind rotations (7 for the 65535-byte string)" : "2 kind rotations"));
}

}  // namespace hx_strings
