#include "nx_compare.hpp"
int main(int argc, char** argv) {
  verif::Ctx C(argc, argv);
  nx_compare::run(C);
  return C.finish();
}
