#if !(defined(ARDUINOJSON_ENABLE_ARDUINO_STRING) && ARDUINOJSON_ENABLE_ARDUINO_STRING)
#  include "lib_heap.hpp"  // must come first: counts the library's own malloc/realloc/free calls
#endif
#include "hx.hpp"
#include "hx_fault.hpp"
#include "hx_limits.hpp"
int main(int argc, char** argv) {
  verif::Ctx C(argc, argv);
  if (C.mode == "bfs") hx::runLevel(C);
  else if (C.mode == "fault") hx::runFault(C);
  else if (C.mode == "limits") hx::runLimits(C);
  else { fprintf(stderr, "unknown mode %s\n", C.mode.c_str()); return 3; }
  return C.finish();
}
