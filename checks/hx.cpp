#include "hx.hpp"
int main(int argc, char** argv) {
  verif::Ctx C(argc, argv);
  if (C.mode == "bfs") hx::runLevel(C);
  else { fprintf(stderr, "unknown mode %s\n", C.mode.c_str()); return 3; }
  return C.finish();
}
