// C10 — deserializeJson accepts exactly the documented dialect and classifies the rest.
// All token sequences up to a length over a JSON token alphabet, judged by the independent recogniser.
#pragma once
#include <ArduinoJson.h>

#include "common.hpp"
#include "dialect.hpp"
#include "model.hpp"
#include "refjson.hpp"

namespace ix_dialect {
using namespace ArduinoJson;
using namespace verif;

inline std::vector<std::string> coreTokens() {
  return {"[", "]", "{", "}", ",", ":", " ", "\"a\"", "'a'", "a", "1", "true", "null", "\""};
}
inline std::vector<std::string> fullTokens() {
  std::vector<std::string> t = coreTokens();
  for (const char* s : {"\"\"", "-1", "1.5", "1e2", "false", "tru", "\"\\", "\"\\u00", "\"\\u00:0\"", "\"\\u00`0\"", "\"\\x\"", "\"\\n\"",
                        "//", "/*x*/", "/*", "\n", "NaN", "Infinity", "-Infinity", "+", "-", ".", "1e", "1.5.5", "1-2", "007", ".5", "5.",
                        "+5", "\"\\u00e9\"", "\"\\ud83d\\ude00\"", "b"})
    t.push_back(s);
  return t;
}

inline int libCode(DeserializationError e) {
  switch (e.code()) {
    case DeserializationError::Ok: return dialect::OK;
    case DeserializationError::EmptyInput: return dialect::EMPTY;
    case DeserializationError::IncompleteInput: return dialect::INCOMPLETE;
    case DeserializationError::InvalidInput: return dialect::INVALID;
    case DeserializationError::NoMemory: return dialect::NOMEMORY;
    case DeserializationError::TooDeep: return dialect::TOODEEP;
  }
  return 0;
}

inline void judge(Ctx& C, const std::string& text, int limit, uint64_t& dontCare, std::map<std::string, uint64_t>& zones) {
  dialect::Options o;
  o.comments = ARDUINOJSON_ENABLE_COMMENTS;
  o.nan = ARDUINOJSON_ENABLE_NAN;
  o.inf = ARDUINOJSON_ENABLE_INFINITY;
  o.unicode = ARDUINOJSON_DECODE_UNICODE;
  o.limit = limit;
  dialect::Result R = dialect::recognise(text, o);
  JsonDocument doc;
  DeserializationError err = deserializeJson(doc, text.c_str(), DeserializationOption::NestingLimit(uint8_t(limit)));
  int code = libCode(err);
  if (!R.zone.empty()) zones[R.zone]++;
  C.outcome(std::string(err.c_str()) + (R.accept == dialect::ANY ? "/dontcare" : "/judged") + "@" + std::to_string(limit));
  if (R.accept == dialect::ANY) {
    dontCare++;
    return;
  }
  if (!(code & R.accept)) {
    C.failKey(C.curKey + "|limit=" + std::to_string(limit), "classification",
              std::string("returned ") + err.c_str() + ", the dialect says " + dialect::setName(R.accept));
    return;
  }
  if (code == dialect::OK && R.valueKnown) {
    MValue got = extract(doc.as<JsonVariantConst>());
    std::string why, why2;
    if (!refjson::matches(got, refjson::dedup(R.value, true), why) && !refjson::matches(got, refjson::dedup(R.value, false), why2))
      C.failKey(C.curKey + "|limit=" + std::to_string(limit), "value", why);
    std::string obs = obsReal(doc.as<JsonVariantConst>());
    size_t bang = obs.find('!');
    if (bang != std::string::npos) C.failKey(C.curKey + "|limit=" + std::to_string(limit), "api-consistency", obs.substr(bang, 40));
    if (doc.nesting() > size_t(limit)) C.failKey(C.curKey, "nesting", "nesting() above the limit after Ok");
  }
}

inline std::string cfgTag() {
  return std::string("c") + char('0' + ARDUINOJSON_ENABLE_COMMENTS) + "n" + char('0' + ARDUINOJSON_ENABLE_NAN) + "i" +
         char('0' + ARDUINOJSON_ENABLE_INFINITY) + "u" + char('0' + ARDUINOJSON_DECODE_UNICODE);
}

inline void enumerate(Ctx& C, const std::vector<std::string>& toks, int n, const char* name, uint64_t& dontCare,
                      std::map<std::string, uint64_t>& zones, uint64_t& total) {
  std::vector<size_t> idx;
  std::string cfg = cfgTag();
  // all sequences of length 1..n (odometer), skipping those already covered by a shorter alphabet is not attempted
  for (int len = 1; len <= n; len++) {
    idx.assign(size_t(len), 0);
    for (;;) {
      if (C.expired()) return;
      if (C.take()) {
        std::string text;
        for (size_t k : idx) text += toks[k];
        C.begin("in:json:" + vis(text) + "|cfg=" + cfg + "|alphabet=" + name);
        total++;
        uint64_t before = dontCare;
        judge(C, text, 10, dontCare, zones);
        judge(C, text, 2, dontCare, zones);  // a limit that a sibling container reaches again after an earlier one was closed
        judge(C, text, 1, dontCare, zones);
        if (dontCare == before && len >= 2) C.nontrivial();
        C.end();
      }
      int k = len - 1;
      while (k >= 0 && ++idx[size_t(k)] == toks.size()) idx[size_t(k--)] = 0;
      if (k < 0) break;
    }
  }
}

// character-level micro-alphabets: every string up to a length over a handful of characters that drive one lexical
// sub-automaton (comments, string escapes, numbers), prefixed so that they sit at top level and inside an array
inline void microAlphabets(Ctx& C, int len, uint64_t& dontCare, std::map<std::string, uint64_t>& zones, uint64_t& total) {
  struct Micro { const char* name; std::string chars; };
  std::vector<Micro> micros = {
      {"comment", std::string("/*a1\n]")},
      {"string", std::string("\"'\\u0a")},
      {"number", std::string("10.e-+")},
  };
  std::string cfg = cfgTag();
  for (auto& m : micros) {
    if (std::string(m.name) == "comment" && !ARDUINOJSON_ENABLE_COMMENTS) continue;
    for (int n = 1; n <= len; n++) {
      std::vector<size_t> idx(size_t(n), 0);
      for (;;) {
        if (C.expired()) return;
        if (C.take()) {
          std::string body;
          for (size_t k : idx) body.push_back(m.chars[k]);
          for (const char* prefix : {"", "[", "[1"}) {
            std::string text = std::string(prefix) + body;
            C.begin("in:json:" + vis(text) + "|cfg=" + cfg + "|alphabet=" + m.name);
            total++;
            uint64_t before = dontCare;
            judge(C, text, 10, dontCare, zones);
            if (dontCare == before) C.nontrivial();
            C.end();
          }
        }
        int k = n - 1;
        while (k >= 0 && ++idx[size_t(k)] == m.chars.size()) idx[size_t(k--)] = 0;
        if (k < 0) break;
      }
    }
  }
}

// number tokens around the documented 63-character limit (and well beyond), in every position a value can take
inline void longNumbers(Ctx& C, uint64_t& dontCare, std::map<std::string, uint64_t>& zones, uint64_t& total) {
  std::string cfg = cfgTag();
  std::vector<size_t> lens;
  for (size_t n = 58; n <= 70; n++) lens.push_back(n);
  for (size_t n : {size_t(126), size_t(127), size_t(128), size_t(129), size_t(255), size_t(256), size_t(257), size_t(1000)}) lens.push_back(n);
  for (size_t n : lens) {
    for (int shape = 0; shape < 5; shape++) {
      std::string num;
      switch (shape) {
        case 0: num = std::string(n, '1'); break;                                   // digits only
        case 1: num = "0." + std::string(n - 3, '0') + "1"; break;                  // long fraction
        case 2: num = "-" + std::string(n - 5, '7') + "e-10"; break;                // sign and exponent
        case 3: num = std::string(n - 2, '9') + ".5"; break;
        default: num = "1" + std::string(n - 1, '0'); break;
      }
      for (const char* ctx : {"%s", "[%s]", "[1,%s]", "{\"a\":%s}", " %s ", "[[%s]]"}) {
        if (!C.take()) continue;
        std::string text = ctx;
        text.replace(text.find("%s"), 2, num);
        C.begin("in:json:longnum|len=" + std::to_string(n) + "|shape=" + std::to_string(shape) + "|ctx=" + ctx + "|cfg=" + cfg);
        total++;
        uint64_t before = dontCare;
        judge(C, text, 10, dontCare, zones);
        if (dontCare == before) C.nontrivial();
        C.end();
      }
    }
  }
}

// every byte value substituted for, and inserted before, every position of a few accepted texts that together contain every
// syntactic position (inside strings and keys, around separators, inside numbers and literals, in comments when enabled)
inline void byteMutations(Ctx& C, uint64_t& dontCare, std::map<std::string, uint64_t>& zones, uint64_t& total) {
  std::string cfg = cfgTag();
  std::vector<std::string> bases = {"{\"ab\":[1,-2.5e3,true,null],\"c\":\"d\\n\\u0041e\"}", "[ \"x\" , 'y' , {k:false} ]", " {\"a\" : { \"b\" : [ ] } } ", "\"plain\"",
                                    "[1.0,0,-1e-2]", "{'a':'b'}"};
#if ARDUINOJSON_ENABLE_COMMENTS
  bases.push_back("/*c*/[1,//d\n2]/**/");
  bases.push_back("{//x\n\"a\"/*y*/:/*z*/1}");
#endif
#if ARDUINOJSON_ENABLE_NAN
  bases.push_back("[NaN,1]");
#endif
#if ARDUINOJSON_ENABLE_INFINITY
  bases.push_back("[-Infinity,Infinity]");
#endif
  for (size_t bi = 0; bi < bases.size(); bi++) {
    const std::string& base = bases[bi];
    for (size_t pos = 0; pos <= base.size(); pos++) {
      for (int mode = 0; mode < 2; mode++) {  // 0 substitute, 1 insert
        if (mode == 0 && pos == base.size()) continue;
        for (int v = 1; v < 256; v++) {
          if (mode == 0 && (unsigned char)base[pos] == v) continue;
          if (!C.take()) continue;
          std::string text = base;
          if (mode == 0) text[pos] = char(v);
          else text.insert(text.begin() + long(pos), char(v));
          C.begin("in:json:" + vis(text) + "|cfg=" + cfg + "|alphabet=byte-" + (mode ? "insert" : "subst"));
          total++;
          uint64_t before = dontCare;
          judge(C, text, 10, dontCare, zones);
          if (dontCare == before) C.nontrivial();
          C.end();
        }
      }
    }
  }
}

// unquoted keys: every string <= 3 over characters at the edges of the identifier class, as the key of {<key>:1}
inline void keyAlphabet(Ctx& C, uint64_t& dontCare, std::map<std::string, uint64_t>& zones, uint64_t& total) {
  std::string cfg = cfgTag();
  const std::string chars = std::string("aZ9_$-.`@ ") + char(0x7f) + char(0xc3) + char(0x01);
  for (int n = 1; n <= 3; n++) {
    std::vector<size_t> idx(size_t(n), 0);
    for (;;) {
      if (C.take()) {
        std::string body;
        for (size_t k : idx) body.push_back(chars[k]);
        for (const char* ctx : {"{%s:1}", "{%s :1}", "[{a:1,%s:2}]"}) {
          std::string text = ctx;
          text.replace(text.find("%s"), 2, body);
          C.begin("in:json:" + vis(text) + "|cfg=" + cfg + "|alphabet=key");
          total++;
          uint64_t before = dontCare;
          judge(C, text, 10, dontCare, zones);
          if (dontCare == before) C.nontrivial();
          C.end();
        }
      }
      int k = n - 1;
      while (k >= 0 && ++idx[size_t(k)] == chars.size()) idx[size_t(k--)] = 0;
      if (k < 0) break;
    }
  }
}

inline void run(Ctx& C) {
  int nFull = atoi(C.opt("full", "3").c_str()), nCore = atoi(C.opt("core", "5").c_str());
  uint64_t dontCare = 0, total = 0;
  std::map<std::string, uint64_t> zones;
  auto full = fullTokens(), core = coreTokens();
  enumerate(C, full, nFull, "full", dontCare, zones, total);
  enumerate(C, core, nCore, "core", dontCare, zones, total);
  int nMicro = atoi(C.opt("micro", "6").c_str());
  microAlphabets(C, nMicro, dontCare, zones, total);
  longNumbers(C, dontCare, zones, total);
  byteMutations(C, dontCare, zones, total);
  keyAlphabet(C, dontCare, zones, total);
  C.metrics["sequences"] += double(total);
  C.metrics["dontcare_verdicts"] += double(dontCare);
  for (auto& kv : zones) C.metrics["zone:" + kv.first] += double(kv.second);
  // outcome histogram is expensive per case; summarise by zone instead
  C.bound("all token sequences of length <= " + std::to_string(nFull) + " over the " + std::to_string(full.size()) + "-token alphabet and length <= " +
          std::to_string(nCore) + " over the " + std::to_string(core.size()) + "-token core, nesting limits 10, 2 and 1; all strings of length <= " + std::to_string(nMicro) +
          " over three character-level micro-alphabets (comment: / * a 1 LF ]; string: \" ' \\ u 0 a; number: 1 0 . e - +) at top level and inside an array; every byte value substituted at / inserted before every position of 6..10 accepted texts; every unquoted key <= 3 over 13 identifier-edge characters; build " + cfgTag());
}
}  // namespace ix_dialect
