// C11 — filtering equals projecting the unfiltered result; filter `true` is the identity on every input;
// filtering never requests more memory than the unfiltered run and never crashes.
#pragma once
#include <ArduinoJson.h>

#include "common.hpp"
#include "gen.hpp"
#include "ledger_alloc.hpp"
#include "model.hpp"
#include "refjson.hpp"
#include "refmsgpack.hpp"

namespace ix_filter {
using namespace ArduinoJson;
using namespace verif;

// ---- semantics of a filter document, written from the statement
inline bool truthy(const MValue* f) {
  if (!f) return false;
  switch (f->kind) {
    case MValue::Null: return false;
    case MValue::Bool: return f->b;
    case MValue::Int: return f->i != 0;
    case MValue::F32: case MValue::F64: return f->asDouble() != 0;
    default: return true;
  }
}
inline bool equalsTrue(const MValue* f) {
  if (!f) return false;
  if (f->kind == MValue::Bool) return f->b;
  if (f->kind == MValue::Int) return f->i == 1;
  if (f->isFloat()) return f->asDouble() == 1.0;
  return false;
}
// member filter for key k: the listed entry, or "*" when the entry is absent or null
inline const MValue* memberFilter(const MValue* f, const std::string& k) {
  const MValue* m = f->member(k);
  if (m && m->kind != MValue::Null) return m;
  return f->member("*");
}

// project(filter, value): nullptr filter = absent
inline MValue project(const MValue* f, const MValue& v) {
  if (!truthy(f)) return MValue::null();
  if (equalsTrue(f)) return v;
  if (v.kind == MValue::Arr) {
    if (f->kind != MValue::Arr) return MValue::null();  // kind not admitted
    MValue r = MValue::array();
    const MValue* e = f->a.empty() ? nullptr : &f->a[0];
    if (truthy(e))
      for (auto& x : v.a) r.a.push_back(project(e, x));
    return r;
  }
  if (v.kind == MValue::Obj) {
    if (f->kind != MValue::Obj) return MValue::null();
    MValue r = MValue::object();
    for (auto& kv : v.o) {
      const MValue* mf = memberFilter(f, kv.first);
      if (truthy(mf)) r.o.emplace_back(kv.first, project(mf, kv.second));
    }
    return r;
  }
  return MValue::null();  // scalar under a filter that is not `true`
}

struct CountingReader {
  const char* p;
  size_t n;
  size_t* pos;
  int read() {
    if (*pos >= n) return -1;
    return (unsigned char)p[(*pos)++];
  }
  size_t readBytes(char* dst, size_t len) {
    size_t k = 0;
    while (k < len && *pos < n) dst[k++] = p[(*pos)++];
    return k;
  }
};

struct RunResult {
  DeserializationError::Code code;
  MValue value;
  size_t consumed = 0, peak = 0, total = 0;
  std::string problems;
};

enum FilterMode { NONE, AS_DOC, AS_VARIANT };
static bool gOneMode = false;

inline RunResult runOnce(bool msgpack, const std::string& input, const MValue* filter, FilterMode mode, int limit = 10) {
  RunResult R;
  LedgerAllocator A;
  {
    JsonDocument fdoc;
    if (filter) build(fdoc.to<JsonVariant>(), *filter);
    JsonDocument doc(&A);
    size_t pos = 0;
    char* block = static_cast<char*>(malloc(input.size() ? input.size() : 1));
    memcpy(block, input.data(), input.size());
    CountingReader rd{block, input.size(), &pos};
    DeserializationError err;
    auto nl = DeserializationOption::NestingLimit(uint8_t(limit));
    if (mode == NONE) {
      err = msgpack ? deserializeMsgPack(doc, rd, nl) : deserializeJson(doc, rd, nl);
    } else if (mode == AS_DOC) {
      err = msgpack ? deserializeMsgPack(doc, rd, DeserializationOption::Filter(fdoc), nl)
                    : deserializeJson(doc, rd, DeserializationOption::Filter(fdoc), nl);
    } else {
      JsonVariantConst fv = fdoc.as<JsonVariantConst>();
      err = msgpack ? deserializeMsgPack(doc, rd, DeserializationOption::Filter(fv), nl)
                    : deserializeJson(doc, rd, DeserializationOption::Filter(fv), nl);
    }
    free(block);
    R.code = err.code();
    R.consumed = pos;
    R.peak = A.peakBytes;
    R.total = A.totalRequested;
    std::string obs = obsReal(doc.as<JsonVariantConst>());
    size_t bang = obs.find('!');
    if (bang != std::string::npos) R.problems += "api inconsistency " + obs.substr(bang, 40) + "; ";
    R.value = extract(doc.as<JsonVariantConst>());
    std::string tmp;
    serializeJson(doc, tmp);
    doc.clear();
    if (deserializeJson(doc, "[1]") != DeserializationError::Ok) R.problems += "document not reusable; ";
    R.problems += A.takeErrors();
  }
  if (!A.live.empty()) R.problems += "blocks live after destruction; ";
  return R;
}

inline std::vector<MValue> inputLeaves() {
  MValue f = MValue::f64(1.5);
  f.s = "1.5";
  MValue one = MValue::integer(1);
  one.s = "1";
  // bin / ext values exist in MessagePack only (inputs containing them are not rendered as JSON)
  return {MValue::null(), MValue::boolean(true), one, MValue::str("s"), f, MValue::raw(refmp::makeBin(std::string("\x01\x02", 2))),
          MValue::raw(refmp::makeExt(5, "x"))};
}
inline bool hasRaw(const MValue& m) {
  if (m.kind == MValue::Raw) return true;
  for (auto& e : m.a) if (hasRaw(e)) return true;
  for (auto& kv : m.o) if (hasRaw(kv.second)) return true;
  return false;
}
inline std::vector<MValue> filterLeaves() {
  return {MValue::boolean(true), MValue::boolean(false), MValue::null(), MValue::integer(0), MValue::integer(1), MValue::integer(2),
          MValue::f64(1.0), MValue::str("x")};
}

inline void pairCheck(Ctx& C, bool msgpack, const std::string& input, const RunResult& U, const MValue& filter, const std::string& fkey, int limit = 10) {
  std::string fmt = msgpack ? "msgpack" : "json";
  for (FilterMode mode : {AS_DOC, AS_VARIANT}) {
    if (limit != 10 && mode == AS_DOC) continue;  // the exact-depth runs use one filter mode
    RunResult F = runOnce(msgpack, input, &filter, mode, limit);
    std::string key = "filter:fmt=" + fmt + "|in=" + (msgpack ? hex(input) : vis(input)) + "|filter=" + fkey + "|mode=" + (mode == AS_DOC ? "doc" : "variant") +
                      (limit != 10 ? "|limit=" + std::to_string(limit) : "");
    if (!F.problems.empty()) C.failKey(key, "safety", F.problems);
    if (U.code == DeserializationError::Ok) {
      if (F.code != DeserializationError::Ok) {
        C.failKey(key, "filtered-not-ok", std::string("unfiltered run is Ok, filtered run returned ") + DeserializationError(F.code).c_str());
        continue;
      }
      MValue want = project(&filter, U.value);
      if (mtext(F.value) != mtext(want))
        C.failKey(key, "projection", "got " + mtext(F.value).substr(0, 200) + " want " + mtext(want).substr(0, 200));
    }
    if (F.consumed <= U.consumed) {
      // "never requests more memory": judged on the peak of live bytes.  The cumulative number of bytes requested is
      // only recorded: it depends on how often the scratch string buffer happens to be reused, e.g. a discarded key
      // leaves a 1-byte buffer behind that the next, longer key has to replace (see DESIGN section 10).
      if (F.peak > U.peak)
        C.failKey(key, "memory", "filtered run peak=" + std::to_string(F.peak) + " bytes, unfiltered peak=" + std::to_string(U.peak));
      if (F.total > U.total) C.metrics["filtered_runs_with_larger_cumulative_request"] += 1;
    }
    if (mode == AS_DOC && (gOneMode || C.flag("one-mode"))) break;
  }
}

inline void run(Ctx& C) {
  const bool T = C.thorough();
  int Ni = atoi(C.opt("input-nodes", T ? "5" : "4").c_str()), Nf = atoi(C.opt("filter-nodes", T ? "4" : "3").c_str());
  TreeGen GI;
  GI.leavesTop = inputLeaves();
  GI.keys = {"a", "b", "c", "*", std::string("a\0b", 3)};
  TreeGen GF;
  GF.leavesTop = filterLeaves();
  GF.keys = {"a", "b", "*"};
  std::vector<MValue> filters;
  GF.upTo(Nf, [&](const MValue& f) { filters.push_back(f); });
  uint64_t pairs = 0;
  // ---- 1. all (input, filter) pairs over the two tree generators, JSON and MessagePack
  bool withLimitPass = true;
  auto perInput = [&](const MValue& in) {
    if (C.expired()) return;
    if (!C.take()) return;
    refjson::PrintOpt po;
    std::string json = hasRaw(in) ? std::string() : refjson::printDoc(in, po);
    std::string mp = refmp::encode(in);
    C.begin("filter-input:" + (hasRaw(in) ? "msgpack:" + hex(mp) : vis(json)));
    if (in.kind == MValue::Arr || in.kind == MValue::Obj) C.nontrivial();
    for (int fmt = 0; fmt < 2; fmt++) {
      if (fmt == 0 && hasRaw(in)) continue;
      const std::string& input = fmt ? mp : json;
      RunResult U = runOnce(fmt != 0, input, nullptr, NONE);
      if (U.code != DeserializationError::Ok) {
        C.fail("generator", "unfiltered run of a generated valid input is not Ok");
        continue;
      }
      for (auto& f : filters) {
        pairs++;
        pairCheck(C, fmt != 0, input, U, f, mtext(f));
      }
      // the same pairs with the nesting limit set to exactly the depth of the input: still Ok, still the projection
      if (!withLimitPass) continue;
      int depth = int(in.nesting());
      RunResult U2 = runOnce(fmt != 0, input, nullptr, NONE, depth);
      if (U2.code != DeserializationError::Ok) C.fail("generator", "unfiltered run at limit == depth is not Ok");
      else
        for (auto& f : filters) {
          pairs++;
          pairCheck(C, fmt != 0, input, U2, f, mtext(f), depth);
        }
    }
    C.end();
  };
  GI.upTo(Ni, perInput);
  int bigN = atoi(C.opt("big-input-nodes", "0").c_str());
  if (bigN > Ni) {
    // larger inputs: JSON-expressible leaves only, default nesting limit only
    TreeGen GB = GI;
    GB.leavesTop.resize(5);
    withLimitPass = false;
    for (int k = Ni + 1; k <= bigN; k++) GB.exact(k, 0, perInput);
    C.bound("plus all inputs with " + std::to_string(Ni + 1) + ".." + std::to_string(bigN) + " nodes over the 5 JSON-expressible leaves at the default nesting limit");
  }
  // ---- 1b. what the skip routines see: other spellings of the same leaves (escapes, both quote kinds, signs and exponent
  //          marks, literals, whitespace, unquoted keys) and long / wide MessagePack values, each embedded in the shapes that
  //          put it in a discarded member, a discarded element, below a discarded container and in a discarded key
  const std::string spell = C.opt("spellings", "all");  // all | width (MessagePack header widths only) | none
  if (spell != "none") {
    // filters of this pass: every filter with <= 2 nodes and every deeper chain ({"a":{..}}, [[..]], ...)
    std::vector<MValue> sfilters;
    for (auto& f : filters)
      if (f.nodes() <= 2 || f.nesting() >= 2) sfilters.push_back(f);
    auto perText = [&](bool msgpack, const std::string& input, const std::string& label) {
      if (C.expired()) return;
      if (!C.take()) return;
      C.begin("filter-spelling:" + label + ":" + (msgpack ? hex(input.substr(0, 40)) + (input.size() > 40 ? "..(" + std::to_string(input.size()) + " bytes)" : "") : vis(input)));
      RunResult U = runOnce(msgpack, input, nullptr, NONE);
      if (U.code != DeserializationError::Ok) {
        C.outcome("spelling-not-accepted-unfiltered");  // not a valid input of this dialect: outside "every well-formed input"
        C.end();
        return;
      }
      C.nontrivial();
      gOneMode = input.size() > 4096;  // very long inputs: one filter mode
      for (auto& f : sfilters) {
        pairs++;
        pairCheck(C, msgpack, input, U, f, mtext(f));
      }
      gOneMode = false;
      C.end();
    };
    const char* jsonLeaves[] = {"\"\\\\\"", "\"\\\"\"", "\"'\"", "'\"'", "'a'", "'\\''", "\"C:\\\\tmp\\\\\"", "\"\\u00e9\\ud83d\\ude00\"", "\"a\\nb\\/\"",
                                "-1", "1e+2", "1E2", "1E+2", "1e-1", "-0.5", "+1", "0", "1.5e300", "18446744073709551615", "-9223372036854775808",
                                "false", "null", "true", " 1 ", "[ 1 , 2 ]", "{ \"a\" : 1 }", "[]", "{}"};
    for (const char* L : jsonLeaves) {
      if (spell != "all") break;
      std::string l = L;
      perText(false, "{\"a\":" + l + ",\"b\":1}", "member");
      perText(false, "[" + l + ",1]", "element");
      perText(false, "{\"a\":[" + l + "],\"b\":1}", "below-array");
      perText(false, "{\"a\":{\"b\":" + l + "},\"c\":1}", "below-object");
      perText(false, "{\"c\":{\"a\":" + l + ",\"b\":2},\"a\":" + l + "}", "twice");
    }
    const char* jsonKeys[] = {"\"\\\\\"", "\"\\\"\"", "'k'", "k", "\"\\u00e9\"", "\"a b\"", "\"'\""};
    for (const char* K : jsonKeys) {
      if (spell != "all") break;
      std::string k = K;
      perText(false, "{\"a\":{" + k + ":1},\"b\":1}", "key-below");
      perText(false, "{" + k + ":1,\"b\":1}", "key");
      perText(false, "[{" + k + ":[1]},1]", "key-in-element");
    }
    // JSON objects that repeat a key (the last occurrence wins in the unfiltered run, so it must win in the projection too):
    // every ordered pair of values of different and equal kinds, in four shapes
    if (spell == "all") {
      const char* dupValues[] = {"1", "\"s\"", "null", "true", "[1]", "[]", "{\"a\":1}", "{\"b\":1}", "{}", "[{\"a\":1}]"};
      for (const char* X : dupValues)
        for (const char* Y : dupValues) {
          std::string x = X, y = Y;
          perText(false, "{\"a\":" + x + ",\"a\":" + y + "}", "dup");
          perText(false, "{\"a\":" + x + ",\"b\":1,\"a\":" + y + "}", "dup-apart");
          perText(false, "[{\"a\":" + x + ",\"a\":" + y + "}]", "dup-in-element");
          perText(false, "{\"b\":{\"a\":" + x + ",\"a\":" + y + "}}", "dup-below");
        }
    }
    // MessagePack: long payloads (around the 32-byte and the 8/16/32-bit header boundaries) and every header width of the short leaves
    std::vector<MValue> wide;
    for (size_t n : std::vector<size_t>{31, 32, 33, 64, 255, 256, 65535 > detail::StringNode::maxLength ? size_t(200) : size_t(65535)}) wide.push_back(MValue::str(std::string(n, 'w')));
    for (size_t n : std::vector<size_t>{32, 256}) {
      wide.push_back(MValue::raw(refmp::makeBin(std::string(n, 'b'))));
      wide.push_back(MValue::raw(refmp::makeExt(7, std::string(n, 'e'))));
    }
    wide.push_back(MValue::raw(refmp::makeExt(7, std::string(31, 'e'))));
    auto shapes = [&](const MValue& leaf, const std::function<void(const MValue&, const char*)>& f) {
      MValue one = MValue::integer(1);
      MValue m = MValue::object();
      m.o.emplace_back("a", leaf);
      m.o.emplace_back("b", one);
      f(m, "member");
      MValue e = MValue::array();
      e.a = {leaf, one};
      f(e, "element");
      MValue inner = MValue::array();
      inner.a = {leaf};
      MValue ba = MValue::object();
      ba.o.emplace_back("a", inner);
      ba.o.emplace_back("b", one);
      f(ba, "below-array");
      MValue io = MValue::object();
      io.o.emplace_back("b", leaf);
      MValue bo = MValue::object();
      bo.o.emplace_back("a", io);
      bo.o.emplace_back("c", one);
      f(bo, "below-object");
    };
    if (spell == "all")
      for (auto& w : wide) shapes(w, [&](const MValue& t, const char* label) { perText(true, refmp::encode(t), std::string("wide-") + label); });
    {
      MValue neg = MValue::integer(-1), f15 = MValue::f64(1.5), str = MValue::str("s"), big = MValue::integer(300);
      for (const MValue* leaf : {&neg, &f15, &str, &big})
        shapes(*leaf, [&](const MValue& t, const char* label) {
          std::set<std::string> seen;
          refmp::encodings(t, 1, [&](const std::string& bytes, const std::string&) {
            if (seen.insert(bytes).second) perText(true, bytes, std::string("width-") + label);
          });
        });
    }
    C.bound("skip routines: 28 further JSON leaf spellings x 5 shapes and 7 key spellings x 3 shapes, JSON objects repeating a key with every ordered pair of 10 values x 4 shapes, MessagePack payloads of 31..65535 bytes x 4 shapes and every "
            "header width of int / float / str leaves (<= 1 non-minimal node, and all maximal), each against " + std::to_string(sfilters.size()) + " filters (all with <= 2 nodes, all deeper chains)");
  }
  // ---- 2. filter `true` is the identity on every input, and arbitrary filters are safe, over a malformed space
  {
    const char alpha[] = {'[', ']', '{', '}', ',', ':', '"', '\'', '\\', '/', '*', 'u', '0', '1', '9', '-', '+', '.', 'e', 'a', 't', 'r', 'n', ' ', '\n', char(0x80)};
    const int NA = sizeof alpha;
    int L = atoi(C.opt("malformed-len", T ? "4" : "3").c_str());
    MValue ftrue = MValue::boolean(true);
    std::vector<MValue> some;
    for (const char* t : {"{\"*\":true}", "[true]", "{\"a\":true}", "{\"*\":[{\"*\":true}]}", "[{\"a\":[true]}]", "false", "{}", "[]", "2"}) {
      MValue m;
      refjson::parse(t, m);
      std::function<void(MValue&)> strip = [&](MValue& x) { x.s = x.isNumber() ? "" : x.s; for (auto& e : x.a) strip(e); for (auto& kv : x.o) strip(kv.second); };
      strip(m);
      some.push_back(m);
    }
    std::vector<int> idx;
    for (int len = 1; len <= L; len++) {
      idx.assign(size_t(len), 0);
      for (;;) {
        if (C.expired()) break;
        if (C.take()) {
          std::string text;
          for (int k : idx) text.push_back(alpha[k]);
          C.begin("filter-malformed:json:" + vis(text));
          RunResult U = runOnce(false, text, nullptr, NONE);
          for (FilterMode mode : {AS_DOC, AS_VARIANT}) {
            RunResult F = runOnce(false, text, &ftrue, mode);
            if (F.code != U.code || mtext(F.value) != mtext(U.value) || !F.problems.empty())
              C.fail("identity", std::string("filter true changed the result: ") + DeserializationError(F.code).c_str() + " " + mtext(F.value).substr(0, 80) +
                                     " vs " + DeserializationError(U.code).c_str() + " " + mtext(U.value).substr(0, 80) + " " + F.problems);
          }
          if (len <= 3 || (idx[0] % 3) == 0) {
            for (auto& f : some) pairCheck(C, false, text, U, f, mtext(f));
          }
          C.end();
        }
        int k = len - 1;
        while (k >= 0 && ++idx[size_t(k)] == NA) idx[size_t(k--)] = 0;
        if (k < 0) break;
      }
    }
    // MessagePack: all 1- and 2-byte strings, header-led 3-byte strings
    for (uint32_t v = 0; v < 256 + 65536; v++) {
      if (C.expired()) break;
      if (!C.take()) continue;
      std::string b;
      if (v < 256) b.push_back(char(v));
      else { b.push_back(char((v - 256) >> 8)); b.push_back(char((v - 256) & 255)); }
      C.begin("filter-malformed:msgpack:" + hex(b));
      RunResult U = runOnce(true, b, nullptr, NONE);
      RunResult F = runOnce(true, b, &ftrue, AS_VARIANT);
      if (F.code != U.code || mtext(F.value) != mtext(U.value) || !F.problems.empty())
        C.fail("identity", "filter true changed the result of a MessagePack input");
      if (v < 256 || (v % 5) == 0)
        for (auto& f : some) pairCheck(C, true, b, U, f, mtext(f));
      C.end();
    }
  }
  C.metrics["pairs"] += double(pairs);
  C.outcome("pairs");
  C.outcome("identity");
  C.bound("inputs: all trees <= " + std::to_string(Ni) + " nodes over 5 leaves (+ a bin and an ext leaf for MessagePack) and 5 keys, as JSON and as MessagePack; filters: all " +
          std::to_string(filters.size()) + " trees <= " + std::to_string(Nf) + " nodes over 8 leaves and 3 keys; both Filter(JsonDocument&) and Filter(JsonVariantConst); "
          "identity of filter true on all byte strings of the malformed alphabet and all 1-2 byte MessagePack strings");
}
}  // namespace ix_filter
