// hx — explicit-state exploration of API histories on two documents with tiny pools.
// A state is the history that reaches it, replayed on fresh objects; states are de-duplicated on a
// canonical key (model + concrete pool/string state through the inspector).  Serves C04 (tree model),
// C06 (allocator ledger), C05 (fault plans, mode "fault"), C19 (geometry-independent traces, mode "trace").
#pragma once
#include <ArduinoJson.h>

#include <algorithm>
#include <cstdio>
#include <cstring>
#include <fstream>
#include <set>
#include <sstream>
#include <string>
#include <vector>

#include "common.hpp"
#include "isolate.hpp"
#include "ledger_alloc.hpp"
#include "model.hpp"
#include "refjson.hpp"
#ifndef VERIF_NO_INSPECTOR
#include "inspector.hpp"
#endif

namespace hx {
using namespace ArduinoJson;
using namespace verif;

// ------------------------------------------------------------------------------------------- paths
struct Step {
  bool isKey = false;
  size_t idx = 0;
  std::string key;
  bool operator==(const Step& o) const { return isKey == o.isKey && idx == o.idx && key == o.key; }
};
typedef std::vector<Step> Path;

inline std::string pathText(const Path& p) {
  std::string r = "$";
  for (auto& s : p) r += s.isKey ? "." + vis(s.key) : "[" + std::to_string(s.idx) + "]";
  return r;
}
inline std::string pathRaw(const Path& p) {
  std::string r;
  for (auto& s : p) r += (s.isKey ? "k" + hex(s.key) : "i" + std::to_string(s.idx)) + "/";
  return r.empty() ? "-" : r;
}
inline Path pathParse(const std::string& t) {
  Path p;
  if (t == "-") return p;
  size_t i = 0;
  while (i < t.size()) {
    size_t j = t.find('/', i);
    std::string e = t.substr(i, j - i);
    Step s;
    if (e[0] == 'k') {
      s.isKey = true;
      s.key = unhex(e.substr(1));
    } else {
      s.idx = size_t(atol(e.c_str() + 1));
    }
    p.push_back(s);
    i = j + 1;
  }
  return p;
}
inline bool isPrefix(const Path& a, const Path& b) {  // a is a prefix of b (or equal)
  if (a.size() > b.size()) return false;
  for (size_t i = 0; i < a.size(); i++) if (!(a[i] == b[i])) return false;
  return true;
}

// ------------------------------------------------------------------------------------------- ops
enum Code {
  SET_SCALAR, TO_ARRAY, TO_OBJECT, ADD_SCALAR, ADD_ARRAY, ADD_OBJECT, SET_INDEX, SET_KEY, SET_KEY2,
  REMOVE_INDEX, REMOVE_KEY, CLEAR_VALUE, SET_VARIANT, ADD_VARIANT, ARRAY_SET, OBJECT_SET,
  DOC_CLEAR, DOC_COPY_ASSIGN, DOC_MOVE_ASSIGN, DOC_SWAP, DOC_SET_DOC, DOC_FROM_VARIANT, SHRINK,
  DESERIALIZE, HANDLE_TAKE, COPY_ARRAY, CONTAINER_CLEAR, NCODES
};
static const char* kCodeName[] = {"set", "toArray", "toObject", "add", "addArray", "addObject", "setIndex", "setKey",
                                  "setKey2", "removeIndex", "removeKey", "clearValue", "setVariant", "addVariant",
                                  "arraySet", "objectSet", "docClear", "docCopyAssign", "docMoveAssign", "docSwap",
                                  "docSetDoc", "docFromVariant", "shrinkToFit", "deserialize", "handle", "copyArray", "containerClear"};

struct Op {
  Code code = SET_SCALAR;
  int doc = 0;
  Path path;
  int a = 0, b = 0;  // scalar index / array index / text index / handle slot ; flavour
  int doc2 = 0;
  Path path2;
  std::string key, key2;
};

inline std::string opRaw(const Op& o) {
  return std::to_string(int(o.code)) + ":" + std::to_string(o.doc) + ":" + pathRaw(o.path) + ":" + std::to_string(o.a) + ":" +
         std::to_string(o.b) + ":" + std::to_string(o.doc2) + ":" + pathRaw(o.path2) + ":" + hex(o.key) + ":" + hex(o.key2);
}
inline Op opParse(const std::string& t) {
  std::vector<std::string> f;
  size_t i = 0;
  for (;;) {
    size_t j = t.find(':', i);
    f.push_back(t.substr(i, j == std::string::npos ? std::string::npos : j - i));
    if (j == std::string::npos) break;
    i = j + 1;
  }
  Op o;
  f.resize(9);
  o.code = Code(atoi(f[0].c_str()));
  o.doc = atoi(f[1].c_str());
  o.path = pathParse(f[2]);
  o.a = atoi(f[3].c_str());
  o.b = atoi(f[4].c_str());
  o.doc2 = atoi(f[5].c_str());
  o.path2 = pathParse(f[6]);
  o.key = unhex(f[7]);
  o.key2 = unhex(f[8]);
  return o;
}
typedef std::vector<Op> History;
inline std::string histRaw(const History& h) {
  std::string r;
  for (auto& o : h) r += opRaw(o) + ";";
  return r;
}
inline History histParse(const std::string& t) {
  History h;
  size_t i = 0;
  while (i < t.size()) {
    size_t j = t.find(';', i);
    if (j == std::string::npos) j = t.size();
    if (j > i) h.push_back(opParse(t.substr(i, j - i)));
    i = j + 1;
  }
  return h;
}

static const int NSCALARS = 15;
static const char* kScalarName[] = {"null", "true", "42", "-7e10", "1.5", "1e100", "\"k\"linked", "\"k\"copied", "\"v2\"copied", "raw[1]", "raw\\xc9", "raw\\xc6\\x80000000", "18446744073709551615", "MsgPackBinary(ab)", "MsgPackExtension(1,x)"};
static const char* kTexts[] = {"{\"k\":[1,\"k\"]}", "[1e100,\"v2\"]", "\"k\"", "[1,", "msgpack{\"k\":[1,\"k\"]}", "[\"k\",\"k\\u0000x\"]", "[0,1,2,3,4,5,6,7,8]", "msgpack{\"k\":1,\"k\":\"k\"}"};
static const int NTEXTS = 8;
static const int BULK_TEXT = 6;    // nine slots: three 4-slot pools, pool table on the heap; only used by --init=bulk
static const int DUPKEY_TEXT = 7;  // a MessagePack map that repeats a key (both entries are kept, in order)
static const char kMsgPackDup[] = "\x82\xa1k\x01\xa1k\xa1k";
static const char kMsgPackText[] = "\x81\xa1k\x92\x01\xa1k";  // {"k":[1,"k"]}

inline std::string opText(const Op& o) {
  std::string d = "D" + std::to_string(o.doc), d2 = "D" + std::to_string(o.doc2);
  std::string p = d + pathText(o.path).substr(1), p2 = d2 + pathText(o.path2).substr(1);
  switch (o.code) {
    case SET_SCALAR: return p + ".set(" + kScalarName[o.a] + ")";
    case TO_ARRAY: return p + ".to<JsonArray>()";
    case TO_OBJECT: return p + ".to<JsonObject>()";
    case ADD_SCALAR: return p + ".add(" + kScalarName[o.a] + ")";
    case ADD_ARRAY: return p + ".add<JsonArray>()";
    case ADD_OBJECT: return p + ".add<JsonObject>()";
    case SET_INDEX: return p + "[" + std::to_string(o.b) + "]=" + kScalarName[o.a];
    case SET_KEY: return p + "[\"" + vis(o.key) + "\"" + (o.b == 1 ? "linked" : "") + "]=" + kScalarName[o.a];
    case SET_KEY2: return p + "[\"" + vis(o.key) + "\"][\"" + vis(o.key2) + "\"]=" + kScalarName[o.a];
    case REMOVE_INDEX: return p + (o.b ? ".remove(begin+" : ".remove(") + std::to_string(o.a) + ")";
    case REMOVE_KEY: return p + (o.b ? ".remove(iterator at \"" : ".remove(\"") + vis(o.key) + "\")";
    case CLEAR_VALUE: return p + ".clear()";
    case SET_VARIANT: return p + ".set(" + p2 + ")";
    case ADD_VARIANT: return p + ".add(" + p2 + ")";
    case ARRAY_SET: return p + ".as<JsonArray>().set(" + p2 + ")";
    case OBJECT_SET: return p + ".as<JsonObject>().set(" + p2 + ")";
    case DOC_CLEAR: return d + ".clear()";
    case DOC_COPY_ASSIGN: return d + "=" + d2;
    case DOC_MOVE_ASSIGN: return d + "=move(" + d2 + ")";
    case DOC_SWAP: return "swap(D0,D1)";
    case DOC_SET_DOC: return d + ".set(" + d2 + ")";
    case DOC_FROM_VARIANT: return d + "=JsonDocument(" + p2 + ")";
    case SHRINK: return d + ".shrinkToFit()";
    case DESERIALIZE: return "deserializeJson(" + p + "," + kTexts[o.a] + ")";
    case HANDLE_TAKE: return "R" + std::to_string(o.a) + "=" + p;
    case CONTAINER_CLEAR: return p + (o.b ? ".as<JsonObject>().clear()" : ".as<JsonArray>().clear()");
    case COPY_ARRAY: return std::string("copyArray(") + (o.b == 2 ? "int[2][2]{{1,2},{3,4}}" : "int[3]{11,22,33}") + "," + (o.b == 1 ? d : p) + ")";
    default: return "?";
  }
}
inline std::string histText(const History& h) {
  std::string r;
  for (auto& o : h) r += opText(o) + "; ";
  return r;
}

// ------------------------------------------------------------------------------------------- model world
inline MValue scalarModel(int s) {
  switch (s) {
    case 0: return MValue::null();
    case 1: return MValue::boolean(true);
    case 2: return MValue::integer(42);
    case 3: return MValue::integer(-70000000000LL);
    case 4: return MValue::f64(1.5);
    case 5: return MValue::f64(1e100);
    case 6: case 7: return MValue::str("k");
    case 8: return MValue::str("v2");
    case 9: return MValue::raw("[1]");
    case 10: return MValue::raw("\xc9");                                  // an ext32 header without its size bytes
    case 11: return MValue::raw(std::string("\xc6\x80\x00\x00\x00", 5));  // a bin32 header announcing 2^31 bytes
    case 12: return MValue::integer((i128(1) << 64) - 1);                 // stored as Uint64: owns an extension slot
    case 13: return MValue::raw(std::string("\xc4\x02" "ab", 4));           // MsgPackBinary("ab"): bin8 header + payload
    default: return MValue::raw(std::string("\xd4\x01x", 3));              // MsgPackExtension(1, "x"): fixext1
  }
}

struct Handle {
  bool alive = false;
  int doc = 0;
  Path path;
};
static const int NHANDLES = 2;

struct World {
  MValue M[2];
  int alloc[2] = {0, 1};  // which allocator each document is expected to use (2 = library default)
  Handle H[NHANDLES];
};

inline MValue* at(MValue& root, const Path& p) {
  MValue* v = &root;
  for (auto& s : p) {
    if (s.isKey) {
      if (v->kind != MValue::Obj) return nullptr;
      v = v->member(s.key);
      if (!v) return nullptr;
    } else {
      if (v->kind != MValue::Arr || s.idx >= v->a.size()) return nullptr;
      v = &v->a[s.idx];
    }
  }
  return v;
}

inline void allPaths(const MValue& m, Path& cur, std::vector<Path>& out) {
  out.push_back(cur);
  if (m.kind == MValue::Arr)
    for (size_t i = 0; i < m.a.size(); i++) {
      Step s; s.idx = i;
      cur.push_back(s);
      allPaths(m.a[i], cur, out);
      cur.pop_back();
    }
  if (m.kind == MValue::Obj)
    for (auto& kv : m.o) {
      Step s; s.isKey = true; s.key = kv.first;
      cur.push_back(s);
      allPaths(kv.second, cur, out);
      cur.pop_back();
    }
}
inline std::vector<Path> allPaths(const MValue& m) {
  std::vector<Path> out;
  Path cur;
  allPaths(m, cur, out);
  return out;
}

// handle maintenance
inline void killBelow(World& W, int doc, const Path& q, bool inclusive) {
  for (auto& h : W.H)
    if (h.alive && h.doc == doc && isPrefix(q, h.path) && (inclusive || h.path.size() > q.size())) h.alive = false;
}
inline void killDoc(World& W, int doc) {
  for (auto& h : W.H) if (h.alive && h.doc == doc) h.alive = false;
}
inline void shiftAfterRemove(World& W, int doc, const Path& q, size_t removed) {
  for (auto& h : W.H) {
    if (!h.alive || h.doc != doc || !isPrefix(q, h.path) || h.path.size() <= q.size()) continue;
    Step& s = h.path[q.size()];
    if (s.isKey) continue;
    if (s.idx == removed) h.alive = false;
    else if (s.idx > removed) s.idx--;
  }
}

struct Expect {
  std::string ret;       // expected return signature ("" = not compared)
  bool resync = false;   // post-state under-specified: re-synchronise the model from the real documents
  std::string alias;     // relation between source and destination for copy ops
  bool mutates = true;
};

inline std::string aliasRelation(const Op& o) {
  if (o.doc != o.doc2) return "none";
  if (o.path == o.path2) return "self";
  if (isPrefix(o.path2, o.path)) return "src-is-ancestor";
  if (isPrefix(o.path, o.path2)) return "src-is-descendant";
  return "none";
}

// Applies `o` to the model.  Returns what the public contract says the call returns.
inline Expect modelApply(World& W, const Op& o) {
  Expect E;
  MValue& root = W.M[o.doc];
  MValue* t = at(root, o.path);
  auto scalar = [&]() { return scalarModel(o.a); };
  switch (o.code) {
    case SET_SCALAR:
      if (!t) { E.ret = "F"; break; }
      killBelow(W, o.doc, o.path, false);
      *t = scalar();
      E.ret = "T";
      break;
    case TO_ARRAY:
    case TO_OBJECT:
      if (!t) { E.ret = "U"; break; }
      killBelow(W, o.doc, o.path, false);
      *t = o.code == TO_ARRAY ? MValue::array() : MValue::object();
      E.ret = "B";
      break;
    case ADD_SCALAR:
    case ADD_ARRAY:
    case ADD_OBJECT: {
      bool handleRet = o.code != ADD_SCALAR;
      if (!t || (t->kind != MValue::Null && t->kind != MValue::Arr)) { E.ret = handleRet ? "U" : "F"; E.mutates = false; break; }
      if (t->kind == MValue::Null) *t = MValue::array();
      t->a.push_back(o.code == ADD_SCALAR ? scalar() : o.code == ADD_ARRAY ? MValue::array() : MValue::object());
      E.ret = handleRet ? "B" : "T";
      break;
    }
    case SET_INDEX: {
      size_t i = size_t(o.b);
      if (!t || (t->kind != MValue::Null && t->kind != MValue::Arr)) { E.ret = "F"; E.mutates = false; break; }
      if (t->kind == MValue::Null) *t = MValue::array();
      if (i < t->a.size()) {
        Path q = o.path; Step s; s.idx = i; q.push_back(s);
        killBelow(W, o.doc, q, false);
        t->a[i] = scalar();
      } else {
        while (t->a.size() < i) t->a.push_back(MValue::null());
        t->a.push_back(scalar());
      }
      E.ret = "T";
      break;
    }
    case SET_KEY: {
      if (!t || (t->kind != MValue::Null && t->kind != MValue::Obj)) { E.ret = "F"; E.mutates = false; break; }
      if (t->kind == MValue::Null) *t = MValue::object();
      MValue* m = t->member(o.key);
      if (m) {
        Path q = o.path; Step s; s.isKey = true; s.key = o.key; q.push_back(s);
        killBelow(W, o.doc, q, false);
        *m = scalar();
      } else {
        t->o.emplace_back(o.key, scalar());
      }
      E.ret = "T";
      break;
    }
    case SET_KEY2: {
      if (!t || (t->kind != MValue::Null && t->kind != MValue::Obj)) { E.ret = "F"; E.mutates = false; break; }
      if (t->kind == MValue::Null) *t = MValue::object();
      MValue* m = t->member(o.key);
      if (!m) { t->o.emplace_back(o.key, MValue::null()); m = &t->o.back().second; }
      if (m->kind != MValue::Null && m->kind != MValue::Obj) { E.ret = "F"; break; }
      if (m->kind == MValue::Null) *m = MValue::object();
      MValue* m2 = m->member(o.key2);
      if (m2) {
        Path q = o.path; Step s; s.isKey = true; s.key = o.key; q.push_back(s); s.key = o.key2; q.push_back(s);
        killBelow(W, o.doc, q, false);
        *m2 = scalar();
      } else {
        m->o.emplace_back(o.key2, scalar());
      }
      E.ret = "T";
      break;
    }
    case REMOVE_INDEX:
      if (t && t->kind == MValue::Arr && size_t(o.a) < t->a.size()) {
        t->a.erase(t->a.begin() + o.a);
        shiftAfterRemove(W, o.doc, o.path, size_t(o.a));
      } else E.mutates = false;
      break;
    case REMOVE_KEY:
      if (t && t->kind == MValue::Obj && t->member(o.key)) {
        for (size_t i = 0; i < t->o.size(); i++)
          if (t->o[i].first == o.key) { t->o.erase(t->o.begin() + long(i)); break; }
        Path q = o.path; Step s; s.isKey = true; s.key = o.key; q.push_back(s);
        killBelow(W, o.doc, q, true);
      } else E.mutates = false;
      break;
    case CLEAR_VALUE:
      if (t) { killBelow(W, o.doc, o.path, false); *t = MValue::null(); }
      break;
    case SET_VARIANT: {
      MValue* s = at(W.M[o.doc2], o.path2);
      E.alias = aliasRelation(o);
      if (!t) { E.ret = "F"; break; }
      MValue copy = s ? *s : MValue::null();
      killBelow(W, o.doc, o.path, false);
      t = at(root, o.path);
      *t = copy;
      E.ret = "T";
      break;
    }
    case ADD_VARIANT: {
      MValue* s = at(W.M[o.doc2], o.path2);
      E.alias = aliasRelation(o);
      if (!t || (t->kind != MValue::Null && t->kind != MValue::Arr)) { E.ret = "F"; E.mutates = false; break; }
      MValue copy = s ? *s : MValue::null();
      if (t->kind == MValue::Null) *t = MValue::array();
      t->a.push_back(copy);
      E.ret = "T";
      break;
    }
    case ARRAY_SET: {
      MValue* s = at(W.M[o.doc2], o.path2);
      E.alias = aliasRelation(o);
      if (!t || t->kind != MValue::Arr) { E.ret = "F"; E.mutates = false; break; }
      MValue copy = (s && s->kind == MValue::Arr) ? *s : MValue::array();
      killBelow(W, o.doc, o.path, false);
      t->a = copy.a;
      E.ret = "T";
      break;
    }
    case OBJECT_SET: {
      MValue* s = at(W.M[o.doc2], o.path2);
      E.alias = aliasRelation(o);
      if (!t || t->kind != MValue::Obj || !s || s->kind != MValue::Obj) { E.ret = "F"; E.mutates = false; break; }
      MValue copy = *s;
      killBelow(W, o.doc, o.path, false);
      t->o = copy.o;
      E.ret = "T";
      break;
    }
    case DOC_CLEAR:
      killDoc(W, o.doc);
      root = MValue::null();
      break;
    case DOC_COPY_ASSIGN:
      if (o.doc != o.doc2) {
        killDoc(W, o.doc);
        root = W.M[o.doc2];
        W.alloc[o.doc] = W.alloc[o.doc2];
      } else {
        killDoc(W, o.doc);  // self-assignment goes through a temporary copy: value unchanged
      }
      break;
    case DOC_MOVE_ASSIGN:
      killDoc(W, 0);
      killDoc(W, 1);
      if (o.doc != o.doc2) {
        root = W.M[o.doc2];
        W.M[o.doc2] = MValue::null();
        W.alloc[o.doc] = W.alloc[o.doc2];
        W.alloc[o.doc2] = 2;
      }
      break;
    case DOC_SWAP:
      killDoc(W, 0);
      killDoc(W, 1);
      std::swap(W.M[0], W.M[1]);
      std::swap(W.alloc[0], W.alloc[1]);
      break;
    case DOC_SET_DOC:
      E.alias = o.doc == o.doc2 ? "self" : "none";
      killDoc(W, o.doc);
      root = MValue(W.M[o.doc2]);
      E.ret = "T";
      break;
    case DOC_FROM_VARIANT: {
      MValue* s = at(W.M[o.doc2], o.path2);
      MValue copy = s ? *s : MValue::null();
      killDoc(W, o.doc);
      root = copy;
      break;
    }
    case SHRINK:
      killDoc(W, o.doc);
      E.mutates = false;
      break;
    case DESERIALIZE: {
      if (!t) { E.ret = ""; E.mutates = false; break; }
      if (o.path.empty()) killDoc(W, o.doc); else killBelow(W, o.doc, o.path, false);
      MValue v;
      if (o.a == DUPKEY_TEXT) {
        MValue ob = MValue::object();
        ob.o.emplace_back("k", MValue::integer(1));
        ob.o.emplace_back("k", MValue::str("k"));
        *t = ob;
        E.ret = "Ok";
      } else if (refjson::parse(kTexts[o.a == 4 ? 0 : o.a], v)) {
        std::function<void(MValue&)> strip = [&](MValue& m) { if (m.isNumber()) m.s.clear(); for (auto& e : m.a) strip(e); for (auto& kv : m.o) strip(kv.second); };
        strip(v);
        *t = refjson::dedup(v, true);
        E.ret = "Ok";
      } else {
        E.ret = "IncompleteInput";
        E.resync = true;
      }
      break;
    }
    case CONTAINER_CLEAR:  // JsonArray::clear() / JsonObject::clear(): the container stays, its children go
      if (t && ((o.b == 0 && t->kind == MValue::Arr) || (o.b == 1 && t->kind == MValue::Obj))) {
        bool had = !t->a.empty() || !t->o.empty();
        killBelow(W, o.doc, o.path, false);
        t = at(root, o.path);
        t->a.clear();
        t->o.clear();
        E.mutates = had;
      } else E.mutates = false;
      break;
    case COPY_ARRAY: {
      MValue one = MValue::array();
      if (o.b == 2) {
        MValue r1 = MValue::array(), r2 = MValue::array();
        r1.a = {MValue::integer(1), MValue::integer(2)};
        r2.a = {MValue::integer(3), MValue::integer(4)};
        one.a = {r1, r2};
      } else {
        one.a = {MValue::integer(11), MValue::integer(22), MValue::integer(33)};
      }
      if (o.b == 1) {  // into the JsonDocument: to<JsonArray>() first
        killDoc(W, o.doc);
        root = one;
        E.ret = "T";
        break;
      }
      if (!t || (t->kind != MValue::Null && t->kind != MValue::Arr)) { E.ret = "F"; E.mutates = false; break; }
      if (t->kind == MValue::Null) *t = MValue::array();
      for (auto& e : one.a) t->a.push_back(e);
      E.ret = "T";
      break;
    }
    case HANDLE_TAKE:
      W.H[o.a].alive = t != nullptr;
      W.H[o.a].doc = o.doc;
      W.H[o.a].path = o.path;
      E.mutates = false;
      break;
    default: break;
  }
  return E;
}

// ------------------------------------------------------------------------------------------- real world
struct Real {
  LedgerAllocator A[2] = {LedgerAllocator("A0"), LedgerAllocator("A1")};
  JsonDocument* D[2];
  JsonVariant RH[NHANDLES];
  Real() {
    D[0] = new JsonDocument(&A[0]);
    D[1] = new JsonDocument(&A[1]);
  }
  ~Real() {
    delete D[0];
    delete D[1];
  }
  // destroys both documents and reports what the ledgers still hold
  std::string destroyDocs() {
    delete D[0];
    delete D[1];
    D[0] = D[1] = nullptr;
    std::string r;
    for (int a = 0; a < 2; a++)
      if (!A[a].live.empty()) r += A[a].name + " still has live blocks after both documents were destroyed: " + A[a].liveSignature() + "; ";
    r += A[0].takeErrors() + A[1].takeErrors();
    return r;
  }
  Allocator* allocPtr(int id) { return id == 2 ? detail::DefaultAllocator::instance() : static_cast<Allocator*>(&A[id]); }
};

inline JsonVariant resolve(JsonDocument& d, const Path& p) {
  JsonVariant v = d.as<JsonVariant>();
  for (auto& s : p) v = s.isKey ? v[s.key].as<JsonVariant>() : v[s.idx].as<JsonVariant>();
  return v;
}

template <typename T>
inline bool setScalar(T t, int s) {
  switch (s) {
    case 0: return t.set(nullptr);
    case 1: return t.set(true);
    case 2: return t.set(42);
    case 3: return t.set(-70000000000LL);
    case 4: return t.set(1.5);
    case 5: return t.set(1e100);
    case 6: return t.set("k");
    case 7: return t.set(std::string("k"));
    case 8: return t.set(std::string("v2"));
    case 9: return t.set(serialized(std::string("[1]")));
    case 10: return t.set(serialized(std::string("\xc9")));
    case 11: return t.set(serialized(std::string("\xc6\x80\x00\x00\x00", 5)));
    case 12: return t.set(18446744073709551615ULL);
    case 13: return t.set(MsgPackBinary("ab", 2));
    default: return t.set(MsgPackExtension(1, "x", 1));
  }
}
template <typename T>
inline bool addScalar(T t, int s) {
  switch (s) {
    case 0: return t.add(nullptr);
    case 1: return t.add(true);
    case 2: return t.add(42);
    case 3: return t.add(-70000000000LL);
    case 4: return t.add(1.5);
    case 5: return t.add(1e100);
    case 6: return t.add("k");
    case 7: return t.add(std::string("k"));
    case 8: return t.add(std::string("v2"));
    case 9: return t.add(serialized(std::string("[1]")));
    case 10: return t.add(serialized(std::string("\xc9")));
    case 11: return t.add(serialized(std::string("\xc6\x80\x00\x00\x00", 5)));
    case 12: return t.add(18446744073709551615ULL);
    case 13: return t.add(MsgPackBinary("ab", 2));
    default: return t.add(MsgPackExtension(1, "x", 1));
  }
}

// API binding of the search: 0 = operations go through JsonDocument / JsonVariant (default); 1 = wherever the target is
// already an array or an object, the operation goes through the typed handle (JsonArray / JsonObject, their element
// and member proxies, JsonArrayConst / JsonObjectConst as copy sources) - the same history, other entry points.
static int gApi = 0;

// returns false when the operation does not apply to the typed-handle binding (the caller falls back to the default one)
inline bool realApplyHandles(Real& R, const Op& o, std::string& res) {
  JsonDocument& d = *R.D[o.doc];
  JsonDocument& d2 = *R.D[o.doc2];
  auto B = [](bool b) { return std::string(b ? "T" : "F"); };
  JsonVariant v = resolve(d, o.path);
  bool isArr = v.is<JsonArray>(), isObj = v.is<JsonObject>();
  switch (o.code) {
    case ADD_SCALAR:
      if (!isArr) return false;
      res = B(addScalar(v.as<JsonArray>(), o.a));
      return true;
    case ADD_ARRAY:
      if (!isArr) return false;
      res = v.as<JsonArray>().add<JsonArray>().isNull() ? "U" : "B";
      return true;
    case ADD_OBJECT:
      if (!isArr) return false;
      res = v.as<JsonArray>().add<JsonObject>().isNull() ? "U" : "B";
      return true;
    case SET_INDEX:
      if (!isArr) return false;
      res = B(setScalar(v.as<JsonArray>()[size_t(o.b)], o.a));
      return true;
    case SET_KEY:
      if (!isObj) return false;
      if (o.b == 1) res = B(setScalar(v.as<JsonObject>()[o.key.c_str()], o.a));
      else res = B(setScalar(v.as<JsonObject>()[o.key], o.a));
      return true;
    case SET_KEY2:
      if (!isObj) return false;
      res = B(setScalar(v.as<JsonObject>()[o.key][o.key2], o.a));
      return true;
    case REMOVE_INDEX:
      if (!isArr || o.b) return false;
      v.as<JsonArray>().remove(size_t(o.a));
      res = "";
      return true;
    case REMOVE_KEY:
      if (!isObj || o.b) return false;
      v.as<JsonObject>().remove(o.key);
      res = "";
      return true;
    case SET_VARIANT: {
      JsonVariantConst s = resolve(d2, o.path2);
      if (s.is<JsonArrayConst>()) res = B(v.set(s.as<JsonArrayConst>()));
      else if (s.is<JsonObjectConst>()) res = B(v.set(s.as<JsonObjectConst>()));
      else return false;
      return true;
    }
    case ADD_VARIANT: {
      if (!isArr) return false;
      JsonVariantConst s = resolve(d2, o.path2);
      if (s.is<JsonArrayConst>()) res = B(v.as<JsonArray>().add(s.as<JsonArrayConst>()));
      else if (s.is<JsonObjectConst>()) res = B(v.as<JsonArray>().add(s.as<JsonObjectConst>()));
      else res = B(v.as<JsonArray>().add(s));
      return true;
    }
    case DOC_SET_DOC: {
      JsonVariantConst s = d2.as<JsonVariantConst>();
      if (s.is<JsonArrayConst>()) res = B(d.set(s.as<JsonArrayConst>()));
      else if (s.is<JsonObjectConst>()) res = B(d.set(s.as<JsonObjectConst>()));
      else return false;
      return true;
    }
    default: return false;
  }
}

inline std::string realApply(Real& R, const Op& o) {
  JsonDocument& d = *R.D[o.doc];
  JsonDocument& d2 = *R.D[o.doc2];
  auto B = [](bool b) { return std::string(b ? "T" : "F"); };
  bool atRoot = o.path.empty();
  if (gApi == 1) {
    std::string res;
    if (realApplyHandles(R, o, res)) return res;
  }
  switch (o.code) {
    case SET_SCALAR:
      if (atRoot && (o.b & 1)) return B(setScalar<JsonDocument&>(d, o.a));
      return B(setScalar(resolve(d, o.path), o.a));
    case TO_ARRAY:
      if (atRoot && (o.b & 1)) return d.to<JsonArray>().isNull() ? "U" : "B";
      return resolve(d, o.path).to<JsonArray>().isNull() ? "U" : "B";
    case TO_OBJECT:
      if (atRoot && (o.b & 1)) return d.to<JsonObject>().isNull() ? "U" : "B";
      return resolve(d, o.path).to<JsonObject>().isNull() ? "U" : "B";
    case ADD_SCALAR:
      if (atRoot) return B(addScalar<JsonDocument&>(d, o.a));
      return B(addScalar(resolve(d, o.path), o.a));
    case ADD_ARRAY:
      if (atRoot) return d.add<JsonArray>().isNull() ? "U" : "B";
      return resolve(d, o.path).add<JsonArray>().isNull() ? "U" : "B";
    case ADD_OBJECT:
      if (atRoot) return d.add<JsonObject>().isNull() ? "U" : "B";
      return resolve(d, o.path).add<JsonObject>().isNull() ? "U" : "B";
    case SET_INDEX:
      if (atRoot) return B(setScalar(d[size_t(o.b)], o.a));
      return B(setScalar(resolve(d, o.path)[size_t(o.b)], o.a));
    case SET_KEY:
      if (o.b == 1) {  // key given as const char*: stored by address (the Op outlives the documents)
        const char* k = o.key.c_str();
        if (atRoot) return B(setScalar(d[k], o.a));
        return B(setScalar(resolve(d, o.path)[k], o.a));
      }
      if (atRoot) return B(setScalar(d[o.key], o.a));
      return B(setScalar(resolve(d, o.path)[o.key], o.a));
    case SET_KEY2:
      if (atRoot) return B(setScalar(d[o.key][o.key2], o.a));
      return B(setScalar(resolve(d, o.path)[o.key][o.key2], o.a));
    case REMOVE_INDEX:
      if (o.b) {
        JsonArray a = resolve(d, o.path).as<JsonArray>();
        JsonArray::iterator it = a.begin();
        for (int i = 0; i < o.a && it != a.end(); i++) ++it;
        if (it != a.end()) a.remove(it);
      } else if (atRoot) {
        d.remove(size_t(o.a));
      } else {
        resolve(d, o.path).remove(size_t(o.a));
      }
      return "";
    case REMOVE_KEY:
      if (o.b == 1) {  // through JsonObject::remove(iterator)
        JsonObject obj = resolve(d, o.path).as<JsonObject>();
        for (JsonObject::iterator it = obj.begin(); it != obj.end(); ++it) {
          JsonString k = it->key();
          if (std::string(k.c_str(), k.size()) == o.key) {
            obj.remove(it);
            break;
          }
        }
      } else if (atRoot) d.remove(o.key);
      else resolve(d, o.path).remove(o.key);
      return "";
    case CLEAR_VALUE:
      resolve(d, o.path).clear();
      return "";
    case SET_VARIANT: {
      JsonVariantConst s = resolve(d2, o.path2);
      if (atRoot && (o.b & 1)) return B(d.set(s));
      return B(resolve(d, o.path).set(s));
    }
    case ADD_VARIANT: {
      JsonVariantConst s = resolve(d2, o.path2);
      if (atRoot) return B(d.add(s));
      return B(resolve(d, o.path).add(s));
    }
    case ARRAY_SET: {
      JsonArrayConst s = resolve(d2, o.path2).as<JsonArrayConst>();
      return B(resolve(d, o.path).as<JsonArray>().set(s));
    }
    case OBJECT_SET: {
      JsonObjectConst s = resolve(d2, o.path2).as<JsonObjectConst>();
      return B(resolve(d, o.path).as<JsonObject>().set(s));
    }
    case DOC_CLEAR: d.clear(); return "";
    case DOC_COPY_ASSIGN: d = static_cast<const JsonDocument&>(d2); return "";
    case DOC_MOVE_ASSIGN: d = std::move(d2); return "";
    case DOC_SWAP: swap(*R.D[0], *R.D[1]); return "";
    case DOC_SET_DOC: return B(d.set(static_cast<const JsonDocument&>(d2)));
    case DOC_FROM_VARIANT: {
      JsonVariantConst s = resolve(d2, o.path2);
      JsonDocument tmp(s, d.allocator());
      d = std::move(tmp);
      return "";
    }
    case SHRINK: d.shrinkToFit(); return "";
    case DESERIALIZE: {
      DeserializationError e;
      if (o.a == 4 || o.a == DUPKEY_TEXT) {
        const char* mp = o.a == 4 ? kMsgPackText : kMsgPackDup;
        size_t mpLen = o.a == 4 ? sizeof(kMsgPackText) - 1 : sizeof(kMsgPackDup) - 1;
        if (atRoot) e = deserializeMsgPack(d, mp, mpLen);
        else {
          JsonVariant v = resolve(d, o.path);
          e = deserializeMsgPack(v, mp, mpLen);
        }
      } else if (atRoot) e = deserializeJson(d, kTexts[o.a]);
      else {
        JsonVariant v = resolve(d, o.path);
        e = deserializeJson(v, kTexts[o.a]);
      }
      return e.c_str();
    }
    case CONTAINER_CLEAR:
      if (o.b) resolve(d, o.path).as<JsonObject>().clear();
      else resolve(d, o.path).as<JsonArray>().clear();
      return "";
    case COPY_ARRAY: {
      int one[3] = {11, 22, 33};
      int two[2][2] = {{1, 2}, {3, 4}};
      if (o.b == 1) return B(copyArray(one, d));
      if (o.b == 2) return B(copyArray(two, resolve(d, o.path)));
      return B(copyArray(one, resolve(d, o.path)));
    }
    case HANDLE_TAKE:
      R.RH[o.a] = resolve(d, o.path);
      return "";
    default: return "";
  }
}

// ------------------------------------------------------------------------------------------- enumeration of enabled ops
struct Alphabet {
  bool full = true;  // false = reduced (groups 1-5 of DESIGN 5/C04 with fewer scalars)
};

inline void enabledOps(const World& W, const Alphabet& AB, std::vector<Op>& out) {
  std::vector<int> setScalars = AB.full ? std::vector<int>{0, 1, 2, 3, 4, 5, 6, 7, 8, 9, 10, 11, 12, 13, 14} : std::vector<int>{0, 2, 3, 5, 6, 7, 8, 10, 12, 13};
  std::vector<int> addScalars = AB.full ? std::vector<int>{2, 3, 7, 8, 12, 13, 14} : std::vector<int>{2, 7, 13};
  std::vector<std::string> keys = {"a", "b"};
  std::vector<Path> paths[2] = {allPaths(W.M[0]), allPaths(W.M[1])};
  for (int d = 0; d < 2; d++) {
    for (auto& p : paths[d]) {
      const MValue* t = at(const_cast<MValue&>(W.M[d]), p);
      Op o;
      o.doc = d;
      o.path = p;
      for (int s : setScalars) { o.code = SET_SCALAR; o.a = s; o.b = 0; out.push_back(o); }
      if (p.empty() && AB.full) { o.code = SET_SCALAR; o.a = 7; o.b = 1; out.push_back(o); }  // through JsonDocument::set
      o.a = 0;
      o.b = 0;
      o.code = TO_ARRAY; out.push_back(o);
      o.code = TO_OBJECT; out.push_back(o);
      if (p.empty()) { o.b = 1; o.code = TO_ARRAY; out.push_back(o); o.code = TO_OBJECT; out.push_back(o); o.b = 0; }
      bool arrayish = t->kind == MValue::Null || t->kind == MValue::Arr;
      bool objectish = t->kind == MValue::Null || t->kind == MValue::Obj;
      // appends
      for (int s : (arrayish ? addScalars : std::vector<int>{2})) { o.code = ADD_SCALAR; o.a = s; out.push_back(o); }
      o.a = 0;
      o.code = ADD_ARRAY; out.push_back(o);
      o.code = ADD_OBJECT; out.push_back(o);
      // index assignment: existing, at size, beyond size
      {
        size_t n = t->kind == MValue::Arr ? t->a.size() : 0;
        std::set<size_t> idx = {0, n, n + 1};
        if (n) idx.insert(n - 1);
        if (!arrayish) idx = {0};
        for (size_t i : idx) { o.code = SET_INDEX; o.a = 2; o.b = int(i); out.push_back(o); }
        if (arrayish && AB.full) { o.code = SET_INDEX; o.a = 7; o.b = int(n); out.push_back(o); }
        o.b = 0;
      }
      // member assignment
      for (auto& k : (objectish ? keys : std::vector<std::string>{"a"})) {
        for (int s : (objectish ? std::vector<int>{2, 7} : std::vector<int>{2})) {
          o.code = SET_KEY; o.key = k; o.a = s; out.push_back(o);
        }
      }
      if (objectish) {
        o.code = SET_KEY; o.key = "a"; o.a = 2; o.b = 1; out.push_back(o);  // linked key
        o.b = 0;
        o.code = SET_KEY2; o.a = 2; o.key = "a"; o.key2 = "b"; out.push_back(o);
        if (AB.full) { o.key = "b"; o.key2 = "a"; o.a = 8; out.push_back(o); }
      }
      o.key.clear();
      o.key2.clear();
      // removals
      if (t->kind == MValue::Arr) {
        for (size_t i = 0; i <= t->a.size(); i++) {
          o.code = REMOVE_INDEX; o.a = int(i); o.b = 0; out.push_back(o);
          if (AB.full && i < t->a.size()) { o.b = 1; out.push_back(o); }
        }
        o.b = 0;
      } else if (p.empty()) {
        o.code = REMOVE_INDEX; o.a = 0; out.push_back(o);
      }
      if (t->kind == MValue::Obj) {
        for (auto& k : std::vector<std::string>{"a", "b", "k", "zz"}) { o.code = REMOVE_KEY; o.key = k; o.b = 0; out.push_back(o); }
        if (AB.full)
          for (auto& kv : t->o) { o.code = REMOVE_KEY; o.key = kv.first; o.b = 1; out.push_back(o); }
        o.b = 0;
        o.key.clear();
      }
      o.a = 0;
      o.code = CLEAR_VALUE; out.push_back(o);
      if (t->kind == MValue::Arr || t->kind == MValue::Obj) { o.code = CONTAINER_CLEAR; o.b = t->kind == MValue::Obj ? 1 : 0; out.push_back(o); o.b = 0; }
      if (AB.full && t->kind != MValue::Arr) { o.code = CONTAINER_CLEAR; o.b = 0; out.push_back(o); }  // on something that is not an array: no-op
      o.code = COPY_ARRAY; o.b = 0; out.push_back(o);
      if (AB.full || p.empty()) { o.b = 2; out.push_back(o); }
      if (p.empty()) { o.b = 1; out.push_back(o); }
      o.b = 0;
      // copies from every path of both documents
      for (int d2 = 0; d2 < 2; d2++) {
        for (auto& p2 : paths[d2]) {
          o.doc2 = d2;
          o.path2 = p2;
          o.code = SET_VARIANT; o.b = 0; out.push_back(o);
          if (p.empty() && AB.full) { o.b = 1; out.push_back(o); o.b = 0; }
          if (arrayish) { o.code = ADD_VARIANT; out.push_back(o); }
          const MValue* s = at(const_cast<MValue&>(W.M[d2]), p2);
          if (t->kind == MValue::Arr && (s->kind == MValue::Arr || s->kind == MValue::Null)) { o.code = ARRAY_SET; out.push_back(o); }
          if (t->kind == MValue::Obj && (s->kind == MValue::Obj || s->kind == MValue::Null)) { o.code = OBJECT_SET; out.push_back(o); }
        }
      }
      o.doc2 = 0;
      o.path2.clear();
      // deserialization into this value
      for (int k = 0; k < NTEXTS; k++) {
        if (k == BULK_TEXT || (!AB.full && (k == 1 || k == 2))) continue;
        o.code = DESERIALIZE; o.a = k; out.push_back(o);
      }
      // handles
      for (int h = 0; h < NHANDLES; h++) {
        if (!AB.full && h > 0) continue;
        o.code = HANDLE_TAKE; o.a = h; out.push_back(o);
      }
    }
    // document-level operations
    Op o;
    o.doc = d;
    o.code = DOC_CLEAR; out.push_back(o);
    o.code = SHRINK; out.push_back(o);
    for (int d2 = 0; d2 < 2; d2++) {
      o.doc2 = d2;
      o.code = DOC_COPY_ASSIGN; out.push_back(o);
      if (d2 != d) { o.code = DOC_MOVE_ASSIGN; out.push_back(o); }
      o.code = DOC_SET_DOC; out.push_back(o);
      for (auto& p2 : paths[d2]) {
        if (p2.empty() && !AB.full) continue;
        o.path2 = p2;
        o.code = DOC_FROM_VARIANT; out.push_back(o);
      }
      o.path2.clear();
    }
  }
  Op o;
  o.code = DOC_SWAP;
  out.push_back(o);
}

// ------------------------------------------------------------------------------------------- execution + oracle
struct StepResult {
  std::string out;  // protocol lines: V\tclause\tdetail | S\tkey | O\toutcome | N
  void viol(const std::string& clause, const std::string& detail) {
    std::string d = detail;
    for (auto& c : d) if (c == '\n' || c == '\t') c = ' ';
    out += "V\t" + clause + "\t" + d + "\n";
  }
};

inline std::string worldModelKey(const World& W) {
  std::string k = "M0=" + mtext(W.M[0]) + "|M1=" + mtext(W.M[1]) + "|al=" + std::to_string(W.alloc[0]) + std::to_string(W.alloc[1]);
  for (int h = 0; h < NHANDLES; h++)
    k += "|R" + std::to_string(h) + "=" + (W.H[h].alive ? "D" + std::to_string(W.H[h].doc) + pathText(W.H[h].path) : std::string("-"));
  return k;
}

struct Options {
  bool checkModel = true;   // C04 clauses
  bool checkLedger = true;  // C06 clauses
};

// observation of everything observable: both documents + live handles
inline std::string observeAll(Real& R, const World& W) {
  std::string r = "D0:" + obsReal(R.D[0]->as<JsonVariantConst>()) + "|D1:" + obsReal(R.D[1]->as<JsonVariantConst>());
  for (int h = 0; h < NHANDLES; h++)
    if (W.H[h].alive) r += "|R" + std::to_string(h) + ":" + obsReal(R.RH[h]);
  return r;
}
inline std::string predictAll(World& W) {
  std::string r = "D0:" + obsModel(&W.M[0]) + "|D1:" + obsModel(&W.M[1]);
  for (int h = 0; h < NHANDLES; h++)
    if (W.H[h].alive) r += "|R" + std::to_string(h) + ":" + obsModel(at(W.M[W.H[h].doc], W.H[h].path));
  return r;
}

inline std::string concreteKey(Real& R, std::string* errors) {
#ifndef VERIF_NO_INSPECTOR
  std::string k;
  for (int d = 0; d < 2; d++) {
    Inspector::Report rep = Inspector::inspect(*R.D[d]);
    k += "|C" + std::to_string(d) + "=" + rep.key;
    if (errors && !rep.errors.empty()) *errors += "D" + std::to_string(d) + ": " + rep.errors;
  }
  return k;
#else
  (void)R;
  (void)errors;
  return "";
#endif
}

// Replays `prefix` (unchecked) and then executes `last` with all oracles.  Returns protocol text.
// Reads through the NON-const API (proxies of JsonDocument / JsonVariant / JsonArray / JsonObject) of targets that do not exist:
// an absent key, the index one and two beyond the end, a member of a member.  A read may not create anything (the caller
// compares the concrete state before and after) and must answer null / false / 0 / the default.
template <typename P>
inline void probeAbsent(P proxy, const char* what, std::string& err) {
  bool bad = false;
  if (!proxy.isNull()) bad = true;
  if (proxy.template is<JsonArray>() || proxy.template is<JsonObject>() || proxy.template is<int>() || proxy.template is<const char*>()) bad = true;
  if (!proxy.template as<JsonArray>().isNull() || !proxy.template as<JsonObject>().isNull() || !proxy.template as<JsonVariant>().isNull()) bad = true;
  if (!proxy.template as<JsonVariantConst>().isNull()) bad = true;
  if (proxy.size() != 0 || proxy.nesting() != 0) bad = true;
  if ((proxy | 5) != 5) bad = true;
  JsonVariant conv = proxy;
  if (!conv.isNull()) bad = true;
  JsonArray ca = proxy;
  JsonObject co = proxy;
  if (!ca.isNull() || !co.isNull()) bad = true;
  if (proxy["nested"].template is<JsonArray>() || !proxy[2].isNull()) bad = true;
  if (bad) err += std::string("a read of an absent target through ") + what + " does not answer null/false/0; ";
}

inline std::string probeNonConstReads(Real& R, World& W) {
  std::string err;
  for (int d = 0; d < 2; d++) {
    JsonDocument& doc = *R.D[d];
    std::vector<Path> paths = allPaths(W.M[d]);
    size_t n = 0;
    for (auto& p : paths) {
      if (++n > 6) break;
      MValue* m = at(W.M[d], p);
      if (!m) continue;
      JsonVariant v = resolve(doc, p);
      size_t beyond = m->kind == MValue::Arr ? m->a.size() : 0;
      bool hasZz = m->kind == MValue::Obj && m->member("zz");
      if (!hasZz) probeAbsent(v["zz"], "JsonVariant[key]", err);
      if (!hasZz) probeAbsent(v[std::string("zz")], "JsonVariant[std::string]", err);
      probeAbsent(v[beyond], "JsonVariant[size()]", err);
      probeAbsent(v[beyond + 1], "JsonVariant[size()+1]", err);
      if (p.empty()) {
        if (!hasZz) probeAbsent(doc["zz"], "JsonDocument[key]", err);
        probeAbsent(doc[beyond], "JsonDocument[size()]", err);
        if (!hasZz) probeAbsent(doc["zz"]["yy"], "JsonDocument[key][key]", err);
      }
      if (m->kind == MValue::Arr) probeAbsent(v.as<JsonArray>()[beyond + 1], "JsonArray[size()+1]", err);
      if (m->kind == MValue::Obj && !hasZz) probeAbsent(v.as<JsonObject>()["zz"], "JsonObject[key]", err);
    }
  }
  return err;
}

inline std::string executeTransition(const History& prefix, const Op& last, const Options& opt, bool wantSuccessor) {
  StepResult SR;
  World W;
  {
    Real R;
    for (auto& o : prefix) {
      Expect e = modelApply(W, o);
      realApply(R, o);
      if (e.resync) {
        W.M[0] = extract(R.D[0]->as<JsonVariantConst>());
        W.M[1] = extract(R.D[1]->as<JsonVariantConst>());
      }
    }
    R.A[0].takeErrors();
    R.A[1].takeErrors();
    // pre-state (for the read-only and frame checks)
    std::string preConcrete = concreteKey(R, nullptr);
    uint64_t pools0[2] = {0, 0};
    (void)pools0;
    // pool-before-free-list probe (C06): an allocate() of pool size while every document of that allocator has free slots
    bool docLevelCopy = last.code == DOC_COPY_ASSIGN || last.code == DOC_FROM_VARIANT || last.code == DOC_MOVE_ASSIGN ||
                        last.code == DOC_SWAP;
    std::string seamErrors;
#ifndef VERIF_NO_INSPECTOR
    const size_t poolBytes = size_t(ARDUINOJSON_POOL_CAPACITY) * detail::ResourceManager::slotSize;
    for (int a = 0; a < 2; a++) {
      R.A[a].seam = [&, a](const char* what, size_t n) {
        if (docLevelCopy || strcmp(what, "allocate") != 0 || n != poolBytes) return;
        int users = 0, withFree = 0;
        for (int d = 0; d < 2; d++) {
          if (Inspector::allocator(*R.D[d]) != &R.A[a]) continue;
          users++;
          if (Inspector::freeListLength(*R.D[d]) > 0) withFree++;
        }
        if (users > 0 && withFree == users) seamErrors += "a new pool was requested while the free list was not empty; ";
      };
    }
#endif
#ifdef VERIF_LIB_HEAP
    const bool preAllocLedger = W.alloc[0] != 2 && W.alloc[1] != 2;
    const uint64_t heapBefore = verif::libHeapCalls();
#endif
    Expect E = modelApply(W, last);
    std::string ret = realApply(R, last);
    R.A[0].seam = nullptr;
    R.A[1].seam = nullptr;
#ifdef VERIF_LIB_HEAP
    // both documents own a ledger allocator before and after: the operation may not have reached the C heap behind their backs
    if (opt.checkLedger && preAllocLedger && W.alloc[0] != 2 && W.alloc[1] != 2 && verif::libHeapCalls() != heapBefore)
      SR.viol("foreign-heap", std::to_string(verif::libHeapCalls() - heapBefore) +
                                  " call(s) to malloc/realloc/free by the library although every document has its own allocator");
#endif
    bool diverged = false;  // real and model disagree: the state is not explored further, whatever the property
    if (!E.ret.empty() && ret != E.ret) {
      diverged = true;
      if (opt.checkModel) SR.viol("return-value", "returned " + ret + ", the contract says " + E.ret);
    }
    if (E.resync) {
      W.M[0] = extract(R.D[0]->as<JsonVariantConst>());
      W.M[1] = extract(R.D[1]->as<JsonVariantConst>());
    }
    // ledger misuse during the operation
    std::string lerr = R.A[0].takeErrors() + R.A[1].takeErrors() + seamErrors;
    if (opt.checkLedger && !lerr.empty()) SR.viol("ledger", lerr);
    // allocator identity
    for (int d = 0; d < 2; d++)
      if (opt.checkLedger && R.D[d]->allocator() != R.allocPtr(W.alloc[d]))
        SR.viol("allocator-identity", "D" + std::to_string(d) + " does not use the allocator the contract assigns to it");
    if (opt.checkLedger && last.code == DOC_CLEAR && W.alloc[0] != W.alloc[1] && W.alloc[last.doc] != 2 &&
        !R.A[W.alloc[last.doc]].live.empty())
      SR.viol("ledger-after-clear", "blocks still live after clear(): " + R.A[W.alloc[last.doc]].liveSignature());
    // observation (read-only: allocators frozen, concrete state must not move)
    std::string cerr;
    std::string postConcrete = concreteKey(R, &cerr);
    R.A[0].frozen = R.A[1].frozen = true;
    std::string seen = observeAll(R, W);
    std::string perr = probeNonConstReads(R, W);
    R.A[0].frozen = R.A[1].frozen = false;
    if (opt.checkModel && !perr.empty()) SR.viol("readonly-answer", perr);
    std::string rerr = R.A[0].takeErrors() + R.A[1].takeErrors();
    if (opt.checkLedger && !rerr.empty()) SR.viol("readonly-allocates", rerr);
    std::string postConcrete2 = concreteKey(R, nullptr);
    if (opt.checkModel && postConcrete2 != postConcrete) SR.viol("readonly-mutates", "the concrete state changed during observation");
    if (opt.checkModel && !E.mutates && !E.resync && postConcrete != preConcrete && last.code != SHRINK && last.code != HANDLE_TAKE)
      SR.viol("noop-mutates", "an operation that the contract defines as a no-op changed the concrete state");
    std::string want = predictAll(W);
    if (seen != want) diverged = true;
    if (opt.checkModel && seen != want) {
      // locate the first difference for the report
      size_t i = 0;
      while (i < seen.size() && i < want.size() && seen[i] == want[i]) i++;
      size_t from = i > 60 ? i - 60 : 0;
      SR.viol("model", "observation differs at offset " + std::to_string(i) + ": real ..." + seen.substr(from, 160) + " vs model ..." +
                           want.substr(from, 160) + " | serialized D0=" + R.D[0]->as<std::string>().substr(0, 120) + " D1=" +
                           R.D[1]->as<std::string>().substr(0, 120));
    }
    if (!cerr.empty()) {
      bool ledgerKind = cerr.find("string node") != std::string::npos || cerr.find("leaked") != std::string::npos ||
                        cerr.find("de-duplication") != std::string::npos;
      if (ledgerKind ? opt.checkLedger : opt.checkModel) SR.viol(ledgerKind ? "inspector-memory" : "inspector-shape", cerr);
      if (!ledgerKind && opt.checkLedger && cerr.find("free list") != std::string::npos) SR.viol("inspector-memory", cerr);
    }
    // a state reached by a violating transition is not explored further (its model is no longer trustworthy)
    if (wantSuccessor && !diverged && SR.out.find("V\t") == std::string::npos) {
      std::string key = worldModelKey(W) + postConcrete;
      SR.out += "S\t" + key + "\n";
      if (postConcrete != preConcrete || E.mutates) SR.out += "N\n";
    }
    SR.out += "O\t" + std::string(kCodeName[last.code]) + ":" + ret + (E.alias.empty() ? "" : ":" + E.alias) + "\n";
    for (int h = 0; h < NHANDLES; h++) R.RH[h] = JsonVariant();
    std::string derr = R.destroyDocs();
    if (opt.checkLedger && !derr.empty()) SR.viol("ledger-at-destruction", derr);
  }
  return SR.out;
}

inline bool risky(const Op& o) {
  if (o.code == SET_VARIANT || o.code == ADD_VARIANT || o.code == ARRAY_SET || o.code == OBJECT_SET) return aliasRelation(o) != "none";
  if (o.code == DOC_SET_DOC) return o.doc == o.doc2;
  if (o.code == DOC_FROM_VARIANT) return false;
  return false;
}

// `W` (the model world before `last`) adds the kind of the destination to the key of a copy operation, so that a known-finding
// matcher can tell "the destination is converted / cleared before the source is read" from anything else
inline std::string caseKey(const std::string& cfg, const History& prefix, const Op& last, const World* W = nullptr) {
  bool copyOp = last.code == SET_VARIANT || last.code == ADD_VARIANT || last.code == ARRAY_SET || last.code == OBJECT_SET || last.code == DOC_SET_DOC;
  std::string alias = copyOp ? (last.code == DOC_SET_DOC ? std::string(last.doc == last.doc2 ? "self" : "none") : aliasRelation(last)) : "-";
  if (copyOp && W) {
    World& w = const_cast<World&>(*W);
    MValue* d = at(w.M[last.doc], last.path);
    alias += std::string(":dst=") + (!d || d->kind == MValue::Null ? "null" : d->kind == MValue::Arr ? "array" : d->kind == MValue::Obj ? "object" : "scalar");
  }
  History h = prefix;
  h.push_back(last);
  return "hist:cfg=" + cfg + "|ops=" + histText(prefix) + "|last=" + kCodeName[last.code] + ":alias=" + alias + ":" + opText(last) +
         "|raw=" + histRaw(h);
}

inline std::string cfgName() {
  return "id" + std::to_string(ARDUINOJSON_SLOT_ID_SIZE) + ",cap" + std::to_string(ARDUINOJSON_POOL_CAPACITY) + ",init" +
         std::to_string(ARDUINOJSON_INITIAL_POOL_COUNT) + (gApi == 1 ? ",api=handles" : "");
}

// ------------------------------------------------------------------------------------------- BFS level
struct Frontier {
  std::vector<std::pair<std::string, std::string>> states;  // (hash hex, raw history), sorted by hash
  size_t seenBefore = 0;
};

inline std::string hash128(const std::string& s) {
  uint64_t a = fnv1a(s), b = fnv1a(s, 0x9e3779b97f4a7c15ULL);
  char buf[40];
  snprintf(buf, sizeof buf, "%016llx%016llx", (unsigned long long)a, (unsigned long long)b);
  return buf;
}

inline void loadLevelFiles(const std::string& dir, int level, std::vector<std::pair<std::string, std::string>>& out) {
  // files: <dir>/L<level>.s<shard>.f<from>.txt ; lines: hash \t rawhistory
  for (int s = 0; s < 4096; s++) {
    bool any = false;
    for (int seg = 0; seg < 4096; seg++) {
      std::string path = dir + ".L" + std::to_string(level) + ".s" + std::to_string(s) + ".g" + std::to_string(seg) + ".txt";
      std::ifstream f(path);
      if (!f) break;
      any = true;
      std::string line;
      while (std::getline(f, line)) {
        size_t t = line.find('\t');
        if (t == std::string::npos) continue;
        out.emplace_back(line.substr(0, t), line.substr(t + 1));
      }
    }
    if (!any && s > 64) break;
  }
}

// --init=<name>: the search starts from a state other than two empty documents (the prefix is part of every history)
static std::string gInitRaw;
inline History initHistory(const std::string& name) {
  History h;
  if (name == "bulk") {  // D0 parsed from a 9-slot text: three pools, pool table on the heap, shrunk by the deserializer
    Op o;
    o.code = DESERIALIZE;
    o.doc = 0;
    o.a = BULK_TEXT;
    h.push_back(o);
  } else if (name == "bulk-freed") {  // as bulk, then two elements removed: a populated free list across pools
    h = initHistory("bulk");
    Op r;
    r.code = REMOVE_INDEX;
    r.doc = 0;
    r.a = 6;
    h.push_back(r);
    r.a = 1;
    h.push_back(r);
  }
  return h;
}

inline Frontier buildFrontier(const std::string& dir, int level, size_t cap, bool& capped) {
  Frontier F;
  capped = false;
  if (level == 1) {
    F.states.emplace_back(hash128("init"), gInitRaw);
    return F;
  }
  std::set<std::string> seen;
  seen.insert(hash128("init"));
  for (int l = 1; l < level - 1; l++) {
    std::vector<std::pair<std::string, std::string>> v;
    loadLevelFiles(dir, l, v);
    for (auto& kv : v) seen.insert(kv.first);
  }
  F.seenBefore = seen.size();
  std::vector<std::pair<std::string, std::string>> v;
  loadLevelFiles(dir, level - 1, v);
  std::sort(v.begin(), v.end());
  for (size_t i = 0; i < v.size(); i++) {
    if (i && v[i].first == v[i - 1].first) continue;  // same state: keep the smallest history
    if (seen.count(v[i].first)) continue;
    F.states.push_back(v[i]);
  }
  if (cap && F.states.size() > cap) {
    F.states.resize(cap);
    capped = true;
  }
  return F;
}

inline void applyProtocol(Ctx& C, const std::string& out, std::string* successorKey) {
  size_t i = 0;
  while (i < out.size()) {
    size_t j = out.find('\n', i);
    if (j == std::string::npos) j = out.size();
    std::string line = out.substr(i, j - i);
    i = j + 1;
    if (line.empty()) continue;
    if (line[0] == 'V') {
      size_t t = line.find('\t', 2);
      C.fail(line.substr(2, t - 2), line.substr(t + 1));
    } else if (line[0] == 'S') {
      if (successorKey) *successorKey = line.substr(2);
    } else if (line[0] == 'O') {
      C.outcome(line.substr(2));
    } else if (line[0] == 'N') {
      C.nontrivial();
    }
  }
}

inline void runLevel(Ctx& C) {
  int level = atoi(C.opt("level", "1").c_str());
  int maxLevel = atoi(C.opt("depth", "3").c_str());
  // level files of one search are <workdir>/<tag>.L<level>.s<shard>.g<segment>.txt; the tag keeps the searches of one
  // property (different alphabets / geometries) apart
  std::string dir = C.opt("workdir", "/tmp/hx-work") + "/" + C.opt("tag", "search");
  size_t cap = size_t(atol(C.opt("cap", "0").c_str()));
  Alphabet AB;
  AB.full = C.opt("alphabet", "full") == "full";
  gApi = C.opt("api", "variant") == "handles" ? 1 : 0;
  gInitRaw = histRaw(initHistory(C.opt("init", "")));
  Options opt;
  opt.checkModel = C.property != "C06";
  opt.checkLedger = C.property != "C04";
  std::string replay = C.opt("replay-history", "");
  std::string cfg = cfgName();
  if (!replay.empty()) {
    History h = histParse(replay);
    Op last = h.back();
    h.pop_back();
    C.verbose = true;
    C.index = 1;
    World Wr;
    {
      Real Rr;
      for (auto& o : h) {
        Expect e = modelApply(Wr, o);
        realApply(Rr, o);
        if (e.resync) { Wr.M[0] = extract(Rr.D[0]->as<JsonVariantConst>()); Wr.M[1] = extract(Rr.D[1]->as<JsonVariantConst>()); }
      }
    }
    C.begin(caseKey(cfg, h, last, &Wr));
    std::string out = executeTransition(h, last, opt, true);
    applyProtocol(C, out, nullptr);
    printf("%s", out.c_str());
    C.end();
    return;
  }
  bool capped = false;
  Frontier F = buildFrontier(dir, level, cap, capped);
  if (capped) {
    C.complete = false;
    C.note("state cap reached at level " + std::to_string(level) + ": frontier truncated to " + std::to_string(cap));
  }
  // successors of this shard go to a fresh segment file
  std::string segPath;
  for (int seg = 0; seg < 4096; seg++) {
    segPath = dir + ".L" + std::to_string(level) + ".s" + std::to_string(C.shard) + ".g" + std::to_string(seg) + ".txt";
    if (access(segPath.c_str(), F_OK) != 0) break;
  }
  FILE* segf = fopen(segPath.c_str(), "w");
  if (!segf) {
    perror(segPath.c_str());
    exit(3);
  }
  std::set<std::string> emitted;
  uint64_t transitions = 0, forks = 0, skippedKnown = 0, stateIndex = 0, replayed = 0;
  const bool noAlias = C.flag("no-alias");
  std::map<int, int> knownRuns;
  for (auto& st : F.states) {
    if (C.expired()) break;
    History h = histParse(st.second);
    World W;
    bool needReal = false;
    for (auto& o : h) {
      Expect e = modelApply(W, o);
      if (e.resync) needReal = true;
    }
    if (needReal) {  // the model of this state depends on a re-synchronisation: redo with the real documents
      World W2;
      Real R;
      for (auto& o : h) {
        Expect e = modelApply(W2, o);
        realApply(R, o);
        if (e.resync) {
          W2.M[0] = extract(R.D[0]->as<JsonVariantConst>());
          W2.M[1] = extract(R.D[1]->as<JsonVariantConst>());
        }
      }
      W = W2;
    }
    // canon-on-replay: replaying the stored history must reproduce the stored canonical key
    if (level > 1 && (stateIndex++ % uint64_t(C.nshards)) == uint64_t(C.shard)) {
      World Wc;
      Real Rc;
      for (auto& o : h) {
        Expect e = modelApply(Wc, o);
        realApply(Rc, o);
        if (e.resync) { Wc.M[0] = extract(Rc.D[0]->as<JsonVariantConst>()); Wc.M[1] = extract(Rc.D[1]->as<JsonVariantConst>()); }
      }
      if (hash128(worldModelKey(Wc) + concreteKey(Rc, nullptr)) != st.first) {
        fprintf(stderr, "NONDETERMINISM: replay of a stored history does not reproduce its canonical key: %s\n", histText(h).c_str());
        exit(2);
      }
      replayed++;
    }
    std::vector<Op> ops;
    enabledOps(W, AB, ops);
    for (auto& op : ops) {
      if (noAlias && risky(op)) continue;  // aliasing copies belong to C04 (known finding D11/D12)
      if (!C.take()) continue;
      std::string key = caseKey(cfg, h, op, &W);
      if (risky(op)) {
        // transitions covered by a listed known finding are executed (in a forked child) only a few times per
        // shard and level: enough to tell whether the finding still reproduces, without paying a fork for each
        int k = C.matchKnown(key);
        if (k >= 0 && ++knownRuns[k] > 6) {
          skippedKnown++;
          continue;
        }
      }
      C.begin(key);
      transitions++;
      std::string out;
      bool wantSucc = level < maxLevel;
      if (risky(op)) {
        forks++;
        IsolatedResult ir = runIsolated([&]() { return executeTransition(h, op, opt, wantSucc); });
        if (!ir.ok) C.fail("crash", ir.describe());
        out = ir.out;
      } else {
        out = executeTransition(h, op, opt, wantSucc);
      }
      std::string succ;
      applyProtocol(C, out, &succ);
      if (!succ.empty()) {
        std::string hsh = hash128(succ);
        if (emitted.insert(hsh).second) {
          History full = h;
          full.push_back(op);
          fprintf(segf, "%s\t%s\n", hsh.c_str(), histRaw(full).c_str());
        }
      }
      C.end();
    }
  }
  fclose(segf);
  C.metrics["transitions"] += double(transitions);
  C.metrics["traces_validated_against_impl"] += double(transitions);
  C.metrics["forked_transitions"] += double(forks);
  C.metrics["states_whose_key_was_reproduced_by_replay"] += double(replayed);
  C.metrics["transitions_skipped_as_known_finding"] += double(skippedKnown);
  if (C.shard == 0) {
    C.metrics["states"] += double(F.states.size());
    C.metrics["frontier_L" + std::to_string(level)] += double(F.states.size());
  }
  C.bound("level " + std::to_string(level) + " of " + std::to_string(maxLevel) + " (" + (AB.full ? "full" : "reduced") +
          " alphabet, geometry " + cfg + ")");
}

}  // namespace hx
