// C15 — the nesting limit bounds recursion for every input.
//
// mode "depth": for every nesting limit L in 0..255 (and the default, no option) x every depth d of a
//   set of nested-container families (JSON and MessagePack; closed, truncated, malformed; bare, inside a
//   member/element the filter discards, inside a kept one) the returned code must be TooDeep iff the
//   input opens a container at depth L+1 before any other error, else the code the un-limited
//   reference gives; Ok implies nesting() <= L.
// mode "stack" (non-sanitized -O1 build): a custom reader records the lowest stack address seen by
//   read()/readBytes(); the stack consumed under limit L must not depend on the input (its depth, its
//   length) and must grow at most linearly with L.
//
// The oracle is an iterative (explicit stack) structural scanner written here, cross-checked against
// engine/refjson.hpp / engine/refmsgpack.hpp on every text with d <= 300.
#pragma once
#include <ArduinoJson.h>

#include <algorithm>

#include "common.hpp"
#include "model.hpp"
#include "refjson.hpp"
#include "refmsgpack.hpp"

namespace ix_depth {
using namespace ArduinoJson;
using namespace verif;

// ------------------------------------------------------------------------------------------ oracle
enum Code { kOk, kEmpty, kIncomplete, kInvalid, kTooDeep, kOther };
static const char* kCodeName[] = {"Ok", "EmptyInput", "IncompleteInput", "InvalidInput", "TooDeep", "Other"};

inline Code codeOf(DeserializationError e) {
  switch (e.code()) {
    case DeserializationError::Ok: return kOk;
    case DeserializationError::EmptyInput: return kEmpty;
    case DeserializationError::IncompleteInput: return kIncomplete;
    case DeserializationError::InvalidInput: return kInvalid;
    case DeserializationError::TooDeep: return kTooDeep;
    default: return kOther;
  }
}

struct Scan {
  Code code = kOk;      // classification without any nesting limit
  size_t maxDepth = 0;  // deepest container opened before the end / the first error (1-based)
};

// Strict structural JSON scan of ONE value, left to right, explicit stack (no recursion).
inline Scan scanJson(const std::string& t) {
  Scan r;
  size_t p = 0, n = t.size();
  std::vector<char> st;
  enum { V, VE, KE, K, C, CE } s = V;
  bool any = false;
  auto str = [&]() -> Code {  // p at the opening quote
    p++;
    for (;;) {
      if (p >= n) return kIncomplete;
      char c = t[p++];
      if (c == '"') return kOk;
      if (c == '\\') {
        if (p >= n) return kIncomplete;
        p++;
      }
    }
  };
  auto lit = [&](const char* w) -> Code {
    for (size_t i = 0; w[i]; i++) {
      if (p >= n) return kIncomplete;
      if (t[p] != w[i]) return kInvalid;
      p++;
    }
    return kOk;
  };
  for (;;) {
    while (p < n && (t[p] == ' ' || t[p] == '\t' || t[p] == '\n' || t[p] == '\r')) p++;
    if (p >= n) {
      r.code = any ? kIncomplete : kEmpty;
      return r;
    }
    any = true;
    char c = t[p];
    bool done = false;  // a complete value (scalar or closed container) was just read
    switch (s) {
      case VE:
        if (c == ']') { p++; st.pop_back(); done = true; break; }
        /* fallthrough */
      case V:
        if (c == '[' || c == '{') {
          st.push_back(c);
          if (st.size() > r.maxDepth) r.maxDepth = st.size();
          p++;
          s = c == '[' ? VE : KE;
          continue;
        }
        {
          Code k;
          if (c == '"') k = str();
          else if (c == 't') k = lit("true");
          else if (c == 'f') k = lit("false");
          else if (c == 'n') k = lit("null");
          else if (c == '-' || (c >= '0' && c <= '9')) {
            while (p < n && ((t[p] >= '0' && t[p] <= '9') || t[p] == '-' || t[p] == '+' || t[p] == '.' || t[p] == 'e' || t[p] == 'E')) p++;
            k = kOk;
          } else k = kInvalid;
          if (k != kOk) { r.code = k; return r; }
        }
        done = true;
        break;
      case KE:
        if (c == '}') { p++; st.pop_back(); done = true; break; }
        /* fallthrough */
      case K: {
        if (c != '"') { r.code = kInvalid; return r; }
        Code k = str();
        if (k != kOk) { r.code = k; return r; }
        s = C;
        continue;
      }
      case C:
        if (c != ':') { r.code = kInvalid; return r; }
        p++;
        s = V;
        continue;
      case CE:
        if (c == ',') { p++; s = st.back() == '[' ? V : K; continue; }
        if (c == (st.back() == '[' ? ']' : '}')) { p++; st.pop_back(); done = true; break; }
        r.code = kInvalid;
        return r;
    }
    if (done) {
      if (st.empty()) { r.code = kOk; return r; }
      s = CE;
    }
  }
}

// Strict MessagePack scan of ONE object, explicit stack.
inline Scan scanMsgPack(const std::string& bytes) {
  Scan r;
  auto b = reinterpret_cast<const unsigned char*>(bytes.data());
  size_t p = 0, n = bytes.size();
  if (n == 0) { r.code = kEmpty; return r; }
  struct Frame { uint64_t remaining; bool isMap; };
  std::vector<Frame> st;
  for (;;) {
    if (p >= n) { r.code = kIncomplete; return r; }
    bool keyPos = !st.empty() && st.back().isMap && (st.back().remaining % 2 == 0);
    unsigned c = b[p++];
    bool isStr = (c & 0xe0) == 0xa0 || c == 0xd9 || c == 0xda || c == 0xdb;
    if (keyPos && !isStr) { r.code = kInvalid; return r; }
    size_t payload = 0;   // bytes that follow the (complete) header
    int lenBytes = 0;     // width of a length field
    int container = 0;    // 1 array, 2 map
    uint64_t count = 0;
    if (c <= 0x7f || c >= 0xe0) payload = 0;
    else if ((c & 0xe0) == 0xa0) payload = c & 0x1f;
    else if ((c & 0xf0) == 0x90) { container = 1; count = c & 0x0f; }
    else if ((c & 0xf0) == 0x80) { container = 2; count = c & 0x0f; }
    else switch (c) {
      case 0xc0: case 0xc2: case 0xc3: break;
      case 0xc1: r.code = kInvalid; return r;
      case 0xc4: case 0xd9: lenBytes = 1; break;
      case 0xc5: case 0xda: lenBytes = 2; break;
      case 0xc6: case 0xdb: lenBytes = 4; break;
      case 0xc7: lenBytes = 1; payload = 1; break;
      case 0xc8: lenBytes = 2; payload = 1; break;
      case 0xc9: lenBytes = 4; payload = 1; break;
      case 0xca: payload = 4; break;
      case 0xcb: payload = 8; break;
      case 0xcc: case 0xd0: payload = 1; break;
      case 0xcd: case 0xd1: payload = 2; break;
      case 0xce: case 0xd2: payload = 4; break;
      case 0xcf: case 0xd3: payload = 8; break;
      case 0xd4: payload = 2; break;
      case 0xd5: payload = 3; break;
      case 0xd6: payload = 5; break;
      case 0xd7: payload = 9; break;
      case 0xd8: payload = 17; break;
      case 0xdc: container = 1; lenBytes = 2; break;
      case 0xdd: container = 1; lenBytes = 4; break;
      case 0xde: container = 2; lenBytes = 2; break;
      case 0xdf: container = 2; lenBytes = 4; break;
    }
    if (lenBytes) {
      if (n - p < size_t(lenBytes)) { r.code = kIncomplete; return r; }
      uint64_t v = 0;
      for (int i = 0; i < lenBytes; i++) v = (v << 8) | b[p++];
      if (container) count = v; else payload += size_t(v);
    }
    if (container) {
      if (st.size() + 1 > r.maxDepth) r.maxDepth = st.size() + 1;  // the container is open once its header is complete
      if (count) {
        st.push_back({container == 2 ? count * 2 : count, container == 2});
        continue;
      }
    } else {
      if (n - p < payload) { r.code = kIncomplete; return r; }
      p += payload;
    }
    // a complete object was read: account for it in the enclosing containers
    for (;;) {
      if (st.empty()) { r.code = kOk; return r; }
      if (--st.back().remaining) break;
      st.pop_back();
    }
  }
}

// ------------------------------------------------------------------------------------------ families
struct Text {
  std::string bytes;
  bool closed = true;   // false: the text ends inside the family (a wrapper must not append anything)
  long tolerantAt = -1; // family depth at which a header is cut in the middle (TooDeep or IncompleteInput both fine there)
  bool valid = true;    // false: family does not exist for this d
};

inline std::string rep(const std::string& u, size_t n) {
  std::string r;
  r.reserve(u.size() * n);
  for (size_t i = 0; i < n; i++) r += u;
  return r;
}
inline std::string B(std::initializer_list<int> l) {
  std::string r;
  for (int c : l) r.push_back(char(c));
  return r;
}

struct Family {
  std::string name;
  bool msgpack;
  std::function<Text(size_t)> make;
};

inline Text closedText(const std::string& s) { Text t; t.bytes = s; return t; }
inline Text openText(const std::string& s) { Text t; t.bytes = s; t.closed = false; return t; }
inline Text noText() { Text t; t.valid = false; return t; }

inline std::string altOpen(size_t d, bool arrayFirst) {
  std::string r;
  for (size_t i = 0; i < d; i++) r += ((i % 2 == 0) == arrayFirst) ? "[" : "{\"a\":";
  return r;
}
inline std::string altClose(size_t d, bool arrayFirst) {
  std::string r;
  for (size_t i = d; i-- > 0;) r += ((i % 2 == 0) == arrayFirst) ? "]" : "}";
  return r;
}

inline std::vector<Family> jsonFamilies() {
  std::vector<Family> F;
  auto add = [&](const char* n, std::function<Text(size_t)> f) { F.push_back({n, false, f}); };
  add("arr-open", [](size_t d) { return openText(rep("[", d)); });
  add("arr-empty", [](size_t d) { return closedText(rep("[", d) + rep("]", d)); });
  add("arr-num", [](size_t d) { return closedText(rep("[", d) + "1" + rep("]", d)); });
  add("arr-str", [](size_t d) { return closedText(rep("[", d) + "\"s\"" + rep("]", d)); });
  add("arr-true", [](size_t d) { return closedText(rep("[", d) + "true" + rep("]", d)); });
  add("arr-null", [](size_t d) { return closedText(rep("[", d) + "null" + rep("]", d)); });
  add("arr-ws", [](size_t d) { return closedText(rep("[ \n", d) + "1" + rep("\t]\r", d)); });
  add("obj-open", [](size_t d) { return openText(rep("{\"a\":", d)); });
  add("obj-num", [](size_t d) { return closedText(rep("{\"a\":", d) + "1" + rep("}", d)); });
  add("obj-empty", [](size_t d) { return d ? closedText(rep("{\"a\":", d - 1) + "{}" + rep("}", d - 1)) : noText(); });
  add("alt-ao-num", [](size_t d) { return closedText(altOpen(d, true) + "1" + altClose(d, true)); });
  add("alt-oa-num", [](size_t d) { return closedText(altOpen(d, false) + "1" + altClose(d, false)); });
  add("alt-ao-open", [](size_t d) { return openText(altOpen(d, true)); });
  add("alt-oa-open", [](size_t d) { return openText(altOpen(d, false)); });
  // an empty array before the deeper one at every level: depth d+1 is first reached by the sibling of level d
  add("arr-sib", [](size_t d) { return closedText(rep("[[],", d) + "1" + rep("]", d)); });
  add("arr-lead", [](size_t d) { return closedText(rep("[1,", d) + "2" + rep("]", d)); });
  add("obj-lead", [](size_t d) { return closedText(rep("{\"b\":[],\"a\":", d) + "2" + rep("}", d)); });
  // NON-empty containers closed before the deeper sibling opens (a level taken by a closed container must be given back)
  add("arr-sib-ne", [](size_t d) { return closedText(rep("[[0],", d) + "1" + rep("]", d)); });
  add("arr-sib-obj", [](size_t d) { return closedText(rep("[{\"b\":0},", d) + "1" + rep("]", d)); });
  add("obj-lead-ne", [](size_t d) { return closedText(rep("{\"b\":{\"c\":0},\"a\":", d) + "2" + rep("}", d)); });
  add("obj-lead-arr", [](size_t d) { return closedText(rep("{\"b\":[0,[1]],\"a\":", d) + "2" + rep("}", d)); });
  add("arr-sib-deep", [](size_t d) { return d ? closedText(rep("[[0],", d - 1) + "[[[0]],1]" + rep("]", d - 1)) : noText(); });
  // many members / elements in front of the nested one (a limit that is consumed per sibling, 8-bit counters)
  add("arr-many", [](size_t d) { return closedText(rep("[" + rep("0,", 15), d) + "1" + rep("]", d)); });
  add("obj-many", [](size_t d) {
    std::string unit = "{";
    for (int i = 0; i < 15; i++) unit += "\"k" + std::to_string(i) + "\":null,";
    return closedText(rep(unit + "\"a\":", d) + "2" + rep("}", d));
  });
  // malformed at the bottom: InvalidInput unless the limit is hit first
  add("arr-bad", [](size_t d) { return openText(rep("[", d) + "!"); });
  return F;
}

inline std::vector<Family> msgpackFamilies() {
  std::vector<Family> F;
  auto add = [&](const std::string& n, std::function<Text(size_t)> f) { F.push_back({n, true, f}); };
  struct Kind { const char* name; std::string header; std::string key; int headerLen; };
  std::vector<Kind> kinds = {
      {"fixarray", B({0x91}), "", 1},
      {"array16", B({0xdc, 0, 1}), "", 3},
      {"array32", B({0xdd, 0, 0, 0, 1}), "", 5},
      {"fixmap", B({0x81}), B({0xa1, 'a'}), 1},
      {"map16", B({0xde, 0, 1}), B({0xa1, 'a'}), 3},
      {"map32", B({0xdf, 0, 0, 0, 1}), B({0xa1, 'a'}), 5},
  };
  for (auto& k : kinds) {
    std::string unit = k.header + k.key;
    add(std::string(k.name) + "-nil", [unit](size_t d) { return closedText(rep(unit, d) + B({0xc0})); });
    add(std::string(k.name) + "-open", [unit](size_t d) { return openText(rep(unit, d)); });
    if (k.headerLen > 1) {
      // the d-th header is cut after its first byte
      std::string first = k.header.substr(0, 1);
      add(std::string(k.name) + "-cut", [unit, first](size_t d) {
        if (!d) return noText();
        Text t = openText(rep(unit, d - 1) + first);
        t.tolerantAt = long(d);
        return t;
      });
    }
    if (!k.key.empty()) {
      // the d-th map header is complete but its key is missing: the map IS open
      std::string header = k.header;
      add(std::string(k.name) + "-nokey", [unit, header](size_t d) { return d ? openText(rep(unit, d - 1) + header) : noText(); });
    }
  }
  auto altUnits = [](size_t d) {
    std::string r;
    for (size_t i = 0; i < d; i++) r += (i % 2 == 0) ? B({0x91}) : B({0x81, 0xa1, 'a'});
    return r;
  };
  add("alt-nil", [altUnits](size_t d) { return closedText(altUnits(d) + B({0xc0})); });
  add("alt-open", [altUnits](size_t d) { return openText(altUnits(d)); });
  add("fixarray-int", [](size_t d) { return closedText(rep(B({0x91}), d) + B({0x01})); });
  add("fixarray-str", [](size_t d) { return closedText(rep(B({0x91}), d) + B({0xa1, 's'})); });
  add("fixarray-empty", [](size_t d) { return d ? closedText(rep(B({0x91}), d - 1) + B({0x90})) : noText(); });
  add("fixmap-empty", [](size_t d) { return d ? closedText(rep(B({0x81, 0xa1, 'a'}), d - 1) + B({0x80})) : noText(); });
  add("fixarray-lead", [](size_t d) { return closedText(rep(B({0x92, 0xc0}), d) + B({0xc0})); });
  add("fixarray-sib", [](size_t d) { return closedText(rep(B({0x92, 0x90}), d) + B({0xc0})); });
  // maps with a member in front of the nested one, for every header family: scalar, empty and non-empty containers
  struct MapKind { const char* name; std::string header2; };
  std::vector<MapKind> mkinds = {{"fixmap", B({0x82})}, {"map16", B({0xde, 0, 2})}, {"map32", B({0xdf, 0, 0, 0, 2})}};
  for (auto& mk : mkinds) {
    std::string h = mk.header2;
    add(std::string(mk.name) + "-lead", [h](size_t d) { return closedText(rep(h + B({0xa1, 'b', 0xc0, 0xa1, 'a'}), d) + B({0xc0})); });
    add(std::string(mk.name) + "-sib", [h](size_t d) { return closedText(rep(h + B({0xa1, 'b', 0x90, 0xa1, 'a'}), d) + B({0xc0})); });
    add(std::string(mk.name) + "-sib-ne", [h](size_t d) { return closedText(rep(h + B({0xa1, 'b', 0x81, 0xa1, 'c', 0x01, 0xa1, 'a'}), d) + B({0xc0})); });
  }
  add("fixarray-sib-ne", [](size_t d) { return closedText(rep(B({0x92, 0x91, 0x00}), d) + B({0xc0})); });
  add("fixmap-many", [](size_t d) {
    std::string unit = B({0xde, 0, 16});
    for (int i = 0; i < 15; i++) unit += B({0xa2, 'k', static_cast<unsigned char>('a' + i), 0xc0});
    unit += B({0xa1, 'a'});
    return closedText(rep(unit, d) + B({0xc0}));
  });
  add("fixarray-many", [](size_t d) { return closedText(rep(B({0xdc, 0, 16}) + std::string(15, char(0xc0)), d) + B({0xc0})); });
  add("array32-huge-open", [](size_t d) { return openText(rep(B({0xdd, 0xff, 0xff, 0xff, 0xff}), d)); });
  // malformed at the bottom: a map whose key is not a string
  add("fixmap-badkey", [](size_t d) { return d ? openText(rep(B({0x81, 0xa1, 'a'}), d - 1) + B({0x81, 0x01, 0xc0})) : noText(); });
  add("fixarray-c1", [](size_t d) { return openText(rep(B({0x91}), d) + B({0xc1})); });
  return F;
}

// ------------------------------------------------------------------------------------------ filters / wrappers
struct FilterSpec {
  const char* name;
  int kind;            // 0 none, 1 filter document given as JSON, 2 unset (null) filter document
  const char* json;    // the filter
  int wrapper;         // 0 bare, 1 object {"y":F,"x":1}, 2 array [F], 3 [[[F]]]
  bool discardsAll;    // the whole input is discarded
};
static const FilterSpec kFilters[] = {
    {"none", 0, "", 0, false},
    {"true", 1, "true", 0, false},
    {"false", 1, "false", 0, true},
    {"null", 2, "", 0, true},
    {"objskip", 1, "{\"x\":true}", 1, false},
    {"objkeep", 1, "{\"y\":true}", 1, false},
    {"arrskip", 1, "[false]", 2, false},
    {"arrkeep", 1, "[true]", 2, false},
    {"deepskip", 1, "[[[false]]]", 3, false},
};
static const size_t kNumFilters = sizeof(kFilters) / sizeof(kFilters[0]);
static const size_t kWrapDepth[] = {0, 1, 1, 3};

inline std::string wrap(const Text& t, int wrapper, bool msgpack) {
  if (wrapper == 0) return t.bytes;
  std::string pre, post;
  if (!msgpack) {
    if (wrapper == 1) { pre = "{\"y\":"; post = ",\"x\":1}"; }
    if (wrapper == 2) { pre = "["; post = "]"; }
    if (wrapper == 3) { pre = "[[["; post = "]]]"; }
  } else {
    if (wrapper == 1) { pre = B({0x82, 0xa1, 'y'}); post = B({0xa1, 'x', 0x01}); }
    if (wrapper == 2) pre = B({0x91});
    if (wrapper == 3) pre = B({0x91, 0x91, 0x91});
  }
  return pre + t.bytes + (t.closed ? post : std::string());
}

// ------------------------------------------------------------------------------------------ running the library
struct PlainReader {
  const char* p;
  const char* e;
  int read() { return p < e ? static_cast<unsigned char>(*p++) : -1; }
  size_t readBytes(char* buf, size_t n) {
    size_t k = 0;
    while (k < n && p < e) buf[k++] = *p++;
    return k;
  }
};

// One call.  Lopt < 0: no NestingLimit argument (library default).  fdoc == nullptr: no filter argument.
inline DeserializationError callSized(bool msgpack, JsonDocument& doc, const std::string& in, JsonDocument* fdoc, int Lopt) {
  using namespace DeserializationOption;
  const char* p = in.data();
  size_t n = in.size();
  if (msgpack) {
    if (fdoc) return Lopt < 0 ? deserializeMsgPack(doc, p, n, Filter(*fdoc)) : deserializeMsgPack(doc, p, n, Filter(*fdoc), NestingLimit(uint8_t(Lopt)));
    return Lopt < 0 ? deserializeMsgPack(doc, p, n) : deserializeMsgPack(doc, p, n, NestingLimit(uint8_t(Lopt)));
  }
  if (fdoc) return Lopt < 0 ? deserializeJson(doc, p, n, Filter(*fdoc)) : deserializeJson(doc, p, n, Filter(*fdoc), NestingLimit(uint8_t(Lopt)));
  return Lopt < 0 ? deserializeJson(doc, p, n) : deserializeJson(doc, p, n, NestingLimit(uint8_t(Lopt)));
}
// same through a custom reader, options in the other order
template <typename R>
inline DeserializationError callReader(bool msgpack, JsonDocument& doc, R& rd, JsonDocument* fdoc, int Lopt) {
  using namespace DeserializationOption;
  if (msgpack) {
    if (fdoc) return Lopt < 0 ? deserializeMsgPack(doc, rd, Filter(*fdoc)) : deserializeMsgPack(doc, rd, NestingLimit(uint8_t(Lopt)), Filter(*fdoc));
    return Lopt < 0 ? deserializeMsgPack(doc, rd) : deserializeMsgPack(doc, rd, NestingLimit(uint8_t(Lopt)));
  }
  if (fdoc) return Lopt < 0 ? deserializeJson(doc, rd, Filter(*fdoc)) : deserializeJson(doc, rd, NestingLimit(uint8_t(Lopt)), Filter(*fdoc));
  return Lopt < 0 ? deserializeJson(doc, rd) : deserializeJson(doc, rd, NestingLimit(uint8_t(Lopt)));
}

// (depth, all limits?)  When the flag is false only the limits L with d-3 <= L <= d+6 are run.
inline std::vector<std::pair<size_t, bool>> depthList(bool thorough) {
  std::vector<std::pair<size_t, bool>> D;
  if (thorough) {
    for (size_t d = 0; d <= 300; d++) D.push_back({d, true});
    D.push_back({1000, true});
    D.push_back({5000, true});
  } else {
    for (size_t d = 0; d <= 40; d++) D.push_back({d, true});
    for (size_t d = 41; d <= 258; d++) D.push_back({d, d == 255 || d == 256});
    D.push_back({300, true});
    D.push_back({5000, true});
  }
  return D;
}

// cross-check of the scanner against the shared references (d <= 300 keeps their recursion shallow)
inline void selfCheck(Ctx& C, const std::string& key, bool msgpack, const std::string& text, const Scan& sc) {
  if (!msgpack) {
    MValue m;
    std::string err;
    size_t depth = 0;
    bool ok = refjson::parse(text, m, &err, &depth);
    if (ok != (sc.code == kOk) || depth != sc.maxDepth)
      C.failKey(key, "selfcheck", "scanner and refjson disagree: scanner " + std::string(kCodeName[sc.code]) + " depth " +
                                      std::to_string(sc.maxDepth) + ", refjson ok=" + std::to_string(ok) + " depth " + std::to_string(depth) + " (" + err + ")");
    if (ok && m.nesting() != depth) C.failKey(key, "selfcheck", "refjson depth differs from the nesting of its value");
  } else {
    MValue m;
    size_t depth = 0, consumed = 0;
    refmp::Status s = refmp::decode(text, m, &consumed, -1, &depth);
    Code want = s == refmp::Ok ? kOk : s == refmp::Empty ? kEmpty : s == refmp::Incomplete ? kIncomplete : s == refmp::Invalid ? kInvalid : kTooDeep;
    if (want != sc.code || depth != sc.maxDepth)
      C.failKey(key, "selfcheck", "scanner and refmsgpack disagree: scanner " + std::string(kCodeName[sc.code]) + " depth " +
                                      std::to_string(sc.maxDepth) + ", refmsgpack " + refmp::statusName(s) + " depth " + std::to_string(depth));
  }
}

inline void runDepth(Ctx& C) {
  const bool T = C.thorough();
  std::vector<std::pair<size_t, bool>> D = depthList(T);
  std::vector<Family> fams = jsonFamilies();
  for (auto& f : msgpackFamilies()) fams.push_back(f);
  std::string onlyFam = C.opt("fam");
  const bool defaultOnly = C.flag("default-limit-only");  // builds with another ARDUINOJSON_DEFAULT_NESTING_LIMIT: only the no-option calls
  uint64_t calls = 0, texts = 0;
  size_t nJson = 0, nMp = 0;
  for (auto& f : fams) (f.msgpack ? nMp : nJson)++;

  for (auto& fam : fams) {
    if (!onlyFam.empty() && onlyFam != fam.name) continue;
    const char* fmt = fam.msgpack ? "msgpack" : "json";
    for (auto& dd : D) {
      const size_t d = dd.first;
      const bool fullL = dd.second;
      Text t = fam.make(d);
      if (!t.valid) continue;
      for (size_t fi = 0; fi < kNumFilters; fi++) {
        const FilterSpec& fs = kFilters[fi];
        if (fs.wrapper && t.bytes.empty()) continue;  // nothing to put into the wrapper
        // a filter that discards the whole input makes the JSON skip routines accept a lone '!' (dialect, C10/C11)
        if (!fam.msgpack && fs.discardsAll && d == 0 && fam.name == "arr-bad") continue;
        if (C.expired()) goto out;
        std::string text;
        Scan sc;
        JsonDocument fdoc;
        bool prepared = false;
        for (int Li = (defaultOnly ? 256 : 0); Li <= 256; Li++) {
          const int Lopt = Li == 256 ? -1 : Li;
          const size_t L = Li == 256 ? size_t(ARDUINOJSON_DEFAULT_NESTING_LIMIT) : size_t(Li);
          // diagonal-only depths (quick tier): only the limits around the depth of the input (wrappers and siblings add up to 4 levels)
          if (!fullL && (long(L) < long(d) - 3 || long(L) > long(d) + 6)) continue;
          if (!C.take()) continue;
          char key[200];
          snprintf(key, sizeof key, "depth:fmt=%s|fam=%s|L=%s|d=%zu|filter=%s", fmt, fam.name.c_str(),
                   Li == 256 ? "default" : std::to_string(Li).c_str(), d, fs.name);
          C.begin(key);
          if (!prepared) {
            prepared = true;
            texts++;
            text = wrap(t, fs.wrapper, fam.msgpack);
            sc = fam.msgpack ? scanMsgPack(text) : scanJson(text);
            if (d <= 300) selfCheck(C, key, fam.msgpack, text, sc);
            if (fs.kind == 1) {
              DeserializationError fe = deserializeJson(fdoc, fs.json, DeserializationOption::NestingLimit(20));  // independent of the build's default limit
              if (fe) C.fail("harness", std::string("cannot build the filter: ") + fe.c_str());
            }
          }
          // ---- the oracle
          const long cutDepth = t.tolerantAt < 0 ? -1 : long(kWrapDepth[fs.wrapper]) + t.tolerantAt;
          Code want = sc.maxDepth > L ? kTooDeep : sc.code;
          bool either = cutDepth >= 0 && sc.maxDepth <= L && size_t(cutDepth) == L + 1;  // cut header exactly at depth L+1
          long dist = long(sc.maxDepth) - long(L);
          if (dist >= -2 && dist <= 2) C.nontrivial();
          for (int in = 0; in < 2; in++) {
            JsonDocument doc;
            DeserializationError e;
            if (in == 0) {
              e = callSized(fam.msgpack, doc, text, fs.kind ? &fdoc : nullptr, Lopt);
            } else {
              PlainReader rd{text.data(), text.data() + text.size()};
              e = callReader(fam.msgpack, doc, rd, fs.kind ? &fdoc : nullptr, Lopt);
            }
            calls++;
            Code got = codeOf(e);
            const char* tag = in ? "|in=reader" : "|in=sized";
            if (in == 0) C.outcome(std::string(fmt) + ":" + kCodeName[got]);
            bool ok = either ? (got == kTooDeep || got == kIncomplete) : got == want;
            if (!ok) {
              const char* clause = want == kTooDeep ? "missing-TooDeep" : got == kTooDeep ? "spurious-TooDeep" : "code";
              C.failKey(std::string(key) + tag, clause,
                        std::string("returned ") + kCodeName[got] + ", expected " + kCodeName[want] + (either ? " or IncompleteInput" : "") +
                            "; deepest container opened before the end/first error: " + std::to_string(sc.maxDepth) + ", limit " +
                            std::to_string(L) + ", unlimited classification " + kCodeName[sc.code] + ", input " +
                            (fam.msgpack ? hex(text.substr(0, 60)) : vis(text.substr(0, 120))));
            }
            if (got == kOk && doc.nesting() > L)
              C.failKey(std::string(key) + tag, "nesting-above-limit",
                        "Ok with nesting() = " + std::to_string(doc.nesting()) + " > limit " + std::to_string(L));
          }
          C.end();
        }
      }
    }
  }
out:
  C.metrics["library_calls"] += double(calls);
  C.metrics["texts"] += double(texts);
  std::string ds = T ? "every d in 0..300 and d in {1000, 5000}"
                     : "every d in 0..40 and d in {255, 256, 300, 5000} (plus, for d in 41..258, the limits L with d-3 <= L <= d+6 only)";
  C.bound("full product: L in 0..255 and the default (no NestingLimit argument) x " + ds + " x " + std::to_string(nJson) +
          " JSON families (arrays/objects/alternating; unclosed, closed over number/string/true/null/empty bottoms, with whitespace, "
          "with leading scalar or container siblings, malformed bottom) and " + std::to_string(nMp) +
          " MessagePack families (fixarray/array16/array32/fixmap/map16/map32/alternating; closed with nil, truncated after d headers, "
          "d-th header cut after its first byte, d-th map header without key, other bottoms, siblings, count 2^32-1, non-string key, 0xc1) x 9 filter "
          "placements {none, true, false, unset document, {\"x\":true} over {\"y\":F,\"x\":1}, {\"y\":true} over the same, [false] over [F], "
          "[true] over [F], [[[false]]] over [[[F]]]} x {pointer+size, custom reader}; families that do not exist for d=0 (empty text in a wrapper, "
          "cut/nokey/empty/badkey variants) are skipped there; JSON arr-bad at d=0 under a discard-all filter is skipped (skip routines accept '!': dialect, not nesting)");
}

// ------------------------------------------------------------------------------------------ stack
struct StackReader {
  const char* p;
  const char* e;
  uintptr_t low;
  __attribute__((noinline)) void note(volatile char* m) {
    uintptr_t a = reinterpret_cast<uintptr_t>(m);
    if (a < low) low = a;
  }
  __attribute__((noinline)) int read() {
    volatile char marker = 0;
    note(&marker);
    return p < e ? static_cast<unsigned char>(*p++) : -1;
  }
  __attribute__((noinline)) size_t readBytes(char* buf, size_t n) {
    volatile char marker = 0;
    note(&marker);
    size_t k = 0;
    while (k < n && p < e) buf[k++] = *p++;
    return k;
  }
};

struct Measure {
  long stack = 0;
  Code code = kOther;
  size_t nesting = 0;
};

__attribute__((noinline)) inline Measure measure(bool msgpack, const std::string& text, JsonDocument* fdoc, int L) {
  volatile char base = 0;
  StackReader rd{text.data(), text.data() + text.size(), UINTPTR_MAX};
  JsonDocument doc;
  DeserializationError e = callReader(msgpack, doc, rd, fdoc, L);
  Measure m;
  m.code = codeOf(e);
  m.nesting = doc.nesting();
  m.stack = rd.low == UINTPTR_MAX ? 0 : long(reinterpret_cast<uintptr_t>(&base) - rd.low);
  return m;
}

// ---- growth families: inputs that get longer without getting deeper
// For a fixed limit L, family, placement and filter, the stack seen by read()/readBytes() must be the same
// for every length parameter n (within kGrowthSlack bytes, less than one frame of any routine of the parsers).
static const long kGrowthSlack = 64;

struct Growth {
  const char* name;
  bool msgpack;
  int kind;  // 0 = JSON filler for the gaps between tokens, 1 = one scalar value, 2 = one container value
  std::function<std::string(size_t)> make;
  size_t cap;       // largest length parameter
  bool stableCode;  // the returned code must not depend on n
  size_t own;       // nesting depth of the value itself
};

inline std::vector<Growth> growthFamilies() {
  std::vector<Growth> G;
  G.push_back({"ws", false, 0, [](size_t n) { return rep(" \n\t\r", (n + 3) / 4); }, 20000, true, 0});
#if ARDUINOJSON_ENABLE_COMMENTS
  G.push_back({"blockc", false, 0, [](size_t n) { return rep("/**/", n); }, 20000, true, 0});
  G.push_back({"linec", false, 0, [](size_t n) { return rep("//x\n", n); }, 20000, true, 0});
  G.push_back({"mixc", false, 0, [](size_t n) { return rep("/* a*b */ //\n\t", (n + 1) / 2); }, 20000, true, 0});
  G.push_back({"longc", false, 0, [](size_t n) { return "/*" + rep("*x/", n) + "*/ //" + rep("/", n) + "\n"; }, 20000, true, 0});
#endif
  G.push_back({"string", false, 1, [](size_t n) { return "\"" + rep("a", n) + "\""; }, 20000, true, 0});
  G.push_back({"escapes", false, 1, [](size_t n) { return "\"" + rep("\\n\\u00e9", (n + 1) / 2) + "\""; }, 20000, true, 0});
  // more than 63 characters: InvalidInput when parsed, Ok when skipped - only the stack is compared
  G.push_back({"number", false, 1, [](size_t n) { return rep("1", n); }, 20000, false, 0});
  G.push_back({"elems", false, 2, [](size_t n) { return "[" + rep("1,", n) + "\"s\"]"; }, 20000, true, 1});
  G.push_back({"elems-empty", false, 2, [](size_t n) { return "[" + rep("[],{},", n) + "null]"; }, 20000, true, 2});
  // member lookup makes object parsing quadratic in time: 2000 members at most
  G.push_back({"members", false, 2, [](size_t n) {
                 std::string r = "{";
                 for (size_t i = 0; i < n; i++) r += "\"k" + std::to_string(i) + "\":1,";
                 return r + "\"z\":null}";
               }, 2000, true, 1});
  auto len32 = [](int code, size_t n) { std::string r = B({code}); refmp::be(r, n, 4); return r; };
  G.push_back({"str32", true, 1, [len32](size_t n) { return len32(0xdb, n) + rep("a", n); }, 20000, true, 0});
  G.push_back({"bin32", true, 1, [len32](size_t n) { return len32(0xc6, n) + rep("b", n); }, 20000, true, 0});
  G.push_back({"ext32", true, 1, [len32](size_t n) { return len32(0xc9, n) + B({7}) + rep("e", n); }, 20000, true, 0});
  G.push_back({"elems", true, 2, [len32](size_t n) { return len32(0xdd, n) + rep(B({0xc0}), n); }, 20000, true, 1});
  G.push_back({"elems-empty", true, 2, [len32](size_t n) { return len32(0xdd, 2 * n) + rep(B({0x90, 0x80}), n); }, 20000, true, 2});
  G.push_back({"members", true, 2, [len32](size_t n) {
                 std::string r = len32(0xdf, n);
                 for (size_t i = 0; i < n; i++) { r += B({0xa3, 'k'}); r.push_back(char('0' + i % 10)); r.push_back(char('0' + (i / 10) % 10)); r += B({0x01}); }
                 return r;
               }, 20000, true, 1});
  G.push_back({"longkey", true, 2, [len32](size_t n) { return B({0x81}) + len32(0xdb, n) + rep("k", n) + B({0xc0}); }, 20000, true, 1});
  return G;
}

struct Placed { std::string name, text; };

// every placement of the family at length n under limit L (L >= 1)
inline std::vector<Placed> placements(const Growth& g, size_t L, size_t n) {
  std::vector<Placed> P;
  const std::string v = g.make(n);
  if (!g.msgpack) {
    if (g.kind == 0) {
      const std::string& f = v;
      std::string arr = "[" + f + "1" + f + "," + f + "2" + f + "]";
      std::string obj = "{" + f + "\"a\"" + f + ":" + f + "1" + f + "," + f + "\"b\"" + f + ":" + f + "2" + f + "}";
      P.push_back({"top", f + "1"});
      P.push_back({"top-arr", f + "[]"});
      P.push_back({"arr1", arr});
      P.push_back({"obj1", obj});
      if (L >= 2) {
        P.push_back({"arrL", rep("[", L - 1) + arr + rep("]", L - 1)});
        P.push_back({"objL", rep("{\"a\":", L - 1) + obj + rep("}", L - 1)});
      }
    } else if (g.kind == 1) {
      P.push_back({"top", v});
      P.push_back({"arr1", "[0," + v + "]"});
      P.push_back({"obj1", "{\"a\":" + v + "}"});
      if (L >= 2) {
        P.push_back({"arrL", rep("[", L) + v + rep("]", L)});
        P.push_back({"objL", rep("{\"a\":", L) + v + rep("}", L)});
      }
    } else {
      if (L >= g.own) P.push_back({"d1", v});
      if (L >= g.own + 1 && L >= 2) {
        P.push_back({"arrL", rep("[", L - g.own) + v + rep("]", L - g.own)});
        P.push_back({"objL", rep("{\"a\":", L - g.own) + v + rep("}", L - g.own)});
      }
    }
  } else {
    const size_t own = g.own;
    if (g.kind == 1) {
      P.push_back({"top", v});
      P.push_back({"arr1", B({0x92, 0x00}) + v});
      P.push_back({"map1", B({0x81, 0xa1, 'a'}) + v});
    } else {
      if (L >= own) P.push_back({"d1", v});
    }
    if (L >= own + 1 && L >= 2) {
      P.push_back({"arrL", rep(B({0x91}), L - own) + v});
      P.push_back({"mapL", rep(B({0x81, 0xa1, 'a'}), L - own) + v});
    }
  }
  return P;
}

inline std::string runGrowth(Ctx& C) {
  const char* filterNames[] = {"none", "true", "false"};
  const size_t Ns[] = {2, 20, 200, 2000, 20000};
  const size_t Ls[] = {1, 2, 3, 10, 255};
  std::vector<Growth> G = growthFamilies();
  long worst = 0;
  for (auto& g : G) {
    const char* fmt = g.msgpack ? "msgpack" : "json";
    for (size_t L : Ls) {
      // the set of placements does not depend on n
      std::vector<Placed> shape = placements(g, L, 2);
      for (size_t pi = 0; pi < shape.size(); pi++) {
        for (int fi = 0; fi < 3; fi++) {
          if (!C.take()) continue;
          JsonDocument fdocStore;
          if (fi == 1) fdocStore.set(true);
          if (fi == 2) fdocStore.set(false);
          JsonDocument* fdoc = fi ? &fdocStore : nullptr;
          char key[240];
          snprintf(key, sizeof key, "stack:fmt=%s|fam=grow-%s@%s|L=%zu|filter=%s", fmt, g.name, shape[pi].name.c_str(), L, filterNames[fi]);
          C.begin(key);
          C.nontrivial();
          Measure ref = measure(g.msgpack, shape[pi].text, fdoc, int(L));
          C.outcome(std::string(fmt) + ":grow:" + kCodeName[ref.code]);
          if (g.stableCode && ref.code != kOk) C.fail("code", std::string("n=2 returned ") + kCodeName[ref.code] + " for " + vis(shape[pi].text.substr(0, 80)));
          for (size_t n : Ns) {
            if (n == 2 || n > g.cap) continue;
            Measure m = measure(g.msgpack, placements(g, L, n)[pi].text, fdoc, int(L));
            if (g.stableCode && m.code != ref.code)
              C.fail("code", "n=" + std::to_string(n) + " returned " + kCodeName[m.code] + ", n=2 returned " + kCodeName[ref.code]);
            worst = std::max(worst, std::labs(m.stack - ref.stack));
            if (std::labs(m.stack - ref.stack) > kGrowthSlack)
              C.fail("stack-grows-with-length", "length parameter n=" + std::to_string(n) + " used " + std::to_string(m.stack) +
                                                    " bytes of stack, n=2 used " + std::to_string(ref.stack) + " (same limit, same nesting); " +
                                                    std::to_string((m.stack - ref.stack) / long(n - 2)) + " bytes per unit of length");
          }
          C.end();
        }
      }
    }
  }
  C.maxMetrics["stack_growth_with_length_max_bytes"] = double(worst);
  size_t nj = 0, nm = 0;
  for (auto& g : G) (g.msgpack ? nm : nj)++;
  return std::to_string(nj) + " JSON growth families {whitespace" +
#if ARDUINOJSON_ENABLE_COMMENTS
         ", n block comments, n line comments, mixed comments, two comments of length 3n" +
#else
         " (comment families need ARDUINOJSON_ENABLE_COMMENTS=1: not in this build)" +
#endif
         ", long string, string of n escapes, n-digit number, n scalar elements, n empty containers as elements, n members (<= 2000)} and " +
         std::to_string(nm) + " MessagePack growth families {str32, bin32, ext32 of n bytes, array32 of n nil, of 2n empty containers, map32 of n members, "
         "map with an n-byte key} x placements {before the top-level value, in every gap between the tokens of an array / object at depth 1 and at depth L; "
         "values at top level, inside an array / object at depth 1 and at depth L} x L in {1, 2, 3, 10, 255} x filters {none, true, false} x "
         "n in {2, 20, 200, 2000, 20000}: stack(n) within " + std::to_string(kGrowthSlack) + " bytes of stack(2)";
}

inline void runStack(Ctx& C) {
#if defined(__has_feature)
#if __has_feature(address_sanitizer)
  C.note("stack mode built with AddressSanitizer: frame sizes are not those of a plain build");
#endif
#endif
  struct SFam { const char* name; bool msgpack; std::function<std::string(size_t)> make; size_t extra = 0; };
  std::vector<SFam> fams = {
      {"arr-open", false, [](size_t d) { return rep("[", d); }},
      {"arr-num", false, [](size_t d) { return rep("[", d) + "1" + rep("]", d); }},
      {"obj-open", false, [](size_t d) { return rep("{\"a\":", d); }},
      {"obj-num", false, [](size_t d) { return rep("{\"a\":", d) + "1" + rep("}", d); }},
      {"alt-ao-open", false, [](size_t d) { return altOpen(d, true); }},
      {"arr-sib", false, [](size_t d) { return rep("[[],", d) + "1" + rep("]", d); }, 1},
      {"fixarray-open", true, [](size_t d) { return rep(B({0x91}), d); }},
      {"fixarray-nil", true, [](size_t d) { return rep(B({0x91}), d) + B({0xc0}); }},
      {"array16-open", true, [](size_t d) { return rep(B({0xdc, 0, 1}), d); }},
      {"array32-open", true, [](size_t d) { return rep(B({0xdd, 0, 0, 0, 1}), d); }},
      {"fixmap-open", true, [](size_t d) { return rep(B({0x81, 0xa1, 'a'}), d); }},
      {"map32-nil", true, [](size_t d) { return rep(B({0xdf, 0, 0, 0, 1, 0xa1, 'a'}), d) + B({0xc0}); }},
      {"alt-open", true, [](size_t d) {
         std::string r;
         for (size_t i = 0; i < d; i++) r += (i % 2 == 0) ? B({0x91}) : B({0x81, 0xa1, 'a'});
         return r;
       }},
  };
  const char* filterNames[] = {"none", "true", "false"};
  const bool T = C.thorough();
  long worstPerLevel = 0, worstAt255 = 0;

  for (auto& fam : fams) {
    const char* fmt = fam.msgpack ? "msgpack" : "json";
    for (int fi = 0; fi < 3; fi++) {
      JsonDocument fdocStore;
      if (fi == 1) fdocStore.set(true);
      if (fi == 2) fdocStore.set(false);
      JsonDocument* fdoc = fi ? &fdocStore : nullptr;
      // the text of depth 5000 serves every L (the parse stops at depth L+1); shorter ones are built per case
      // S(L, d): d is the depth of the input (arr-sib reaches depth p+1 with parameter p >= 1; its depths 0 and 1 do not exist: 2 is used)
      auto S = [&](int L, size_t d) { return measure(fam.msgpack, fam.make(d > fam.extra ? d - fam.extra : fam.extra), fdoc, L); };
      // linear model from the smallest limits: a = stack(0), per-level cost b = the largest of the first three increments
      // (alternating families have two different level costs)
      long s0 = S(0, 1).stack, s1 = S(1, 2).stack, s2 = S(2, 3).stack, s3 = S(3, 4).stack;
      long b = std::max(s1 - s0, std::max(s2 - s1, s3 - s2));
      long a = s0;
      for (int L = 0; L <= 255; L++) {
        if (!C.take()) continue;
        char key[200];
        snprintf(key, sizeof key, "stack:fmt=%s|fam=%s|L=%d|filter=%s", fmt, fam.name, L, filterNames[fi]);
        C.begin(key);
        C.nontrivial();
        if (b <= 0) C.fail("harness", "no per-level stack growth measured between L=0,1,2,3: " + std::to_string(s0) + "," + std::to_string(s1) + "," + std::to_string(s2) + "," + std::to_string(s3));
        Measure ref = S(L, size_t(L) + 1);
        if (ref.code != kTooDeep) C.fail("missing-TooDeep", std::string("d=L+1 returned ") + kCodeName[ref.code]);
        C.outcome(std::string(fmt) + ":" + kCodeName[ref.code]);
        // (1) deeper and longer inputs use the same stack
        std::vector<size_t> deeper = {size_t(L) + 2, size_t(2 * L + 10), 5000};
        if (T) { deeper.push_back(size_t(L) + 3); deeper.push_back(1000); deeper.push_back(20000); }
        for (size_t d : deeper) {
          Measure m = S(L, d);
          if (m.code != kTooDeep) C.fail("missing-TooDeep", "d=" + std::to_string(d) + " returned " + kCodeName[m.code]);
          if (std::labs(m.stack - ref.stack) > b)
            C.fail("stack-depends-on-input", "stack(L, d=" + std::to_string(d) + ") = " + std::to_string(m.stack) + " but stack(L, L+1) = " +
                                                 std::to_string(ref.stack) + " (one level = " + std::to_string(b) + " bytes)");
        }
        // (2) shallower inputs stay below the same bound
        std::vector<size_t> shallower = {0, 1, size_t(L / 2), size_t(L > 0 ? L - 1 : 0), size_t(L)};
        for (size_t d : shallower) {
          if (d > size_t(L) || (fam.extra && d <= fam.extra)) continue;
          Measure m = S(L, d);
          if (m.code == kTooDeep) C.fail("spurious-TooDeep", "d=" + std::to_string(d));
          if (m.code == kOk && m.nesting > size_t(L)) C.fail("nesting-above-limit", "d=" + std::to_string(d));
          if (m.stack > ref.stack + b)
            C.fail("stack-above-bound", "stack(L, d=" + std::to_string(d) + ") = " + std::to_string(m.stack) + " exceeds stack(L, L+1) = " + std::to_string(ref.stack));
        }
        // (3) at most linear in L
        double boundL = 1.10 * double(a + b * long(L)) + 64;
        if (double(ref.stack) > boundL)
          C.fail("stack-superlinear", "stack(L) = " + std::to_string(ref.stack) + " > 1.10*(a + b*L)+64 with a=" + std::to_string(a) + " b=" + std::to_string(b));
        if (L == 255) worstAt255 = std::max(worstAt255, ref.stack);
        worstPerLevel = std::max(worstPerLevel, b);
        // (4) the default limit behaves as NestingLimit(ARDUINOJSON_DEFAULT_NESTING_LIMIT)
        if (L == ARDUINOJSON_DEFAULT_NESTING_LIMIT) {
          Measure m = S(-1, size_t(L) + 1);
          Measure m2 = S(-1, 5000);
          if (m.code != kTooDeep || m2.code != kTooDeep) C.fail("missing-TooDeep", "default limit");
          if (std::labs(m.stack - ref.stack) > b || std::labs(m2.stack - ref.stack) > b)
            C.fail("stack-depends-on-input", "default limit: " + std::to_string(m.stack) + " / " + std::to_string(m2.stack) + " vs " + std::to_string(ref.stack));
        }
        C.end();
      }
    }
  }
  // inputs whose LENGTH grows without nesting: stack independent of the length
  const std::string growthBound = runGrowth(C);
  C.maxMetrics["stack_bytes_per_level_max"] = double(worstPerLevel);
  C.maxMetrics["stack_bytes_at_L255_max"] = double(worstAt255);
  C.bound(std::string("stack: 13 nested families (JSON arr/obj/alternating/sibling, MessagePack fixarray/array16/array32/fixmap/map32/alternating) x "
                      "filters {none, true, false(skip path)} x every L in 0..255: stack(L,d) measured for d in {0, 1, L/2, L-1, L, L+1, L+2, 2L+10, 5000") +
          (T ? ", L+3, 1000, 20000" : "") + "}; linear model stack(0)+b*L taken from L=0..3; " + growthBound + "; custom reader only, non-sanitized -O1 build");
}

inline void run(Ctx& C) {
  if (C.mode == "stack") runStack(C);
  else runDepth(C);
}
}  // namespace ix_depth
