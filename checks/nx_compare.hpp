// C18 — the comparison operators form one coherent relation that agrees with the values.
//
// Bounded exhaustive enumeration: every ordered pair over a value alphabet V (each element = a builder that
// stores the value through the public API with one specific storage + a reference value), both operands in
// the same and in different documents, x the six operators in every operand form (JsonVariant,
// JsonVariantConst, ElementProxy, JsonArray/JsonObject handles); plus every element of V against C++
// scalars of every integer type, float, double, bool, the string types and nullptr, on either side.
//
// Oracle = (1) the five coherence laws of the statement, (2) a reference comparator that is three-valued:
// whatever the statement does not pin down (ordering of unequal strings / raw values / containers / booleans,
// boolean against number) is DontCare and only the laws are demanded there.
#pragma once
#include <ArduinoJson.h>

#include <cmath>
#include <limits>
#include <string_view>

#include "common.hpp"

namespace nx_compare {
using namespace ArduinoJson;
using verif::Ctx;
typedef __int128 i128;

// ------------------------------------------------------------------------------------------- reference values

// Configuration of this build.  With ARDUINOJSON_USE_DOUBLE=0 a floating value stored in a document is kept as
// the nearest float (reference value = (double)(float)x); integers keep their exact 64-bit storage and a C++
// scalar operand of type double keeps its full value ("otherwise as doubles").
static const bool kStoresDouble = ARDUINOJSON_USE_DOUBLE != 0;
static const char* const kCfgSuffix = kStoresDouble ? "" : "|cfg=nodouble";
inline double stored(double d) { return kStoresDouble ? d : double(float(d)); }

enum Kind { KNull, KBool, KInt, KFlt, KStr, KRaw, KArr, KObj };
static const char* const kKindName[] = {"null", "bool", "int", "flt", "str", "raw", "arr", "obj"};

struct Ref {
  Kind kind = KNull;
  bool nullString = false;  // a null `const char*` / `JsonString()`: null for the library (set() stores null, it equals null)
  bool b = false;
  i128 i = 0;
  double d = 0;
  std::string bytes;
  std::vector<Ref> elems;
  std::vector<std::pair<std::string, Ref>> members;
};

enum Tri : uint8_t { F = 0, T = 1, DC = 2 };
struct Expect {
  Tri eq, lt, gt;
};
inline Tri triOr(Tri a, Tri b) {
  if (a == T || b == T) return T;
  if (a == DC || b == DC) return DC;
  return F;
}
inline Tri triNot(Tri a) { return a == DC ? DC : (a == T ? F : T); }
inline Tri tri(bool x) { return x ? T : F; }

inline bool isNum(const Ref& r) { return r.kind == KInt || r.kind == KFlt; }
inline double toDouble(const Ref& r) {
  if (r.kind == KFlt) return r.d;
  return r.i < 0 ? double(int64_t(r.i)) : double(uint64_t(r.i));  // the documented rule: convert to double
}

inline Expect refCompare(const Ref& a, const Ref& b);

inline Tri arrEq(const Ref& a, const Ref& b) {
  if (a.elems.size() != b.elems.size()) return F;
  Tri r = T;
  for (size_t i = 0; i < a.elems.size(); i++) {
    Tri e = refCompare(a.elems[i], b.elems[i]).eq;
    if (e == F) return F;
    if (e == DC) r = DC;
  }
  return r;
}
inline Tri objEq(const Ref& a, const Ref& b) {
  if (a.members.size() != b.members.size()) return F;
  Tri r = T;
  for (auto& m : a.members) {
    const Ref* other = nullptr;
    for (auto& n : b.members)
      if (n.first == m.first) other = &n.second;
    if (!other) return F;
    Tri e = refCompare(m.second, *other).eq;
    if (e == F) return F;
    if (e == DC) r = DC;
  }
  return r;
}

// What the statement demands of (a ? b).  Never stronger than the statement.
inline Expect refCompare(const Ref& a, const Ref& b) {
  const Expect equal = {T, F, F};         // "at most one of < == > holds"
  const Expect unequal = {F, DC, DC};     // same kind, different value, ordering not fixed
  const Expect different = {F, F, F};     // different kinds: unequal and unordered
  const Expect dontcare = {DC, DC, DC};
  if (a.kind == KNull && b.kind == KNull) return equal;
  // a null string pointer against a string: it is not equal to it under the library's own reading (null equals only
  // null); whether it is ordered against strings is not fixed by the statement
  if ((a.nullString && b.kind == KStr) || (b.nullString && a.kind == KStr)) return unequal;
  if ((a.kind == KBool && isNum(b)) || (isNum(a) && b.kind == KBool)) return dontcare;
  if (isNum(a) && isNum(b)) {
    if (a.kind == KInt && b.kind == KInt) return {tri(a.i == b.i), tri(a.i < b.i), tri(a.i > b.i)};
    double x = toDouble(a), y = toDouble(b);
    return {tri(x == y), tri(x < y), tri(x > y)};
  }
  if (a.kind != b.kind) return different;
  switch (a.kind) {
    case KBool: return a.b == b.b ? equal : unequal;
    case KStr:
    case KRaw: return a.bytes == b.bytes ? equal : unequal;
    case KArr: {
      Tri e = arrEq(a, b);
      return e == T ? equal : e == F ? unequal : dontcare;
    }
    case KObj: {
      Tri e = objEq(a, b);
      return e == T ? equal : e == F ? unequal : dontcare;
    }
    default: return equal;
  }
}

// ------------------------------------------------------------------------------------------- alphabet

struct Val {
  std::string name;     // "<storage>:<value>"
  std::string storage;  // how it was stored
  std::function<void(JsonVariant)> build;
  int unbound = 0;  // 0 bound, 1 JsonVariant(), 2 doc["missing"], 3 doc[9]
  bool nested = false;  // 2-level container of the thorough tier
  Ref ref;
};

// Names: the empty string / raw value is spelled '' ; integers beyond 10^5 as 2pN, 2pN+1, 2pN-1.
inline std::string pow2Name(i128 x) {
  // decimal for small values, 2pN, 2pN+1, 2pN-1 (and negatives) otherwise
  char buf[64];
  i128 m = x < 0 ? -x : x;
  if (m <= 100000) {
    snprintf(buf, sizeof buf, "%lld", (long long)x);
    return buf;
  }
  for (int n = 15; n <= 64; n++) {
    i128 p = i128(1) << n;
    for (int k = -1; k <= 1; k++) {
      if (m == p + k) {
        // x = sign * (2^n + k)  is written  [-]2pN[+1|-1]  for positives,  -2pN, -2pN-1 (= -(2^n+1)), -2pN+1 for negatives
        int kk = x < 0 ? -k : k;
        snprintf(buf, sizeof buf, "%s2p%d%s", x < 0 ? "-" : "", n, kk == 0 ? "" : kk > 0 ? "+1" : "-1");
        return buf;
      }
    }
  }
  snprintf(buf, sizeof buf, "%lld", (long long)x);
  return buf;
}

inline std::string dblName(double d) {
  if (std::isnan(d)) return "nan";
  if (std::isinf(d)) return d < 0 ? "-inf" : "inf";
  if (d == 0) return std::signbit(d) ? "-0" : "0";
  double m = std::fabs(d);
  if (m >= 65536 && m <= 18446744073709551616.0 && m == std::floor(m)) {
    // integral: name through the integer namer when it is exactly 2^n (+-1)
    i128 x = i128(m);
    std::string s = pow2Name(d < 0 ? -x : x);
    if (s.find('p') != std::string::npos) return s;
  }
  char buf[64];
  snprintf(buf, sizeof buf, "%.17g", d);
  std::string best = buf;
  for (int p = 1; p < 17; p++) {
    snprintf(buf, sizeof buf, "%.*g", p, d);
    if (strtod(buf, nullptr) == d) {
      best = buf;
      break;
    }
  }
  return best;
}

inline Ref refInt(i128 x) {
  Ref r;
  r.kind = KInt;
  r.i = x;
  return r;
}
inline Ref refFlt(double d) {
  Ref r;
  r.kind = KFlt;
  r.d = d;
  return r;
}
inline Ref refBool(bool b) {
  Ref r;
  r.kind = KBool;
  r.b = b;
  return r;
}
inline Ref refBytes(Kind k, const std::string& s) {
  Ref r;
  r.kind = k;
  r.bytes = s;
  return r;
}

inline Val mk(const std::string& storage, const std::string& value, std::function<void(JsonVariant)> build, Ref ref) {
  Val v;
  v.storage = storage;
  v.name = value.empty() ? storage : storage + ":" + value;
  v.build = std::move(build);
  v.ref = std::move(ref);
  return v;
}

inline const i128 P(int n) { return i128(1) << n; }

// the integer values of the alphabet
inline std::vector<i128> integers() {
  return {0,          1,          -1,           2,           10,         -10,         P(24) - 1,  P(24),       P(24) + 1,
          P(31) - 1,  P(31),      P(31) + 1,
          -P(31),     -P(31) - 1, -P(31) + 1,   P(32) - 1,   P(32),      P(32) + 1,   P(53) - 1,  P(53),       P(53) + 1,
          -P(53),     -P(53) - 1, -P(53) + 1,   P(63) - 1,   P(63),      P(63) + 1,   -P(63),     -P(63) + 1,  P(64) - 1};
}
template <typename T>
inline bool fits(i128 x) {
  return x >= i128(std::numeric_limits<T>::min()) && x <= i128(std::numeric_limits<T>::max());
}

inline std::string decimal(i128 x) {
  if (x == 0) return "0";
  bool neg = x < 0;
  std::string s;
  while (x != 0) {
    int d = int(x % 10);
    if (d < 0) d = -d;
    s.insert(s.begin(), char('0' + d));
    x /= 10;
  }
  return neg ? "-" + s : s;
}

inline Val jsonVal(const std::string& text, Ref ref) {
  return mk("json", text, [text](JsonVariant v) { deserializeJson(v, text.data(), text.size()); }, std::move(ref));
}

inline Val arrVal(const std::string& value, std::vector<Val> children) {
  Ref r;
  r.kind = KArr;
  for (auto& c : children) r.elems.push_back(c.ref);
  return mk("arr", value,
            [children](JsonVariant v) {
              JsonArray a = v.to<JsonArray>();
              for (auto& c : children) {
                JsonVariant e = a.add<JsonVariant>();
                c.build(e);
              }
            },
            r);
}
// keyMode: 0 = linked keys (const char*), 1 = copied keys (std::string)
inline Val objVal(const std::string& value, std::vector<std::pair<const char*, Val>> members, int keyMode = 0) {
  Ref r;
  r.kind = KObj;
  for (auto& m : members) r.members.push_back({m.first, m.second.ref});
  return mk("obj", value,
            [members, keyMode](JsonVariant v) {
              JsonObject o = v.to<JsonObject>();
              for (auto& m : members) {
                JsonVariant e = keyMode ? o[std::string(m.first)].to<JsonVariant>() : o[m.first].to<JsonVariant>();
                m.second.build(e);
              }
            },
            r);
}

static const char* const kLinked[] = {"", "a", "ab", "b", "\x80", "1", "abc"};
static const char* const kLinkedName[] = {"''", "a", "ab", "b", "\\x80", "1", "abc"};

struct Alphabet {
  std::vector<Val> V;
  std::map<std::string, size_t> byName;
  void add(Val v) {
    byName[v.name] = V.size();
    V.push_back(std::move(v));
  }
  const Val& get(const std::string& n) const {
    auto it = byName.find(n);
    if (it == byName.end()) {
      fprintf(stderr, "alphabet: no element %s\n", n.c_str());
      abort();
    }
    return V[it->second];
  }
};

inline Alphabet makeAlphabet(bool thorough) {
  Alphabet A;
  // ---- null and unbound (simplest first)
  A.add(mk("null", "", [](JsonVariant) {}, Ref()));  // a freshly added element, never set
  A.add(mk("null", "set", [](JsonVariant v) { v.set(nullptr); }, Ref()));
  A.add(jsonVal("null", Ref()));
  {
    Val u = mk("unbound", "", nullptr, Ref());
    u.unbound = 1;
    A.add(u);
    u = mk("unbound", "missing", nullptr, Ref());
    u.unbound = 2;
    A.add(u);
    u = mk("unbound", "index", nullptr, Ref());
    u.unbound = 3;
    A.add(u);
  }
  // ---- booleans
  A.add(mk("bool", "false", [](JsonVariant v) { v.set(false); }, refBool(false)));
  A.add(mk("bool", "true", [](JsonVariant v) { v.set(true); }, refBool(true)));
  A.add(jsonVal("true", refBool(true)));
  // ---- integers in every storage that can hold them
  for (i128 x : integers()) {
    std::string n = pow2Name(x);
    if (fits<int32_t>(x)) A.add(mk("i32", n, [x](JsonVariant v) { v.set(int32_t(x)); }, refInt(x)));
    if (fits<uint32_t>(x)) A.add(mk("u32", n, [x](JsonVariant v) { v.set(uint32_t(x)); }, refInt(x)));
    if (fits<int64_t>(x)) A.add(mk("i64", n, [x](JsonVariant v) { v.set(int64_t(x)); }, refInt(x)));
    if (fits<uint64_t>(x)) A.add(mk("u64", n, [x](JsonVariant v) { v.set(uint64_t(x)); }, refInt(x)));
  }
  // parsed from JSON text (non-negative integers take the unsigned path of the parser)
  for (i128 x : {i128(0), i128(1), i128(-1), i128(10), i128(-10), P(31), -P(31) - 1, P(32), P(53) + 1, -P(53) - 1, P(63) - 1,
                 P(63), -P(63), P(64) - 1}) {
    Val v = jsonVal(decimal(x), refInt(x));
    v.name = "json:" + pow2Name(x);
    A.add(v);
  }
  // ---- floating values
  const double inf = std::numeric_limits<double>::infinity(), nan = std::numeric_limits<double>::quiet_NaN();
  const double two63 = 9223372036854775808.0, two64 = 18446744073709551616.0, two53 = 9007199254740992.0;
  std::vector<double> floats = {0.0,        -0.0,          0.5,    -0.5,  1.0,   -1.0,   1.5,  10.0, -10.0, 16777216.0, 2147483648.0,
                                -2147483648.0, 4294967296.0, two53, -two53, two63, -two63, two64, inf,  -inf,  nan};
  for (double d : floats) {
    float f = float(d);
    A.add(mk("flt", dblName(d), [f](JsonVariant v) { v.set(f); }, refFlt(double(f))));
  }
  std::vector<double> doubles = floats;
  for (double d : {16777215.0, 16777217.0, 2147483647.0, 2147483649.0, -2147483649.0, 4294967295.0, 4294967297.0, two53 - 1, two53 + 2,
                   -(two53 - 1), two63 - 1024, two63 + 2048, -(two63 + 2048), two64 - 2048, 0.1, 1e300, -1e300, 4.9406564584124654e-324})
    doubles.push_back(d);
  for (double d : doubles) {
    // named after the value handed to set(double); without double storage the document keeps the nearest float
    // (elements beyond the float range, or that underflow to zero, are dropped in that configuration)
    double kept = stored(d);
    if (!kStoresDouble && !std::isnan(d) && kept != d && (std::isinf(kept) || kept == 0)) continue;
    A.add(mk("dbl", dblName(d), [d](JsonVariant v) { v.set(d); }, refFlt(kept)));
  }
  // JSON spellings that the number parser converts exactly
  A.add(jsonVal("0.5", refFlt(0.5)));
  A.add(jsonVal("-0.5", refFlt(-0.5)));
  A.add(jsonVal("1.0", refFlt(1.0)));
  A.add(jsonVal("1e1", refFlt(10.0)));
  A.add(jsonVal("-0.0", refFlt(-0.0)));
  A.add(jsonVal("4294967296.0", refFlt(4294967296.0)));
  // ---- strings: linked (const char*), copied (std::string), parsed
  for (size_t i = 0; i < sizeof kLinked / sizeof kLinked[0]; i++) {
    const char* p = kLinked[i];
    A.add(mk("str-linked", kLinkedName[i], [p](JsonVariant v) { v.set(p); }, refBytes(KStr, p)));
  }
  for (size_t i = 0; i < sizeof kLinked / sizeof kLinked[0]; i++) {
    std::string s = kLinked[i];
    A.add(mk("str-copied", kLinkedName[i], [s](JsonVariant v) { v.set(s); }, refBytes(KStr, s)));
  }
  {
    std::string s("a\0b", 3);
    A.add(mk("str-copied", "a\\0b", [s](JsonVariant v) { v.set(s); }, refBytes(KStr, s)));
    A.add(jsonVal("\"ab\"", refBytes(KStr, "ab")));
    A.add(jsonVal("\"a\\u0000b\"", refBytes(KStr, s)));
    // ---- raw values
    for (const char* p : {"", "1", "a", "ab", "abc"}) {
      std::string r = p;
      A.add(mk("raw", r.empty() ? "''" : r, [r](JsonVariant v) { v.set(serialized(r)); }, refBytes(KRaw, r)));
    }
    A.add(mk("raw", "a\\0b", [s](JsonVariant v) { v.set(serialized(s)); }, refBytes(KRaw, s)));
    A.add(mk("raw-linked", "ab", [](JsonVariant v) { v.set(serialized("ab")); }, refBytes(KRaw, "ab")));
  }
  // ---- arrays
  const Val i1 = A.get("i32:1"), i2 = A.get("i32:2"), u1 = A.get("u32:1"), d1 = A.get("dbl:1"), nul = A.get("null:set");
  A.add(arrVal("[]", {}));
  A.add(arrVal("[1]", {i1}));
  A.add(arrVal("[1u]", {u1}));
  A.add(arrVal("[1.0]", {d1}));
  A.add(arrVal("[1,2]", {i1, i2}));
  A.add(arrVal("[2,1]", {i2, i1}));
  A.add(arrVal("[[1]]", {arrVal("[1]", {i1})}));
  A.add(arrVal("[null]", {nul}));
  A.add(arrVal("[nan]", {A.get("dbl:nan")}));
  A.add(arrVal("[\"a\"]", {A.get("str-linked:a")}));
  {
    Ref r;
    r.kind = KArr;
    r.elems = {refInt(1), refInt(2)};
    A.add(jsonVal("[1,2]", r));
  }
  // ---- objects
  A.add(objVal("{}", {}));
  A.add(objVal("{a:1}", {{"a", i1}}));
  A.add(objVal("{a:1}/copied-key", {{"a", i1}}, 1));
  A.add(objVal("{a:1.0}", {{"a", d1}}));
  A.add(objVal("{b:1}", {{"b", i1}}));
  A.add(objVal("{a:2}", {{"a", i2}}));
  A.add(objVal("{a:1,b:2}", {{"a", i1}, {"b", i2}}));
  A.add(objVal("{b:2,a:1}", {{"b", i2}, {"a", i1}}));
  A.add(objVal("{a:2,b:1}", {{"a", i2}, {"b", i1}}));
  A.add(objVal("{a:{b:1}}", {{"a", objVal("{b:1}", {{"b", i1}})}}));
  A.add(objVal("{a:null}", {{"a", nul}}));
  A.add(objVal("{a:[1]}", {{"a", arrVal("[1]", {i1})}}));
  {
    Ref r;
    r.kind = KObj;
    r.members = {{"b", refInt(2)}, {"a", refInt(1)}};
    A.add(jsonVal("{\"b\":2,\"a\":1}", r));
  }

  // objects whose keys contain NUL, are empty, or are prefixes of one another (copied keys, and through the JSON parser)
  {
    auto skey = [&](const std::string& name, std::vector<std::pair<std::string, Val>> members) {
      Ref r;
      r.kind = KObj;
      for (auto& m : members) r.members.push_back({m.first, m.second.ref});
      A.add(mk("obj", name,
               [members](JsonVariant v) {
                 JsonObject o = v.to<JsonObject>();
                 for (auto& m : members) {
                   JsonVariant e = o[m.first].to<JsonVariant>();
                   m.second.build(e);
                 }
               },
               r));
    };
    skey("{a\\0b:1}", {{std::string("a\0b", 3), i1}});
    skey("{a\\0c:1}", {{std::string("a\0c", 3), i1}});
    skey("{a\\0:1}", {{std::string("a\0", 2), i1}});
    skey("{'':1}", {{std::string(), i1}});
    skey("{ab:1}", {{"ab", i1}});
    skey("{a:1,ab:2}", {{"a", i1}, {"ab", i2}});
    skey("{ab:2,a:1}", {{"ab", i2}, {"a", i1}});
    Ref r;
    r.kind = KObj;
    r.members = {{std::string("a\0b", 3), refInt(1)}};
    A.add(jsonVal("{\"a\\u0000b\":1}", r));
  }
  // deep containers: equality is decided level by level, whatever the depth (around the default nesting limit)
  {
    auto chainVal = [&](int depth, int style, Val leaf, const std::string& name) {
      Val cur = leaf;
      for (int d = depth; d >= 1; d--) {
        bool arr = style == 0 || (style == 2 && (d & 1));
        cur = arr ? arrVal("", {cur}) : objVal("", {{"a", cur}}, 1);
      }
      cur.name = "deep:" + name;
      cur.storage = "deep";
      return cur;
    };
    const int Lm = ARDUINOJSON_DEFAULT_NESTING_LIMIT;
    for (int d : {Lm - 1, Lm, Lm + 1, Lm + 2}) {
      A.add(chainVal(d, 0, i1, "arr^" + std::to_string(d) + "(1)"));
      A.add(chainVal(d, 0, i2, "arr^" + std::to_string(d) + "(2)"));
    }
    A.add(chainVal(Lm + 1, 1, i1, "obj^" + std::to_string(Lm + 1) + "(1)"));
    A.add(chainVal(Lm + 1, 2, i1, "alt^" + std::to_string(Lm + 1) + "(1)"));
  }

  if (thorough) {
    // 2-level nested containers over a reduced alphabet V'
    std::vector<std::string> leaves = {"i32:1",       "u32:1",     "dbl:1",         "flt:1.5",      "i64:-1", "u64:2p64-1", "i64:2p63-1",
                                       "dbl:2p63",    "dbl:nan",   "str-linked:a",  "str-copied:a", "raw:a",  "null:set",   "bool:true",
                                       "arr:[]",      "obj:{}"};
    const std::vector<std::string>& few = leaves;
    auto L = [&](const std::string& n) -> Val { return A.get(n); };
    std::vector<Val> W;
    for (auto& x : leaves) {
      Val vx = L(x);
      W.push_back(arrVal("[" + x + "]", {vx}));
      W.push_back(objVal("{a:" + x + "}", {{"a", vx}}));
      W.push_back(arrVal("[[" + x + "]]", {arrVal("", {vx})}));
      W.push_back(arrVal("[{a:" + x + "}]", {objVal("", {{"a", vx}})}));
      W.push_back(objVal("{a:[" + x + "]}", {{"a", arrVal("", {vx})}}));
      W.push_back(objVal("{a:{b:" + x + "}}", {{"a", objVal("", {{"b", vx}})}}, 1));
    }
    for (auto& x : few)
      for (auto& y : few) {
        Val vx = L(x), vy = L(y);
        W.push_back(arrVal("[" + x + "," + y + "]", {vx, vy}));
        W.push_back(arrVal("[" + x + ",[" + y + "]]", {vx, arrVal("", {vy})}));
        W.push_back(objVal("{a:" + x + ",b:" + y + "}", {{"a", vx}, {"b", vy}}));
        W.push_back(objVal("{b:" + y + ",a:" + x + "}", {{"b", vy}, {"a", vx}}));
        W.push_back(objVal("{k:{b:" + y + ",a:" + x + "}}", {{"k", objVal("", {{"b", vy}, {"a", vx}})}}));
      }
    for (auto& w : W) {
      w.storage += "2";  // nested: own storage tag
      w.nested = true;
      w.name = w.storage + w.name.substr(w.name.find(':'));
      if (!A.byName.count(w.name)) A.add(w);
    }
  }
  return A;
}

// ------------------------------------------------------------------------------------------- evaluation

enum { EQ = 1, NE = 2, LT = 4, LE = 8, GT = 16, GE = 32 };
static const char* const kOpName[] = {"==", "!=", "<", "<=", ">", ">="};

template <class A, class B>
inline uint8_t ops6(const A& a, const B& b) {
  uint8_t r = 0;
  if (a == b) r |= EQ;
  if (a != b) r |= NE;
  if (a < b) r |= LT;
  if (a <= b) r |= LE;
  if (a > b) r |= GT;
  if (a >= b) r |= GE;
  return r;
}
inline std::string bits(uint8_t x) {
  std::string s;
  for (int i = 0; i < 6; i++) s.push_back((x >> i) & 1 ? '1' : '0');
  return s;
}

struct Sig {
  uint8_t ab, ba;
  bool operator<(const Sig& o) const { return ab != o.ab ? ab < o.ab : ba < o.ba; }
};
template <class A, class B>
inline Sig both(const A& a, const B& b) {
  return {ops6(a, b), ops6(b, a)};
}

struct Case {
  Ctx& C;
  std::string lhs, rhs, side, docs;
  std::string key(const char* op) const {
    return "cmp:lhs=" + lhs + "|rhs=" + rhs + "|op=" + op + "|side=" + side + "|docs=" + docs + kCfgSuffix;
  }
};

inline std::string describe(const Expect& e) {
  auto c = [](Tri t) { return t == DC ? '?' : t == T ? '1' : '0'; };
  std::string s = "expect(eq,lt,gt)=";
  s.push_back(c(e.eq));
  s.push_back(c(e.lt));
  s.push_back(c(e.gt));
  return s;
}

// Judge one operand form.  `full` = all six operators were evaluated (otherwise only ==).
inline void judge(const Case& k, const std::string& forms, Sig s, const Expect& e, bool full = true) {
  Ctx& C = k.C;
  const bool eq = s.ab & EQ, ne = s.ab & NE, lt = s.ab & LT, le = s.ab & LE, gt = s.ab & GT, ge = s.ab & GE;
  const bool req = s.ba & EQ, rgt = s.ba & GT;
  std::string d = "forms=" + forms + " a?b(== != < <= > >=)=" + bits(s.ab) + " b?a=" + bits(s.ba) + " " + describe(e);
  // (1) the coherence laws, exactly as stated
  if (eq != req) C.failKey(k.key("=="), "law-sym-eq", "a==b differs from b==a; " + d);
  if (full) {
    if (ne != !eq) C.failKey(k.key("!="), "law-neq", "a!=b is not the negation of a==b; " + d);
    if (lt != rgt) C.failKey(k.key("<"), "law-lt-gt", "a<b differs from b>a; " + d);
    if (le != (lt || eq)) C.failKey(k.key("<="), "law-le", "a<=b differs from (a<b or a==b); " + d);
    if (ge != (gt || eq)) C.failKey(k.key(">="), "law-ge", "a>=b differs from (a>b or a==b); " + d);
    if (int(lt) + int(eq) + int(gt) > 1) C.failKey(k.key("*"), "law-trichotomy", "more than one of a<b, a==b, a>b; " + d);
  }
  // (2) agreement with the values
  Tri want[6] = {e.eq, triNot(e.eq), e.lt, triOr(e.lt, e.eq), e.gt, triOr(e.gt, e.eq)};
  for (int op = 0; op < (full ? 6 : 1); op++) {
    if (want[op] == DC) continue;
    bool got = (s.ab >> op) & 1;
    if (got != (want[op] == T))
      C.failKey(k.key(kOpName[op]), op < 2 ? "value-eq" : "value-order",
                std::string("a") + kOpName[op] + "b is " + (got ? "true" : "false") + ", the values demand " +
                    (want[op] == T ? "true" : "false") + "; " + d);
  }
}

struct Forms {
  std::map<Sig, std::string> seen;
  void add(const char* name, Sig s) {
    std::string& f = seen[s];
    if (!f.empty()) f += ",";
    f += name;
  }
};

// operand handle for a value placed in `doc`
struct Operand {
  JsonVariant v;
  bool bound = false;
  size_t index = 0;
};
inline Operand place(JsonDocument& doc, const Val& val) {
  Operand o;
  switch (val.unbound) {
    case 0: {
      o.index = doc.size();
      JsonVariant x = doc.add<JsonVariant>();
      val.build(x);
      o.bound = true;
      break;
    }
    case 1: o.v = JsonVariant(); break;
    case 2: o.v = doc["missing"].as<JsonVariant>(); break;
    default: o.v = doc[9].as<JsonVariant>(); break;
  }
  return o;
}

inline void pairCase(Ctx& C, const Val& a, const Val& b, bool sameDoc) {
  Case k{C, a.name, b.name, "vv", sameDoc ? "same" : "diff"};
  C.begin(k.key("*"));
  {
    JsonDocument docA, docB2;
    JsonDocument& docB = sameDoc ? docA : docB2;
    Operand oa = place(docA, a);
    Operand ob = place(docB, b);
    // fetch the handles after both values are stored
    if (oa.bound) oa.v = docA[oa.index].as<JsonVariant>();
    if (ob.bound) ob.v = docB[ob.index].as<JsonVariant>();
    JsonVariant aV = oa.v, bV = ob.v;
    JsonVariantConst aC = aV, bC = bV;
    Expect e = refCompare(a.ref, b.ref);
    Forms f;
    Sig first = both(aC, bC);
    f.add("const~const", first);
    f.add("var~var", both(aV, bV));
    f.add("var~const", both(aV, bC));
    f.add("const~var", both(aC, bV));
    if (oa.bound && ob.bound) f.add("proxy~proxy", both(docA[oa.index], docB[ob.index]));
    if (oa.bound) f.add("proxy~const", both(docA[oa.index], bC));
    if (ob.bound) f.add("var~proxy", both(aV, docB[ob.index]));
    if (a.ref.kind == KArr && b.ref.kind == KArr) f.add("JsonArray~JsonArray", both(aV.as<JsonArray>(), bV.as<JsonArray>()));
    if (a.ref.kind == KObj && b.ref.kind == KObj) f.add("JsonObject~JsonObject", both(aV.as<JsonObject>(), bV.as<JsonObject>()));
    // the const handles and a mutable handle against a const one, all six operators
    if (a.ref.kind == KArr && b.ref.kind == KArr) {
      f.add("JsonArrayConst~JsonArrayConst", both(aC.as<JsonArrayConst>(), bC.as<JsonArrayConst>()));
      f.add("JsonArray~JsonArrayConst", both(aV.as<JsonArray>(), bC.as<JsonArrayConst>()));
      f.add("JsonArrayConst~var", both(aC.as<JsonArrayConst>(), bV));
    }
    if (a.ref.kind == KObj && b.ref.kind == KObj) {
      f.add("JsonObjectConst~JsonObjectConst", both(aC.as<JsonObjectConst>(), bC.as<JsonObjectConst>()));
      f.add("JsonObject~JsonObjectConst", both(aV.as<JsonObject>(), bC.as<JsonObjectConst>()));
      f.add("const~JsonObjectConst", both(aC, bC.as<JsonObjectConst>()));
    }
    for (auto& kv : f.seen) judge(k, kv.second, kv.first, e);
    // the dedicated equality of the container handles
    if (a.ref.kind == KArr && b.ref.kind == KArr) {
      JsonArrayConst x = aC.as<JsonArrayConst>(), y = bC.as<JsonArrayConst>();
      judge(k, "JsonArrayConst==", Sig{uint8_t(x == y ? EQ : 0), uint8_t(y == x ? EQ : 0)}, e, false);
    }
    if (a.ref.kind == KObj && b.ref.kind == KObj) {
      JsonObjectConst x = aC.as<JsonObjectConst>(), y = bC.as<JsonObjectConst>();
      judge(k, "JsonObjectConst==", Sig{uint8_t(x == y ? EQ : 0), uint8_t(y == x ? EQ : 0)}, e, false);
    }
    C.outcome(std::string(kKindName[a.ref.kind]) + "~" + kKindName[b.ref.kind] + ":" + bits(first.ab));
    if (a.storage != b.storage) C.nontrivial();
  }
  C.end();
}

// a value compared with ITSELF (the same slot on both sides): the relation may not depend on identity
inline void selfCase(Ctx& C, const Val& a) {
  Case k{C, a.name, a.name, "vv", "self"};
  C.begin(k.key("*"));
  {
    JsonDocument doc;
    Operand oa = place(doc, a);
    if (oa.bound) oa.v = doc[oa.index].as<JsonVariant>();
    JsonVariant aV = oa.v;
    JsonVariantConst aC = aV;
    Expect e = refCompare(a.ref, a.ref);
    Forms f;
    Sig first = both(aC, aC);
    f.add("const~const", first);
    f.add("var~var", both(aV, aV));
    f.add("var~const", both(aV, aC));
    if (oa.bound) f.add("proxy~proxy", both(doc[oa.index], doc[oa.index]));
    if (a.ref.kind == KArr) f.add("JsonArray~JsonArray", both(aV.as<JsonArray>(), aV.as<JsonArray>()));
    if (a.ref.kind == KObj) f.add("JsonObject~JsonObject", both(aV.as<JsonObject>(), aV.as<JsonObject>()));
    for (auto& kv : f.seen) judge(k, kv.second, kv.first, e);
    if (a.ref.kind == KArr) {
      JsonArrayConst x = aC.as<JsonArrayConst>();
      judge(k, "JsonArrayConst==", Sig{uint8_t(x == x ? EQ : 0), uint8_t(x == x ? EQ : 0)}, e, false);
    }
    if (a.ref.kind == KObj) {
      JsonObjectConst x = aC.as<JsonObjectConst>();
      judge(k, "JsonObjectConst==", Sig{uint8_t(x == x ? EQ : 0), uint8_t(x == x ? EQ : 0)}, e, false);
    }
    C.outcome(std::string("self:") + kKindName[a.ref.kind] + ":" + bits(first.ab));
    C.nontrivial();
  }
  C.end();
}

// one alphabet element against one C++ scalar, on either side
template <class S>
inline void scalarCases(Ctx& C, const Alphabet& A, const std::string& ctype, const std::string& value, const Ref& sref, const S& s,
                        const char* matches) {
  std::string sname = value.empty() ? ctype : ctype + ":" + value;
  for (const Val& a : A.V) {
    if (a.nested) continue;  // the nested containers of the thorough tier are compared as variants only
    for (int side = 0; side < 2; side++) {
      if (!C.take()) continue;
      Case k{C, side == 0 ? a.name : sname, side == 0 ? sname : a.name, side == 0 ? "vs" : "sv", "same"};
      C.begin(k.key("*"));
      {
        JsonDocument doc;
        Operand oa = place(doc, a);
        if (oa.bound) oa.v = doc[oa.index].as<JsonVariant>();
        JsonVariant aV = oa.v;
        JsonVariantConst aC = aV;
        Forms f;
        Sig first;
        Expect e;
        if (side == 0) {
          e = refCompare(a.ref, sref);
          first = both(aC, s);
          f.add("const", first);
          f.add("var", both(aV, s));
          if (oa.bound) f.add("proxy", both(doc[oa.index], s));
        } else {
          e = refCompare(sref, a.ref);
          first = both(s, aC);
          f.add("const", first);
          f.add("var", both(s, aV));
          if (oa.bound) f.add("proxy", both(s, doc[oa.index]));
        }
        for (auto& kv : f.seen) judge(k, kv.second, kv.first, e);
        C.outcome(std::string(side == 0 ? "v~" : "s~") + kKindName[a.ref.kind] + "~" + ctype + ":" + bits(first.ab));
        if (std::string(matches).find("," + a.storage + ",") == std::string::npos) C.nontrivial();
      }
      C.end();
    }
  }
}

template <class T>
inline void intScalars(Ctx& C, const Alphabet& A, const char* ctype, const char* matches) {
  std::vector<i128> xs = integers();
  for (i128 x : {i128(127), i128(-128), i128(255), i128(32767), i128(-32768), i128(65535)}) xs.push_back(x);
  for (i128 x : xs) {
    if (!fits<T>(x)) continue;
    T s = T(x);
    scalarCases(C, A, ctype, pow2Name(x), refInt(x), s, matches);
  }
}

// ------------------------------------------------------------------------------------------- self-check

// Every builder must have stored the value its reference describes (observed through as<>/is<>/serializeJson,
// none of which is a comparison operator).
inline bool storedAsDescribed(JsonVariantConst v, const Ref& r, std::string& why) {
  switch (r.kind) {
    case KNull:
      if (!v.isNull()) return why = "not null", false;
      return true;
    case KBool:
      if (!v.is<bool>() || v.as<bool>() != r.b) return why = "not that boolean", false;
      return true;
    case KInt:
      if (r.i < 0) {
        if (!v.is<int64_t>() || i128(v.as<int64_t>()) != r.i) return why = "not that signed integer", false;
      } else {
        if (!v.is<uint64_t>() || i128(v.as<uint64_t>()) != r.i) return why = "not that unsigned integer", false;
      }
      return true;
    case KFlt: {
      if (!v.is<double>() || v.is<int64_t>() || v.is<uint64_t>()) return why = "not stored as a floating value", false;
      double d = v.as<double>();
      if (std::isnan(r.d) ? !std::isnan(d) : (d != r.d || std::signbit(d) != std::signbit(r.d))) return why = "not that double", false;
      return true;
    }
    case KStr: {
      if (!v.is<JsonString>()) return why = "not a string", false;
      JsonString s = v.as<JsonString>();
      if (std::string(s.c_str(), s.size()) != r.bytes) return why = "not those bytes", false;
      return true;
    }
    case KRaw: {
      std::string out;
      serializeJson(v, out);
      if (v.is<JsonString>() || v.isNull() || out != r.bytes) return why = "raw value does not serialize to its bytes", false;
      return true;
    }
    case KArr: {
      if (!v.is<JsonArrayConst>() || v.size() != r.elems.size()) return why = "not an array of that size", false;
      for (size_t i = 0; i < r.elems.size(); i++)
        if (!storedAsDescribed(v[i], r.elems[i], why)) return false;
      return true;
    }
    default: {
      if (!v.is<JsonObjectConst>() || v.size() != r.members.size()) return why = "not an object of that size", false;
      size_t i = 0;
      for (JsonPairConst p : v.as<JsonObjectConst>()) {
        if (std::string(p.key().c_str(), p.key().size()) != r.members[i].first) return why = "member order/key differs", false;
        if (!storedAsDescribed(p.value(), r.members[i].second, why)) return false;
        i++;
      }
      return true;
    }
  }
}

inline void selfCheck(Ctx& C, const Alphabet& A) {
  std::set<std::string> names;
  for (const Val& a : A.V) {
    if (!names.insert(a.name).second) C.failKey("selfcheck:" + a.name, "harness-selfcheck", "duplicate alphabet name");
    JsonDocument doc;
    Operand o = place(doc, a);
    if (!o.bound) {
      if (!o.v.isUnbound()) C.failKey("selfcheck:" + a.name, "harness-selfcheck", "operand is bound");
      continue;
    }
    std::string why;
    if (doc.overflowed() || !storedAsDescribed(doc[o.index], a.ref, why))
      C.failKey("selfcheck:" + a.name, "harness-selfcheck", "builder did not store the described value: " + why);
  }
  // the reference comparator itself: reflexive except NaN, symmetric, antisymmetric on what it fixes
  for (const Val& a : A.V)
    for (const Val& b : A.V) {
      Expect x = refCompare(a.ref, b.ref), y = refCompare(b.ref, a.ref);
      if (x.eq != y.eq || x.lt != y.gt || x.gt != y.lt)
        C.failKey("selfcheck:" + a.name + "~" + b.name, "harness-selfcheck", "reference comparator is not symmetric");
      if (int(x.eq == T) + int(x.lt == T) + int(x.gt == T) > 1)
        C.failKey("selfcheck:" + a.name + "~" + b.name, "harness-selfcheck", "reference comparator breaks trichotomy");
    }
}

// ------------------------------------------------------------------------------------------- enumeration

inline void run(Ctx& C) {
  const bool TH = C.thorough() && !C.flag("flat");  // --flat: configuration-variant job, nested containers add nothing there
  Alphabet A = makeAlphabet(TH);
  if (C.shard == 0 && C.only < 0) selfCheck(C, A);

  // ---- 0. every value against itself
  for (const Val& a : A.V)
    if (C.take()) selfCase(C, a);
  // ---- 1. all ordered pairs of variants, same and different documents
  for (const Val& a : A.V)
    for (const Val& b : A.V)
      for (int same = 1; same >= 0; same--) {
        if (!C.take()) continue;
        pairCase(C, a, b, same != 0);
      }

  // ---- 2. every variant against C++ scalars, both sides
  intScalars<signed char>(C, A, "int8", ",i32,");
  intScalars<unsigned char>(C, A, "uint8", ",u32,");
  intScalars<short>(C, A, "int16", ",i32,");
  intScalars<unsigned short>(C, A, "uint16", ",u32,");
  intScalars<int>(C, A, "int", ",i32,");
  intScalars<unsigned int>(C, A, "uint", ",u32,");
  intScalars<long>(C, A, "long", ",i32,i64,");
  intScalars<unsigned long>(C, A, "ulong", ",u32,u64,");
  intScalars<long long>(C, A, "llong", ",i32,i64,");
  intScalars<unsigned long long>(C, A, "ullong", ",u32,u64,");

  const double inf = std::numeric_limits<double>::infinity(), nan = std::numeric_limits<double>::quiet_NaN();
  const double two63 = 9223372036854775808.0, two64 = 18446744073709551616.0, two53 = 9007199254740992.0;
  std::vector<double> fl = {0.0,          -0.0,  0.5,    -0.5,  1.0,    -1.0,  1.5, 10.0, -10.0, 16777216.0, 2147483648.0, -2147483648.0,
                            4294967296.0, two53, -two53, two63, -two63, two64, inf, -inf, nan};
  for (double d : fl) {
    float s = float(d);
    scalarCases(C, A, "float", dblName(d), refFlt(double(s)), s, ",flt,");
  }
  // doubles that are not float-representable, in particular the neighbours of the integer alphabet around 2^24, 2^31, 2^32, 2^53:
  // a double scalar keeps its full value in every configuration
  for (double d : {16777215.0, 16777217.0, -16777217.0, 2147483647.0, 2147483649.0, -2147483649.0, 4294967295.0, 4294967297.0, two53 - 1,
                   two53 + 2, -(two53 - 1), two63 - 1024, two63 + 2048, -(two63 + 2048), two64 - 2048, 0.1, 1e300, 4.9406564584124654e-324})
    fl.push_back(d);
  for (double d : fl) scalarCases(C, A, "double", dblName(d), refFlt(d), d, ",dbl,flt,");

  scalarCases(C, A, "bool", "false", refBool(false), false, ",bool,");
  scalarCases(C, A, "bool", "true", refBool(true), true, ",bool,");

  // strings
  static const char L0[] = "", L1[] = "a", L2[] = "ab", L3[] = "b", L4[] = "abc", L5[] = "\x80", L6[] = "1";
  const char* const sm = ",str-linked,str-copied,";
  scalarCases(C, A, "lit", "''", refBytes(KStr, L0), L0, sm);
  scalarCases(C, A, "lit", "a", refBytes(KStr, L1), L1, sm);
  scalarCases(C, A, "lit", "ab", refBytes(KStr, L2), L2, sm);
  scalarCases(C, A, "lit", "b", refBytes(KStr, L3), L3, sm);
  scalarCases(C, A, "lit", "abc", refBytes(KStr, L4), L4, sm);
  scalarCases(C, A, "lit", "\\x80", refBytes(KStr, L5), L5, sm);
  scalarCases(C, A, "lit", "1", refBytes(KStr, L6), L6, sm);
  const char* const plain[] = {L0, L1, L2, L3, L4, L5, L6};
  const char* const plainName[] = {"''", "a", "ab", "b", "abc", "\\x80", "1"};
  for (int i = 0; i < 7; i++) {
    const char* cp = plain[i];
    scalarCases(C, A, "cstr", plainName[i], refBytes(KStr, cp), cp, sm);
  }
  for (int i = 0; i < 7; i++) {
    std::string buf = plain[i];
    char* p = buf.data();
    scalarCases(C, A, "charp", plainName[i], refBytes(KStr, buf), p, sm);
  }
  std::vector<std::pair<std::string, std::string>> sized;
  for (int i = 0; i < 7; i++) sized.push_back({plainName[i], plain[i]});
  sized.push_back({"a\\0b", std::string("a\0b", 3)});
  sized.push_back({"a\\0", std::string("a\0", 2)});
  for (auto& nv : sized) {
    const std::string& str = nv.second;
    scalarCases(C, A, "string", nv.first, refBytes(KStr, str), str, sm);
    scalarCases(C, A, "sview", nv.first, refBytes(KStr, str), std::string_view(str), sm);
    scalarCases(C, A, "jstr", nv.first, refBytes(KStr, str), JsonString(str.data(), str.size()), sm);
  }
  for (int i = 0; i < 7; i++) scalarCases(C, A, "jstr-linked", plainName[i], refBytes(KStr, plain[i]), JsonString(plain[i]), sm);
  // operands that ALIAS the characters a variant holds: views of every length over the very pointers the str-linked elements
  // of the alphabet were set from (same address, other length)
  for (size_t i = 0; i < sizeof kLinked / sizeof kLinked[0]; i++) {
    const char* p = kLinked[i];
    size_t len = strlen(p);
    for (size_t n = 0; n <= len; n++) {
      std::string bytes(p, n), nm = std::string(kLinkedName[i]) + "[0.." + std::to_string(n) + ")";
      scalarCases(C, A, "sview-alias", nm, refBytes(KStr, bytes), std::string_view(p, n), sm);
      scalarCases(C, A, "jstr-alias", nm, refBytes(KStr, bytes), JsonString(p, n), sm);
    }
  }
  // null pointers: the library itself treats a null string as null (set() stores null, Comparer::visit(nullptr_t))
  scalarCases(C, A, "nullptr", "", Ref(), nullptr, ",null,unbound,");
  {
    const char* np = nullptr;
    Ref ns;
    ns.nullString = true;
    scalarCases(C, A, "cstr", "null", ns, np, ",null,unbound,");
    scalarCases(C, A, "jstr", "null", ns, JsonString(), ",null,unbound,");
  }

  size_t flat = 0;
  for (auto& v : A.V)
    if (!v.nested) flat++;
  char buf[600];
  snprintf(buf, sizeof buf,
           "alphabet of %zu values (%zu flat%s); all %zu^2 ordered pairs x {same,different} document x 6 operators x up to 9 operand "
           "forms; every flat value against every scalar of 10 integer types, float, double, bool, 7 string types, nullptr, on "
           "both sides; %s",
           A.V.size(), flat, TH ? " + 2-level nested containers over a reduced alphabet" : "", A.V.size(),
           kStoresDouble ? "ARDUINOJSON_USE_DOUBLE=1" : "ARDUINOJSON_USE_DOUBLE=0 (stored floating values are floats, double scalars keep 64 bits)");
  C.bound(buf);
}
}  // namespace nx_compare
