#include "ix_filter.hpp"
int main(int argc, char** argv) {
  verif::Ctx C(argc, argv);
  ix_filter::run(C);
  return C.finish();
}
