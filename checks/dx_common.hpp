// dx — serializer-side checks (C02 serializeJson, C07 round trips, C08 serializeMsgPack).
// Shared parts: case keys, boundary alphabets, the document enumerator, checked document
// construction, the destination sweep and the buffer-capacity sweep.
#pragma once
#include <ArduinoJson.h>

#include <algorithm>
#include <cfloat>
#include <cmath>
#include <functional>
#include <limits>
#include <sstream>
#include <string>
#include <vector>

#include "common.hpp"
#include "gen.hpp"
#include "model.hpp"
#include "refjson.hpp"
#include "refmsgpack.hpp"

namespace dx {
using namespace ArduinoJson;
using namespace verif;

// ------------------------------------------------------------------------------------------ keys
inline std::string abbr(const std::string& s) {
  if (s.size() <= 200) return s;
  char b[64];
  snprintf(b, sizeof b, "...#%016llx+%zu", (unsigned long long)fnv1a(s), s.size());
  return s.substr(0, 120) + b;
}
inline std::string docKey(const MValue& m) { return "doc:" + abbr(mtext(m)); }

// ------------------------------------------------------------------------------------------ operations
enum Op { OpJson = 0, OpPretty = 1, OpMsgPack = 2 };
inline const char* opName(Op op) {
  static const char* n[] = {"serializeJson", "pretty", "msgpack"};
  return n[op];
}
inline bool isText(Op op) { return op != OpMsgPack; }

template <typename D>
inline size_t serTo(Op op, JsonVariantConst v, D& d) {
  switch (op) {
    case OpJson: return serializeJson(v, d);
    case OpPretty: return serializeJsonPretty(v, d);
    default: return serializeMsgPack(v, d);
  }
}
inline size_t serBuf(Op op, JsonVariantConst v, void* p, size_t n) {
  switch (op) {
    case OpJson: return serializeJson(v, p, n);
    case OpPretty: return serializeJsonPretty(v, p, n);
    default: return serializeMsgPack(v, p, n);
  }
}
inline size_t serChar(Op op, JsonVariantConst v, char* p, size_t n) {
  switch (op) {
    case OpJson: return serializeJson(v, p, n);
    case OpPretty: return serializeJsonPretty(v, p, n);
    default: return serializeMsgPack(v, p, n);
  }
}
inline size_t measureOp(Op op, JsonVariantConst v) {
  switch (op) {
    case OpJson: return measureJson(v);
    case OpPretty: return measureJsonPretty(v);
    default: return measureMsgPack(v);
  }
}

// ------------------------------------------------------------------------------------------ custom destinations
struct ByteSink {  // "custom writer": the library only needs the two write() members
  std::string out;
  size_t write(uint8_t c) {
    out.push_back(char(c));
    return 1;
  }
  size_t write(const uint8_t* s, size_t n) {
    for (size_t i = 0; i < n; i++) out.push_back(char(s[i]));
    return n;
  }
};
struct LimitedSink {  // accepts only the first `cap` bytes (a full device)
  std::string out;
  size_t cap = 0;
  size_t write(uint8_t c) {
    if (out.size() >= cap) return 0;
    out.push_back(char(c));
    return 1;
  }
  size_t write(const uint8_t* s, size_t n) {
    size_t k = 0;
    while (k < n && out.size() < cap) out.push_back(char(s[k++]));
    return k;
  }
};
#if ARDUINOJSON_ENABLE_ARDUINO_PRINT
struct PrintSink : public ::Print {
  std::string out;
  size_t write(uint8_t c) override {
    out.push_back(char(c));
    return 1;
  }
  size_t write(const uint8_t* s, size_t n) override {
    out.append(reinterpret_cast<const char*>(s), n);
    return n;
  }
};
#endif

inline std::string firstDiff(const std::string& got, const std::string& want) {
  size_t i = 0;
  while (i < got.size() && i < want.size() && got[i] == want[i]) i++;
  char b[96];
  snprintf(b, sizeof b, "lengths %zu vs %zu, first difference at offset %zu: ", got.size(), want.size(), i);
  return std::string(b) + "got '" + vis(got.substr(i, 24)) + "' want '" + vis(want.substr(i, 24)) + "'";
}

// Every destination kind must receive exactly `ref` (the std::string output), return its length, and
// measure*() must announce the same length.
inline void checkDestinations(Ctx& C, const std::string& key, Op op, JsonVariantConst v, const std::string& ref) {
  const size_t len = ref.size();
  const std::string kop = key + "|op=" + opName(op);
  auto judge = [&](const char* dst, size_t ret, const std::string& out) {
    std::string k = kop + "|dst=" + dst;
    if (ret != out.size())
      C.failKey(k, "count", "returned " + std::to_string(ret) + " but " + std::to_string(out.size()) + " bytes were delivered");
    if (out != ref) C.failKey(k, "dst-differs", firstDiff(out, ref));
    C.metrics["serializations"] += 1;
  };
  size_t ms = measureOp(op, v);
  if (ms != len) C.failKey(kop + "|dst=measure", "measure", "measure gives " + std::to_string(ms) + ", output has " + std::to_string(len) + " bytes");
  {  // (1) large char buffer
    std::vector<char> buf(len + 64, char(0xA5));
    size_t r = serChar(op, v, buf.data(), buf.size());
    judge("buffer", r, std::string(buf.data(), std::min(r, buf.size())));
    if (isText(op) && r < buf.size() && buf[r] != 0) C.failKey(kop + "|dst=buffer", "cap-nul", "no terminating NUL in a large buffer");
    if (!isText(op) && r < buf.size() && (unsigned char)buf[r] != 0xA5)
      C.failKey(kop + "|dst=buffer", "cap-extra", "byte after the MessagePack output was modified");
  }
  {  // (3) std::ostream
    std::ostringstream os;
    size_t r = serTo(op, v, os);
    judge("ostream", r, os.str());
  }
  {  // (4) custom writer
    ByteSink w;
    size_t r = serTo(op, v, w);
    judge("writer", r, w.out);
  }
  {  // a writer that stops accepting bytes: the count is what was delivered
    LimitedSink w;
    w.cap = len / 2;
    size_t r = serTo(op, v, w);
    std::string k = kop + "|dst=limited";
    if (r != w.out.size()) C.failKey(k, "count", "returned " + std::to_string(r) + " but " + std::to_string(w.out.size()) + " bytes were accepted");
    if (w.out != ref.substr(0, w.cap)) C.failKey(k, "dst-differs", firstDiff(w.out, ref.substr(0, w.cap)));
  }
#if ARDUINOJSON_ENABLE_ARDUINO_PRINT
  {  // (5) Arduino Print
    PrintSink pr;
    size_t r = serTo(op, v, pr);
    judge("Print", r, pr.out);
  }
#endif
#if ARDUINOJSON_ENABLE_ARDUINO_STRING
  if (ref.find('\0') == std::string::npos) {  // an Arduino String cannot carry NUL (concat(const char*))
    ::String s("previous content");
    s.limitCapacityTo(len + 1024);
    size_t r = serTo(op, v, s);
    judge("String", r, std::string(s.c_str(), s.length()));
  }
#endif
}

// capacities to try for an output of `len` bytes
inline std::vector<size_t> capList(size_t len, size_t fullLimit) {
  std::vector<size_t> caps;
  if (len <= fullLimit) {
    for (size_t n = 0; n <= len + 2; n++) caps.push_back(n);
  } else {
    for (size_t n = 0; n <= 66; n++) caps.push_back(n);
    for (size_t n : {size_t(255), size_t(256), size_t(257), len / 2, len - 2, len - 1, len, len + 1, len + 2})
      if (n > 66 && n <= len + 2) caps.push_back(n);
    std::sort(caps.begin(), caps.end());
    caps.erase(std::unique(caps.begin(), caps.end()), caps.end());
  }
  return caps;
}

template <size_t N, typename TChar>
inline void checkArrayForm(Ctx& C, const std::string& kop, Op op, JsonVariantConst v, const std::string& ref, const char* dst) {
  struct {
    unsigned char pre[16];
    TChar a[N];
    unsigned char post[16];
  } s;
  memset(&s, 0xA5, sizeof s);
  size_t r = op == OpJson ? serializeJson(v, s.a) : op == OpPretty ? serializeJsonPretty(v, s.a) : serializeMsgPack(v, s.a);
  const size_t len = ref.size(), want = std::min(len, N);
  std::string k = kop + "|dst=" + dst + "|cap=" + std::to_string(N);
  if (r != want) C.failKey(k, "cap-return", "returned " + std::to_string(r) + ", expected " + std::to_string(want));
  if (memcmp(s.a, ref.data(), want) != 0) C.failKey(k, "cap-prefix", "stored bytes are not the prefix of the text");
  for (size_t i = 0; i < 16; i++)
    if (s.pre[i] != 0xA5 || s.post[i] != 0xA5) {
      C.failKey(k, "cap-outside", "a byte outside the array was written");
      break;
    }
  if (isText(op) && len < N && s.a[len] != 0) C.failKey(k, "cap-nul", "no NUL although length < N");
  if (!isText(op))
    for (size_t i = len; i < N; i++)
      if ((unsigned char)s.a[i] != 0xA5) {
        C.failKey(k, "cap-extra", "byte beyond the output modified");
        break;
      }
  C.metrics["serializations"] += 1;
}

// (6) every capacity n: a heap block of exactly n bytes (ASan redzones) and a window inside a sentinel-filled buffer
inline void checkCapacities(Ctx& C, const std::string& key, Op op, JsonVariantConst v, const std::string& ref, size_t fullLimit) {
  const size_t len = ref.size();
  const std::string kop = key + "|op=" + opName(op);
  const size_t LEAD = 32;
  std::vector<unsigned char> S(len + 2 + 2 * LEAD, 0xA5);
  for (size_t n : capList(len, fullLimit)) {
    const size_t want = std::min(n, len);
    {  // exact heap block, void* form
      unsigned char* p = static_cast<unsigned char*>(malloc(n));
      bool dummy = false;
      if (!p) {
        p = static_cast<unsigned char*>(malloc(1));
        dummy = true;
      }
      memset(p, 0xA5, dummy ? 1 : n);
      size_t r = serBuf(op, v, static_cast<void*>(p), n);
      std::string k = kop + "|dst=heap|cap=" + std::to_string(n);
      if (r != want) C.failKey(k, "cap-return", "returned " + std::to_string(r) + ", expected " + std::to_string(want));
      if (want && memcmp(p, ref.data(), want) != 0) C.failKey(k, "cap-prefix", firstDiff(std::string(reinterpret_cast<char*>(p), want), ref.substr(0, want)));
      if (isText(op) && len < n && p[len] != 0) C.failKey(k, "cap-nul", "no terminating NUL although length < capacity");
      if (!isText(op))
        for (size_t i = len; i < n; i++)
          if (p[i] != 0xA5) {
            C.failKey(k, "cap-extra", "byte " + std::to_string(i) + " beyond the MessagePack output modified");
            break;
          }
      if (dummy && p[0] != 0xA5) C.failKey(k, "cap-outside", "a byte was written with capacity 0");
      free(p);
    }
    {  // window inside a sentinel-filled buffer, char* form
      size_t r = serChar(op, v, reinterpret_cast<char*>(S.data() + LEAD), n);
      std::string k = kop + "|dst=window|cap=" + std::to_string(n);
      if (r != want) C.failKey(k, "cap-return", "returned " + std::to_string(r) + ", expected " + std::to_string(want));
      if (want && memcmp(S.data() + LEAD, ref.data(), want) != 0)
        C.failKey(k, "cap-prefix", firstDiff(std::string(reinterpret_cast<char*>(S.data() + LEAD), want), ref.substr(0, want)));
      if (isText(op) && len < n && S[LEAD + len] != 0) C.failKey(k, "cap-nul", "no terminating NUL although length < capacity");
      // "iff": with length >= n no NUL may be stored; inside [0,n) that is the prefix comparison, beyond it the sentinel check
      if (!isText(op))
        for (size_t i = len; i < n; i++)
          if (S[LEAD + i] != 0xA5) {
            C.failKey(k, "cap-extra", "byte " + std::to_string(i) + " beyond the MessagePack output modified");
            break;
          }
      bool outside = false;
      for (size_t i = 0; i < LEAD && !outside; i++) outside = S[i] != 0xA5;
      for (size_t i = LEAD + n; i < S.size() && !outside; i++) outside = S[i] != 0xA5;
      if (outside) C.failKey(k, "cap-outside", "a byte outside [0,n) of the buffer was written");
      memset(S.data(), 0xA5, std::min(S.size(), LEAD + std::max(n, len) + 2 + LEAD));
    }
    C.metrics["serializations"] += 2;
    C.metrics["capacities"] += 1;
  }
  checkArrayForm<1, char>(C, kop, op, v, ref, "char[N]");
  checkArrayForm<2, char>(C, kop, op, v, ref, "char[N]");
  checkArrayForm<16, char>(C, kop, op, v, ref, "char[N]");
  checkArrayForm<64, char>(C, kop, op, v, ref, "char[N]");
  checkArrayForm<8, unsigned char>(C, kop, op, v, ref, "uchar[N]");
  checkArrayForm<24, signed char>(C, kop, op, v, ref, "schar[N]");
}

// ------------------------------------------------------------------------------------------ alphabets
inline bool intInRange(i128 x) { return x >= -(i128(1) << 63) && x < (i128(1) << 64); }

inline std::vector<i128> sortedUnique(std::vector<i128> v) {
  auto mag = [](i128 x) { return x < 0 ? -(x + 1) : x; };
  std::sort(v.begin(), v.end(), [&](i128 a, i128 b) {
    i128 ma = mag(a), mb = mag(b);
    if (ma != mb) return ma < mb;
    return a > b;
  });
  v.erase(std::unique(v.begin(), v.end()), v.end());
  return v;
}

// C02: 0, +-1, +-2^k, +-(2^k +- 1) for k in {7,8,15,16,31,32,53,63,64}; every 10^k and 10^k - 1, k = 1..19, both signs
inline std::vector<i128> intsJson() {
  std::vector<i128> v = {0, 1, -1, 2, 9, -9, 10, 42, -42};
  for (int k : {7, 8, 15, 16, 31, 32, 53, 63, 64})
    for (int d = -1; d <= 1; d++)
      for (int sg = -1; sg <= 1; sg += 2) {
        i128 x = sg * (i128(1) << k) + d;
        if (intInRange(x)) v.push_back(x);
      }
  i128 p = 1;
  for (int k = 1; k <= 19; k++) {
    p *= 10;
    for (i128 x : {p, p - 1, -p, -(p - 1), p + 1})
      if (intInRange(x)) v.push_back(x);
  }
  return sortedUnique(v);
}

// C08: every value within 2 of +-2^k, k = 0..64 (covers every type limit and every header-width boundary)
inline std::vector<i128> intsMsgPack() {
  std::vector<i128> v = {0};
  for (int k = 0; k <= 64; k++)
    for (int d = -2; d <= 2; d++)
      for (int sg = -1; sg <= 1; sg += 2) {
        i128 x = sg * (i128(1) << k) + d;
        if (intInRange(x)) v.push_back(x);
      }
  for (i128 x : {i128(-32), i128(-33), i128(-31), i128(100), i128(1000000)}) v.push_back(x);
  return sortedUnique(v);
}

inline std::vector<float> floats32() {
  const float inf = std::numeric_limits<float>::infinity();
  return {0.0f, -0.0f, 1.0f, -1.0f, 0.5f, 0.1f, -0.1f, 1e7f, 9999999.0f, 16777216.0f, 16777218.0f, 1e-5f, 9.9999e-6f,
          1.00001e-5f, 3.14159274f, 123456.789f, 0.000123456f, FLT_MAX, -FLT_MAX, FLT_MIN, FLT_MIN / 2, 1.4e-45f, 1e38f,
          1e-38f, 4294967296.0f, 9223372036854775808.0f, 18446744073709551616.0f, -9223372036854775808.0f, 1e10f, 2.5f,
          -2147483648.0f, 255.0f, std::numeric_limits<float>::quiet_NaN(), inf, -inf};
}
inline std::vector<double> floats64() {
  const double inf = std::numeric_limits<double>::infinity();
  return {0.0, -0.0, 1.0, -1.5, 0.1, 0.3, 1e7, 9999999.5, 9999999.999, 1e-5, 9.9999e-6, 0.00001234, double(FLT_MAX),
          double(FLT_MIN), 1e-40, 1e300, -1e300, 1e-300, 1.5e300, 1e-310, 4.9e-324, DBL_MAX, DBL_MIN, 16777218.0,
          123456792.0, 16777217.0, 3.141592653589793, 123456789.12345679, 9007199254740992.0, 4294967296.5, 1e21,
          9223372036854775808.0, 18446744073709551616.0, -9223372036854775808.0, 9.9999999995e10, 0.9999999995,
          99999.9999999, 2.5e-5, 1e15, 1.0000000000000002, 4294967295.0, -129.0, 65536.0, 0.0078125, 1.00000011920928955078125,
          -0.333251953125, 33554436.0,
          // 8-digit literals on both sides of 2^23 and 2^24 (the parser's float / double decision), 9 and 10 digits, large exponents
          0.8388607, 0.8388608, 0.8388609, 1.2345678, 1.6777215, 1.6777216, 1.6777217, 12.345678, -1500000.7, 8.388609e37, 1.2345678e-37,
          1.6777215e30, 123456789.5, 1.234567891, 1e100, 1.2345678912e64, 9.87654321e128, 1e299, 1e-299, 5e-324 * 3,
          std::numeric_limits<double>::quiet_NaN(), inf, -inf};
}

inline std::string allBytes() {
  std::string s;
  for (int i = 0; i < 256; i++) s.push_back(char(i));
  return s;
}
inline std::string pattern(size_t n) {
  std::string r(n, 'x');
  for (size_t i = 0; i < n; i++) r[i] = char('a' + (i * 7 + i / 26) % 26);
  return r;
}

// strings used as values and as keys: "", the 256 one-byte strings, the string of all byte values, some plain ones
inline std::vector<std::string> stringsJson() {
  std::vector<std::string> v = {"", "a", "hello world", "\"\\/\b\f\n\r\t", std::string("a\0b", 3), "\xc3\xa9\xe2\x82\xac\xf0\x9f\x98\x80"};
  for (int i = 0; i < 256; i++) v.push_back(std::string(1, char(i)));
  v.push_back(allBytes());
  v.push_back(pattern(31));
  v.push_back(pattern(32));
  return v;
}

// strings in which every byte has neighbours: all 3-byte strings over 16 byte values that sit at the edges of the escaping and
// UTF-8 classes (so that U+2028/2029, U+FFFF, overlongs, lone continuation bytes, escapes next to high bytes all occur)
inline std::vector<std::string> contextStrings() {
  static const unsigned char B[] = {0x00, 0x1f, 0x20, 0x22, 0x5c, 0x7f, 0x80, 0xa8, 0xa9, 0xaf, 0xbf, 0xc2, 0xe2, 0xef, 0xf4, 0xff};
  std::vector<std::string> v;
  for (unsigned char a : B)
    for (unsigned char b : B)
      for (unsigned char c : B) v.push_back(std::string{char(a), char(b), char(c)});
  std::string desc, twice;
  for (int i = 255; i >= 0; i--) desc.push_back(char(i));
  for (int i = 0; i < 256; i++) twice += std::string(2, char(i));
  v.push_back(desc);
  v.push_back(twice);
  // NUL and an escape far from the start (beyond every writer's staging buffer)
  v.push_back(pattern(63) + std::string("\0", 1) + pattern(70) + "\n" + pattern(5));
  return v;
}

// raw values that reach the writers as ONE block: valid JSON (a quoted string) of the given total length, distinguishable by position
inline std::string longRaw(size_t n) {
  std::string r = "\"" + pattern(n - 2) + "\"";
  for (size_t i = 1; i + 1 < n; i += 10) r[i] = char('0' + (i / 10) % 10);
  return r;
}

inline std::vector<MValue> fullLeaves(bool withRaw) {
  std::vector<MValue> L = {MValue::null(), MValue::boolean(true), MValue::boolean(false)};
  for (i128 x : intsJson()) L.push_back(MValue::integer(x));
  for (float f : floats32()) L.push_back(MValue::f32(f));
  for (double d : floats64()) L.push_back(MValue::f64(d));
  for (auto& s : stringsJson()) L.push_back(MValue::str(s));
  if (withRaw)
    for (const char* r : {"1e5", "[1,2]", "\"x\"", "", "{\"a\": [ true ]}", "-0.0"}) L.push_back(MValue::raw(r));
  if (withRaw)
    for (size_t n : {31, 32, 33, 63, 64, 65, 127, 128, 129, 255, 256, 257, 1000}) L.push_back(MValue::raw(longRaw(n)));
  return L;
}

// about 16 leaves for the tree generator
inline std::vector<MValue> reducedLeaves(bool withRaw) {
  std::vector<MValue> L = {MValue::null(),
                           MValue::boolean(true),
                           MValue::integer(0),
                           MValue::integer(-1),
                           MValue::integer(i128(1) << 32),
                           MValue::integer((i128(1) << 64) - 1),
                           MValue::integer(-(i128(1) << 63)),
                           MValue::f32(0.1f),
                           MValue::f64(0.1),
                           MValue::f64(16777218.0),
                           MValue::f64(-1e300),
                           MValue::f32(std::numeric_limits<float>::quiet_NaN()),
                           MValue::str(""),
                           MValue::str("a"),
                           MValue::str(std::string("\"\\\n\0\x7f\xff", 6))};
  if (withRaw) {
    L.push_back(MValue::raw("[1,2]"));
    L.push_back(MValue::raw(""));
  }
  return L;
}
inline std::vector<MValue> deepLeaves(bool withRaw) {
  std::vector<MValue> L = {MValue::null(), MValue::integer(-1), MValue::f64(0.1), MValue::str("a"),
                           MValue::str(std::string("\"\0", 2)), MValue::integer((i128(1) << 64) - 1)};
  if (withRaw) L.push_back(MValue::raw(""));
  return L;
}
inline std::vector<std::string> reducedKeys() { return {"", "a", std::string("\"\\\n\0\xff", 5), "key"}; }

inline MValue chain(int depth, int style, const MValue* leaf) {
  // style 0: arrays, 1: objects, 2: alternating
  MValue cur;
  bool have = false;
  if (leaf) {
    cur = *leaf;
    have = true;
  }
  for (int d = depth; d >= 1; d--) {
    bool arr = style == 0 || (style == 2 && (d & 1));
    MValue c = arr ? MValue::array() : MValue::object();
    if (have) {
      if (arr) c.a.push_back(cur);
      else c.o.emplace_back("a", cur);
    }
    cur = c;
    have = true;
  }
  return cur;
}

struct DocOptions {
  bool withRaw = true;
  int nodes = 3;          // tree generator bound
  int deepFrom = 64;      // depth from which the tree generator uses the smaller leaf alphabet
  std::vector<int> deep;  // extra chain depths
  int exactOnly = 0;      // when set: only the trees with exactly this many nodes (a second, deeper pass)
};

// sto: 0 = verif::build (non-negative integers stored unsigned), 1 = the single integer is stored through set(long long)
typedef std::function<void(const MValue&, int sto)> DocSink;

// The document enumeration shared by C02 and C07.  Deterministic (identical in every shard).
inline void forEachDoc(const DocOptions& o, const DocSink& f, std::vector<std::string>* bounds = nullptr) {
  if (o.exactOnly) {
    TreeGen G;
    G.leavesTop = reducedLeaves(o.withRaw);
    G.leavesDeep = deepLeaves(o.withRaw);
    G.deepFrom = o.deepFrom;
    G.keys = reducedKeys();
    G.dupKeys = false;
    G.exact(o.exactOnly, 0, [&](const MValue& t) { f(t, 0); });
    if (bounds)
      bounds->push_back("documents: all trees with exactly " + std::to_string(o.exactOnly) + " nodes over " + std::to_string(G.leavesTop.size()) + " leaves (" +
                        std::to_string(G.leavesDeep.size()) + " at depth >= " + std::to_string(G.deepFrom) + ") and " + std::to_string(G.keys.size()) + " keys");
    return;
  }
  std::vector<MValue> full = fullLeaves(o.withRaw);
  // S1 single-leaf documents over the full alphabet, both integer storages
  for (auto& l : full) {
    f(l, 0);
    if (l.kind == MValue::Int && l.i >= 0 && l.i < (i128(1) << 63)) f(l, 1);
  }
  // S2 one-level containers over the full alphabet
  for (auto& l : full) {
    MValue a = MValue::array();
    a.a.push_back(l);
    f(a, 0);
    MValue ob = MValue::object();
    ob.o.emplace_back("k", l);
    f(ob, 0);
    MValue a2 = MValue::array();
    a2.a.push_back(l);
    a2.a.push_back(l);
    f(a2, 0);
  }
  // S1b strings whose bytes have neighbours, as a value and as a key
  for (auto& cs : contextStrings()) {
    f(MValue::str(cs), 0);
    MValue ob = MValue::object();
    ob.o.emplace_back(cs, MValue::integer(1));
    f(ob, 0);
  }
  // S3 keys over all byte values
  std::vector<std::string> keys = stringsJson();
  for (auto& k : keys) {
    MValue ob = MValue::object();
    ob.o.emplace_back(k, MValue::integer(1));
    f(ob, 0);
  }
  {
    MValue ob = MValue::object();
    for (int i = 0; i < 256; i++) ob.o.emplace_back(std::string(1, char(i)), MValue::integer(i));
    f(ob, 0);
    MValue ob2 = MValue::object();
    for (int i = 255; i >= 0; i--) ob2.o.emplace_back(std::string(1, char(i)), MValue::str(std::string(1, char(i))));
    f(ob2, 0);
  }
  // S4/S5 all trees up to N nodes over the reduced alphabets (empty containers included)
  TreeGen G;
  G.leavesTop = reducedLeaves(o.withRaw);
  G.leavesDeep = deepLeaves(o.withRaw);
  G.deepFrom = o.deepFrom;
  G.keys = reducedKeys();
  G.dupKeys = false;
  G.upTo(o.nodes, [&](const MValue& t) { f(t, 0); });
  // S5b many EMPTY containers in one document (a level taken by a container that is closed must be given back)
  {
    auto wide = [&](size_t n, int style, bool asObject) {
      MValue m = asObject ? MValue::object() : MValue::array();
      for (size_t i = 0; i < n; i++) {
        MValue child;
        if (style == 0) child = MValue::array();
        else if (style == 1) child = MValue::object();
        else if (i % 2) { child = MValue::array(); child.a.push_back(MValue::integer(i128(i))); }
        else child = (i % 4) ? MValue::object() : MValue::array();
        if (asObject) m.o.emplace_back("k" + std::to_string(i), child);
        else m.a.push_back(child);
      }
      return m;
    };
    for (size_t n : std::vector<size_t>{3, 9, 10, 11, 12, 16, 40, 300})
      for (int style = 0; style < 3; style++)
        for (int asObject = 0; asObject < 2; asObject++) {
          MValue w = wide(n, style, asObject != 0);
          f(w, 0);
          MValue outer = MValue::array();
          outer.a.push_back(w);
          outer.a.push_back(MValue::object());
          f(outer, 0);
        }
    for (size_t n : std::vector<size_t>{6, 40}) {
      MValue list = MValue::array();
      for (size_t i = 0; i < n; i++) {
        MValue rec = MValue::object();
        rec.o.emplace_back("id", MValue::integer(i128(i)));
        rec.o.emplace_back("tags", MValue::array());
        rec.o.emplace_back("meta", MValue::object());
        list.a.push_back(rec);
      }
      f(list, 0);
    }
    MValue nine = MValue::integer(1);
    MValue tail = chain(9, 2, &nine);
    for (int i = 0; i < 10; i++) tail.a.push_back(i % 2 ? MValue::array() : MValue::object());
    f(tail, 0);
  }
  // S6 nesting chains
  std::vector<int> depths;
  for (int d = 1; d <= 12; d++) depths.push_back(d);
  for (int d : o.deep) depths.push_back(d);
  MValue one = MValue::integer(1), str = MValue::str("x\n");
  for (int d : depths) {
    f(chain(d, 0, nullptr), 0);
    f(chain(d, 0, &one), 0);
    f(chain(d, 1, nullptr), 0);
    f(chain(d, 1, &str), 0);
    f(chain(d, 2, &one), 0);
  }
  if (bounds) {
    std::string dl;
    for (int d : o.deep) dl += "," + std::to_string(d);
    bounds->push_back("documents: every leaf of the full alphabet (" + std::to_string(full.size()) +
                      " leaves: null, booleans, integer boundaries 2^k+-1 and 10^k, 10^k-1 in both storages, float and double "
                      "boundary values, the 256 one-byte strings, the all-bytes string (ascending, descending, doubled), all 4096 three-byte strings over 16 class-boundary bytes as value and key" +
                      (o.withRaw ? ", raw values incl. single blocks of 31..1000 bytes" : "") + ") alone, in [x], {\"k\":x}, [x,x]; " + std::to_string(keys.size()) +
                      " keys incl. every byte value; all trees with <= " + std::to_string(o.nodes) + " nodes over " +
                      std::to_string(G.leavesTop.size()) + " leaves (" + std::to_string(G.leavesDeep.size()) + " at depth >= " +
                      std::to_string(G.deepFrom) + ") and " + std::to_string(G.keys.size()) +
                      " keys; arrays and objects of 3..300 empty (or alternating) containers, record lists with empty members; array/object/mixed nesting chains of depth 1..12" + dl);
  }
}

// ------------------------------------------------------------------------------------------ checked construction
// Builds `m` into `doc` through the public API and verifies the result by observation.
inline bool buildChecked(Ctx& C, const std::string& key, JsonDocument& doc, const MValue& m, int sto = 0) {
  bool ok;
  if (sto == 1) ok = doc.set((long long)m.i);
  else ok = build(doc.to<JsonVariant>(), m);
  if (!ok || doc.overflowed()) {
    C.failKey(key + "|stage=build", "build", "the public API refused to build the document");
    return false;
  }
  std::string real = obsReal(doc.as<JsonVariantConst>()), model = obsModel(&m);
  if (real != model) {
    size_t i = 0;
    while (i < real.size() && i < model.size() && real[i] == model[i]) i++;
    C.failKey(key + "|stage=build", "build", "observation differs from the model at " + std::to_string(i) + ": real ..." +
                                                 real.substr(i > 20 ? i - 20 : 0, 80) + " model ..." + model.substr(i > 20 ? i - 20 : 0, 80));
    return false;
  }
  return true;
}

inline bool hasContainer(const MValue& m) { return m.kind == MValue::Arr || m.kind == MValue::Obj; }

}  // namespace dx
