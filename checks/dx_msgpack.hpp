// C08 — serializeMsgPack emits exactly one conforming MessagePack object that denotes the document.
#pragma once
#include "dx_roundtrip.hpp"

namespace dx {

inline bool integralInRange(double x) {
  return std::isfinite(x) && x == std::floor(x) && x >= -9223372036854775808.0 && x < 18446744073709551616.0;
}

// Does the decoded object D denote the model M, per the statement of C08?
inline bool mpDenotes(const MValue& D, const MValue& M, const std::string& path, std::string& why, std::string& leaf) {
  auto die = [&](const std::string& w) {
    why = path + ": " + w + " (decoded " + mtext(D).substr(0, 80) + ", document holds " + mtext(M).substr(0, 80) + ")";
    return false;
  };
  switch (M.kind) {
    case MValue::Null: return D.kind == MValue::Null || die("not nil");
    case MValue::Bool: return (D.kind == MValue::Bool && D.b == M.b) || die("boolean differs");
    case MValue::Int:
      leaf = mtext(M);
      return (D.kind == MValue::Int && D.i == M.i) || die("integer value or sign not preserved");
    case MValue::F32: {
      leaf = mtext(M);
      if (D.kind == MValue::F32) return fbits(D.f) == fbits(M.f) || die("float32 not bit-exact");
      if (M.f != M.f) return die("a float32 NaN must be emitted as the same 4 bytes (its payload does not survive a change of width)");
      if (D.kind == MValue::F64) return dbits(D.d) == dbits(double(M.f)) || die("float64 of a different value");
      if (D.kind == MValue::Int) return (integralInRange(M.f) && (long double)D.i == (long double)M.f) || die("integer of a different value");
      return die("not a number");
    }
    case MValue::F64: {
      leaf = mtext(M);
      if (D.kind == MValue::F64) return dbits(D.d) == dbits(M.d) || die("float64 not bit-exact");
      if (D.kind == MValue::F32) return (M.d == M.d && dbits(double(D.f)) == dbits(M.d)) || die("float32 of a different value");
      if (D.kind == MValue::Int) return (integralInRange(M.d) && (long double)D.i == (long double)M.d) || die("integer of a different value");
      return die("not a number");
    }
    case MValue::Str:
      leaf = "s" + std::to_string(M.s.size());
      return (D.kind == MValue::Str && D.s == M.s) || die("string bytes differ");
    case MValue::Raw: {
      leaf = "r" + std::to_string(M.s.size());
      if (D.kind != MValue::Raw) return die("not a bin/ext object");
      if (rawIsBin(M.s)) {
        if (!rawIsBin(D.s)) return die("not a bin object");
        std::string a, b;
        refmp::splitBin(D.s, a);
        refmp::splitBin(M.s, b);
        return a == b || die("bin payload differs");
      }
      if (rawIsExt(M.s)) {
        if (!rawIsExt(D.s)) return die("not an ext object");
        std::string a, b;
        int ta, tb;
        refmp::splitExt(D.s, ta, a);
        refmp::splitExt(M.s, tb, b);
        return (ta == tb && a == b) || die("ext type or payload differs");
      }
      return D.s == M.s || die("raw bytes differ");
    }
    case MValue::Arr:
      if (D.kind != MValue::Arr || D.a.size() != M.a.size()) return die("array count differs");
      for (size_t i = 0; i < M.a.size(); i++)
        if (!mpDenotes(D.a[i], M.a[i], path + "[" + std::to_string(i) + "]", why, leaf)) return false;
      return true;
    case MValue::Obj:
      if (D.kind != MValue::Obj || D.o.size() != M.o.size()) return die("map count differs");
      for (size_t i = 0; i < M.o.size(); i++) {
        if (D.o[i].first != M.o[i].first) return die("key " + std::to_string(i) + " differs or is out of order");
        if (!mpDenotes(D.o[i].second, M.o[i].second, path + "." + vis(M.o[i].first.substr(0, 12)), why, leaf)) return false;
      }
      return true;
  }
  return false;
}

// Header families: strings, arrays and maps must carry the header family their length / count demands.
struct MpWalk {
  const std::string& b;
  size_t p = 0;
  std::string why;
  explicit MpWalk(const std::string& bytes) : b(bytes) {}
  bool header(size_t n, const char* what, bool hasFix, size_t fixMax, unsigned fixBase, bool has8, unsigned c8, unsigned c16, unsigned c32) {
    std::string h;
    refmp::lenHeader(h, n, 0, hasFix, fixMax, fixBase, has8, c8, c16, c32);
    if (b.compare(p, h.size(), h) != 0) {
      why = std::string(what) + " of " + std::to_string(n) + " at offset " + std::to_string(p) + ": header " + hex(b.substr(p, h.size())) + ", the family for this size is " + hex(h);
      return false;
    }
    p += h.size();
    return true;
  }
  bool value(const MValue& m) {
    switch (m.kind) {
      case MValue::Str:
        if (!header(m.s.size(), "string", true, 31, 0xa0, true, 0xd9, 0xda, 0xdb)) return false;
        p += m.s.size();
        return true;
      case MValue::Arr:
        if (!header(m.a.size(), "array", true, 15, 0x90, false, 0, 0xdc, 0xdd)) return false;
        for (auto& e : m.a)
          if (!value(e)) return false;
        return true;
      case MValue::Obj:
        if (!header(m.o.size(), "map", true, 15, 0x80, false, 0, 0xde, 0xdf)) return false;
        for (auto& kv : m.o) {
          if (!header(kv.first.size(), "key", true, 31, 0xa0, true, 0xd9, 0xda, 0xdb)) return false;
          p += kv.first.size();
          if (!value(kv.second)) return false;
        }
        return true;
      default: {
        refmp::Decoder D(b);
        D.pos = p;
        MValue tmp;
        if (p >= b.size() || D.value(tmp, 0) != refmp::Ok) {
          why = "cannot skip the object at offset " + std::to_string(p);
          return false;
        }
        p = D.pos;
        return true;
      }
    }
  }
};

// bin/ext "verbatim": what is emitted is byte-for-byte what the document retains
inline bool rawsVerbatim(const MValue& D, const MValue& E, std::string& why) {
  if (E.kind == MValue::Raw) {
    if (D.kind == MValue::Raw && D.s == E.s) return true;
    why = "document retains " + hex(E.s.substr(0, 24)) + "... (" + std::to_string(E.s.size()) + " bytes), emitted " + hex(D.s.substr(0, 24)) + "... (" + std::to_string(D.s.size()) + " bytes)";
    return false;
  }
  for (size_t i = 0; i < E.a.size() && i < D.a.size(); i++)
    if (!rawsVerbatim(D.a[i], E.a[i], why)) return false;
  for (size_t i = 0; i < E.o.size() && i < D.o.size(); i++)
    if (!rawsVerbatim(D.o[i].second, E.o[i].second, why)) return false;
  return true;
}
inline bool hasRaw(const MValue& m) {
  if (m.kind == MValue::Raw) return true;
  for (auto& e : m.a)
    if (hasRaw(e)) return true;
  for (auto& kv : m.o)
    if (hasRaw(kv.second)) return true;
  return false;
}

struct MpOpts {
  std::function<bool(JsonDocument&)> builder;  // empty: verif::build + observation check
  bool light = false;                          // big document: value-level build check, reduced destination sweep
  bool mayFail = false;                        // the size may exceed a configuration limit: skip when the API refuses
  int sto = 0;
  std::string tag;
  size_t fullLimit = 300;
};

inline bool mpNontrivial(const MValue& m, size_t len) {
  if (hasContainer(m)) return true;
  if (m.kind == MValue::Str) return m.s.size() > 31;
  if (m.kind == MValue::Int) return m.i > 127 || m.i < -32;
  return m.isFloat() || m.kind == MValue::Raw || len > 9;
}

// with ARDUINOJSON_USE_DOUBLE=0 a double given to the document is kept as the nearest float: the model follows
inline MValue configuredModel(const MValue& in) {
  MValue r = in;
#if !ARDUINOJSON_USE_DOUBLE
  if (r.kind == MValue::F64) r = MValue::f32(float(in.d));
#endif
#if !ARDUINOJSON_USE_LONG_LONG
  // without 64-bit storage an integer outside [-2^31, 2^32) cannot be held: the document has null instead (never a wrong number)
  if (r.kind == MValue::Int && (r.i < -(i128(1) << 31) || r.i >= (i128(1) << 32))) r = MValue::null();
#endif
  for (auto& e : r.a) e = configuredModel(e);
  for (auto& kv : r.o) kv.second = configuredModel(kv.second);
  return r;
}

inline void checkMsgPackDoc(Ctx& C, const MValue& mGiven, const MpOpts& o) {
  const MValue m = configuredModel(mGiven);
  if (o.sto && m.kind != MValue::Int) return;  // the signed-storage variant of an integer this configuration cannot hold
#if !ARDUINOJSON_USE_LONG_LONG
  if (o.sto && m.i >= (i128(1) << 31)) return;  // set(long) has 32-bit signed storage only: the document holds null
#endif
  std::string key = docKey(m) + (o.sto ? "|sto=signed" : "") + o.tag;
  const std::string kop = key + "|op=msgpack";
  C.begin(kop);
  JsonDocument doc;
  if (o.builder) {
    bool ok = o.builder(doc);
    if (!ok || doc.overflowed() || (doc.isNull() && m.kind != MValue::Null)) {
      if (o.mayFail) C.outcome("refused-by-configuration-limit");
      else C.failKey(key + "|stage=build", "build", "the public API refused to build the document");
      C.end();
      return;
    }
    MValue E = extract(doc.as<JsonVariantConst>());
    std::string why, leaf;
    if (!mpDenotes(E, m, "$", why, leaf)) {  // same relation: payload/type/value equality
      C.failKey(key + "|stage=build", "build", "document after construction: " + why);
      C.end();
      return;
    }
    if (m.kind == MValue::Raw) {
      bool isb = doc.is<MsgPackBinary>(), ise = doc.is<MsgPackExtension>();
      if (isb != rawIsBin(m.s) || ise != rawIsExt(m.s)) C.failKey(key + "|stage=build", "build", "is<MsgPackBinary>/is<MsgPackExtension> wrong after set()");
    }
  } else if (o.light) {
    bool ok = build(doc.to<JsonVariant>(), m);
    MValue E = extract(doc.as<JsonVariantConst>());
    std::string why, leaf;
    if (!ok || doc.overflowed() || !sameValueExact(E, m, "$", why, leaf)) {
      if (o.mayFail && (!ok || doc.overflowed())) C.outcome("refused-by-configuration-limit");
      else C.failKey(key + "|stage=build", "build", "big document not built: " + why);
      C.end();
      return;
    }
  } else if (!buildChecked(C, key, doc, m, o.sto)) {
    C.outcome("build-failed");
    C.end();
    return;
  }
  JsonVariantConst v = doc.as<JsonVariantConst>();
  std::string bytes = "previous";
  size_t r = serializeMsgPack(v, bytes);
  if (r != bytes.size()) C.failKey(kop + "|dst=std::string", "count", "returned " + std::to_string(r) + " for " + std::to_string(bytes.size()) + " bytes");
  // the same document built from linked strings (const char* values and keys) gives the same bytes
  if (!o.light && !o.builder && o.sto == 0 && bytes.size() < 4096) {
    JsonDocument dl;
    if (build(dl.to<JsonVariant>(), m, true) && !dl.overflowed()) {
      std::string b2;
      size_t r2 = serializeMsgPack(dl, b2);
      if (b2 != bytes || r2 != b2.size() || measureMsgPack(dl) != bytes.size())
        C.failKey(kop + "|strings=linked", "linked-differs", "linked strings give " + hex(b2.substr(0, 48)) + " instead of " + hex(bytes.substr(0, 48)));
    }
  }
  // exactly one object
  MValue D;
  size_t consumed = 0;
  refmp::Status st = refmp::decode(bytes, D, &consumed);
  bool decoded = false;
  if (st != refmp::Ok) {
    C.failKey(kop, "decoder-rejects", std::string("independent decoder: ") + refmp::statusName(st) + " on " + hex(bytes.substr(0, 48)));
  } else if (consumed != bytes.size()) {
    C.failKey(kop, "trailing-bytes", std::to_string(bytes.size() - consumed) + " bytes after the first object; output " + hex(bytes.substr(0, 48)));
  } else {
    decoded = true;
    std::string why, leaf;
    if (!mpDenotes(D, m, "$", why, leaf)) C.failKey(kop + (leaf.empty() ? "" : "|leaf=" + leaf), "value", why + "; output " + hex(bytes.substr(0, 32)));
    MpWalk W(bytes);
    if (!W.value(m)) C.failKey(kop, "header-family", W.why);
    if (hasRaw(m)) {
      MValue E = extract(v);
      if (!rawsVerbatim(D, E, why)) C.failKey(kop, "raw-verbatim", why);
    }
  }
  checkDestinations(C, key, OpMsgPack, v, bytes);
  checkCapacities(C, key, OpMsgPack, v, bytes, o.fullLimit);
  if (mpNontrivial(m, bytes.size())) C.nontrivial();
  char fb[8];
  snprintf(fb, sizeof fb, "%02x", bytes.empty() ? 0 : (unsigned char)bytes[0]);
  C.outcome(std::string(kindName(m)) + "/first=" + fb + (decoded ? "" : "/undecodable"));
  C.maxMetrics["max_output_bytes"] = std::max(C.maxMetrics["max_output_bytes"], double(bytes.size()));
  C.end();
}

// ------------------------------------------------------------------------------------------ floats, light path
// one value: set() -> serializeMsgPack into a small buffer -> reference decode -> judge
inline void checkFloatValue(Ctx& C, JsonDocument& doc, const MValue& given, std::string* firstByte = nullptr) {
  if (given.kind == MValue::F32) doc.set(given.f);
  else doc.set(given.d);
  const MValue m = configuredModel(given);  // what the document holds in this configuration
  unsigned char buf[16];
  memset(buf, 0xA5, sizeof buf);
  size_t n = serializeMsgPack(doc, buf, sizeof buf);
  auto key = [&]() { return "doc:" + mtext(m) + "|op=msgpack"; };
  if (n == 0 || n > 9 || buf[n] != 0xA5) {
    C.failKey(key(), "count", "returned " + std::to_string(n));
    return;
  }
  std::string bytes(reinterpret_cast<char*>(buf), n);
  MValue D;
  size_t consumed = 0;
  refmp::Status st = refmp::decode(bytes, D, &consumed);
  if (st != refmp::Ok || consumed != n) {
    C.failKey(key(), "decoder-rejects", std::string(refmp::statusName(st)) + " on " + hex(bytes));
    return;
  }
  std::string why, leaf;
  if (!mpDenotes(D, m, "$", why, leaf)) C.failKey(key() + "|leaf=" + leaf, "value", why + "; output " + hex(bytes));
  if (firstByte) {
    char fb[8];
    snprintf(fb, sizeof fb, "%02x", buf[0]);
    *firstByte = fb;
  }
  C.metrics["float_values"] += 1;
}

inline std::vector<uint64_t> mantissas(int bits) {
  const uint64_t all = (uint64_t(1) << bits) - 1;
  std::vector<uint64_t> v = {0, 1, all, 0x5555555555555555ULL & all, 0xAAAAAAAAAAAAAAAAULL & all};
  for (int k = 0; k < bits; k++) {
    v.push_back(uint64_t(1) << k);          // single bit
    v.push_back(all & ~((uint64_t(1) << k) - 1));  // ones above bit k
  }
  std::sort(v.begin(), v.end());
  v.erase(std::unique(v.begin(), v.end()), v.end());
  return v;
}

inline void runFloatPatterns(Ctx& C) {
  JsonDocument doc;
  std::vector<uint64_t> m32 = mantissas(23), m64 = mantissas(52);
  for (uint32_t se = 0; se < 512; se++) {
    if (C.expired()) return;
    if (!C.take()) continue;
    char kb[96];
    snprintf(kb, sizeof kb, "doc:f%08x+%zu mantissa patterns|op=msgpack", se << 23, m32.size());
    C.begin(kb);
    std::string fbs, fb;
    for (uint64_t mant : m32) {
      checkFloatValue(C, doc, MValue::f32(bitsf((se << 23) | uint32_t(mant))), &fb);
      if (fbs.find(fb) == std::string::npos) fbs += fb + ",";
    }
    C.nontrivial();
    C.outcome("f32-block first=" + fbs);
    C.end();
  }
  for (uint64_t se = 0; se < 4096; se++) {
    if (C.expired()) return;
    if (!C.take()) continue;
    char kb[96];
    snprintf(kb, sizeof kb, "doc:d%016llx+%zu mantissa patterns|op=msgpack", (unsigned long long)(se << 52), m64.size());
    C.begin(kb);
    std::string fbs, fb;
    for (uint64_t mant : m64) {
      checkFloatValue(C, doc, MValue::f64(bitsd((se << 52) | mant)), &fb);
      if (fbs.find(fb) == std::string::npos) fbs += fb + ",";
    }
    C.nontrivial();
    C.outcome("f64-block first=" + fbs);
    C.end();
  }
  C.bound("floats: 2 signs x 256 exponents x " + std::to_string(m32.size()) + " mantissa patterns (float32) and 2 x 2048 x " + std::to_string(m64.size()) +
          " (double): 0, 1, all ones, alternating, every single bit, every run of ones down to bit k");
}

// all 2^32 float32 values (flavour "fast")
inline void runAllFloats(Ctx& C) {
  JsonDocument doc;
  uint32_t blocks = uint32_t(atoi(C.opt("blocks", "65536").c_str()));
  for (uint32_t b = 0; b < blocks; b++) {
    if (C.expired()) break;
    if (!C.take()) continue;
    char kb[96];
    snprintf(kb, sizeof kb, "doc:f%04x0000..f%04xffff|op=msgpack", b, b);
    C.begin(kb);
    uint64_t before = C.violationCount;
    unsigned firsts = 0;
    for (uint32_t lo = 0; lo < 65536; lo++) {
      float f = bitsf((b << 16) | lo);
      doc.set(f);
      unsigned char buf[16];
      buf[9] = 0xA5;
      size_t n = serializeMsgPack(doc, buf, sizeof buf);
      // fast accept: float32 header followed by the exact bits
      if (n == 5 && buf[0] == 0xca && ((uint32_t(buf[1]) << 24) | (uint32_t(buf[2]) << 16) | (uint32_t(buf[3]) << 8) | buf[4]) == ((b << 16) | lo)) {
        firsts |= 1;
        continue;
      }
      firsts |= 2;
      MValue m = MValue::f32(f);
      std::string bytes(reinterpret_cast<char*>(buf), n <= 16 ? n : 16);
      MValue D;
      size_t consumed = 0;
      refmp::Status st = refmp::decode(bytes, D, &consumed);
      std::string why, leaf;
      if (n == 0 || n > 9 || st != refmp::Ok || consumed != n)
        C.failKey("doc:" + mtext(m) + "|op=msgpack", "decoder-rejects", std::string(refmp::statusName(st)) + " on " + hex(bytes));
      else if (!mpDenotes(D, m, "$", why, leaf))
        C.failKey("doc:" + mtext(m) + "|op=msgpack|leaf=" + leaf, "value", why + "; output " + hex(bytes));
      if (measureMsgPack(doc) != n) C.failKey("doc:" + mtext(m) + "|op=msgpack|dst=measure", "measure", "measureMsgPack differs from the returned count");
    }
    C.metrics["float_values"] += 65536;
    C.nontrivial();
    C.outcome(std::string("block ") + (firsts == 1 ? "float32" : firsts == 2 ? "integers" : "float32+integers") + (C.violationCount != before ? " FAIL" : ""));
    C.end();
  }
  C.bound("all 2^32 float32 bit patterns (" + std::to_string(blocks) + " blocks of 65536), each: doc.set(float) -> serializeMsgPack -> independent decoder");
}

// ------------------------------------------------------------------------------------------ documents
inline MValue nArray(size_t n, int style) {
  MValue a = MValue::array();
  a.a.reserve(n);
  for (size_t i = 0; i < n; i++) a.a.push_back(style == 0 ? MValue::null() : MValue::integer(i128(i)));
  return a;
}
inline MValue nMap(size_t n, int style) {
  MValue ob = MValue::object();
  ob.o.reserve(n);
  char k[16];
  for (size_t i = 0; i < n; i++) {
    snprintf(k, sizeof k, "k%05zu", i);
    ob.o.emplace_back(k, style == 0 ? MValue::null() : MValue::integer(i128(i)));
  }
  return ob;
}

inline std::vector<MValue> mpReducedLeaves() {
  std::string p1(1, '\x7f'), p4("\x00\x01\xfe\xff", 4);
  return {MValue::null(),
          MValue::boolean(true),
          MValue::boolean(false),
          MValue::integer(0),
          MValue::integer(-33),
          MValue::integer(128),
          MValue::integer(65536),
          MValue::integer(-(i128(1) << 63)),
          MValue::integer((i128(1) << 64) - 1),
          MValue::f32(0.5f),
          MValue::f32(1.0f),
          MValue::f64(0.1),
          MValue::f64(-0.0),
          MValue::f32(std::numeric_limits<float>::quiet_NaN()),
          MValue::str(""),
          MValue::str(pattern(31)),
          MValue::str(pattern(32)),
          MValue::raw(refmp::makeBin(p1)),
          MValue::raw(refmp::makeExt(5, p4))};
}

inline void runMsgPack(Ctx& C) {
  const bool T = C.thorough();
  const bool len4 = ARDUINOJSON_STRING_LENGTH_SIZE >= 4;
  auto one = [&](const MValue& m, const MpOpts& o) {
    if (C.expired()) return;
    if (!C.take()) return;
    checkMsgPackDoc(C, m, o);
  };
  MpOpts plain;
  // strings over every byte value, and strings whose bytes have neighbours (the alphabets of C02), as value and as key
  if (!len4) {
    std::vector<std::string> strs = stringsJson();
    for (auto& cs : contextStrings()) strs.push_back(cs);
    for (auto& cs : strs) {
      one(MValue::str(cs), plain);
      MValue ob = MValue::object();
      ob.o.emplace_back(cs, MValue::str(cs));
      one(ob, plain);
    }
  }
  const std::vector<size_t> binSizes = len4 ? std::vector<size_t>{0, 1, 255, 256, 65535, 65536, 65537, 0xFFFFFF, 0x1000000, 0x1000001}
                                            : std::vector<size_t>{0, 1, 2, 3, 4, 5, 8, 9, 15, 16, 17, 255, 256, 257, 65000, 65535, 65536};
  const std::vector<size_t> strSizes = len4 ? std::vector<size_t>{31, 32, 255, 256, 65534, 65535, 65536, 65537, 0x1000000}
                                            : std::vector<size_t>{0, 1, 30, 31, 32, 33, 254, 255, 256, 257, 65534, 65535, 65536, 65537};
  // bin / ext through the API
  for (size_t n : binSizes) {
    std::string payload = pattern(n);
    for (size_t i = 0; i < n; i += 3) payload[i] = char(i * 37);
    MpOpts o;
    o.mayFail = n + 6 > (len4 ? size_t(0xffffffffu) : size_t(65535));
    o.light = n > 1000;
    o.builder = [payload](JsonDocument& d) { return d.set(MsgPackBinary(payload.data(), payload.size())); };
    o.tag = "|api=MsgPackBinary";
    one(MValue::raw(refmp::makeBin(payload)), o);
    for (int type : {0, 1, -1, 127, -128}) {
      MpOpts e = o;
      e.builder = [payload, type](JsonDocument& d) { return d.set(MsgPackExtension(int8_t(type), payload.data(), payload.size())); };
      e.tag = "|api=MsgPackExtension";
      one(MValue::raw(refmp::makeExt(type & 0xff, payload)), e);
      if (n > 300 && type == 0) break;
    }
    // inside containers
    {
      MValue a = MValue::array();
      a.a.push_back(MValue::raw(refmp::makeBin(payload)));
      MValue ob = MValue::object();
      ob.o.emplace_back("x", MValue::raw(refmp::makeExt(7, payload)));
      a.a.push_back(ob);
      MpOpts c;
      c.mayFail = o.mayFail;
      c.light = true;
      c.builder = [payload](JsonDocument& d) {
        JsonArray arr = d.to<JsonArray>();
        bool ok = arr.add(MsgPackBinary(payload.data(), payload.size()));
        JsonObject obj = arr.add<JsonObject>();
        obj["x"] = MsgPackExtension(7, payload.data(), payload.size());
        return ok && obj["x"].is<MsgPackExtension>();
      };
      c.tag = "|api=MsgPackBinary+Extension";
      one(a, c);
    }
  }
  if (!len4 || T) {
    for (int type = -128; type <= 127; type++) {
      std::string payload(1, char(type * 3 + 1));
      MpOpts e;
      e.builder = [payload, type](JsonDocument& d) { return d.set(MsgPackExtension(int8_t(type), payload.data(), 1)); };
      e.tag = "|api=MsgPackExtension";
      one(MValue::raw(refmp::makeExt(type & 0xff, payload)), e);
    }
  }
  // strings and keys on every length boundary
  for (size_t n : strSizes) {
    MpOpts o;
    o.light = n > 1000;
    o.mayFail = n > (len4 ? size_t(0xffffffffu) : size_t(65535));
    std::string s = pattern(n);
    if (n > 2) s[n / 2] = 0;
    one(MValue::str(s), o);
    MValue ob = MValue::object();
    ob.o.emplace_back(s, MValue::null());
    one(ob, o);
    MValue a = MValue::array();
    a.a.push_back(MValue::str(s));
    a.a.push_back(MValue::str(s + "z"));
    o.mayFail = n + 1 > (len4 ? size_t(0xffffffffu) : size_t(65535));
    one(a, o);
  }
  if (len4) {
    C.bound("STRING_LENGTH_SIZE=4 build: strings, keys, bin and ext payloads of 65535, 65536, 65537 bytes, bin and ext payloads of 2^24-1, 2^24, 2^24+1 bytes and strings / keys of 2^24 bytes (every byte of a 32-bit length non-zero somewhere), and control sizes");
    return;
  }
  // nil, booleans, integers in both storages
  one(MValue::null(), plain);
  one(MValue::boolean(false), plain);
  one(MValue::boolean(true), plain);
  std::vector<i128> ints = intsMsgPack();
  for (i128 x : ints) {
    one(MValue::integer(x), plain);
    if (x >= 0 && x < (i128(1) << 63)) {
      MpOpts s;
      s.sto = 1;
      one(MValue::integer(x), s);
    }
  }
  for (i128 x : intsJson()) one(MValue::integer(x), plain);
  // named floats with the full destination / capacity treatment
  for (float f : floats32()) one(MValue::f32(f), plain);
  for (double d : floats64()) one(MValue::f64(d), plain);
  // float patterns (light path)
  runFloatPatterns(C);
  // containers on both sides of 15/16, and nested
  for (size_t n : {size_t(0), size_t(1), size_t(14), size_t(15), size_t(16), size_t(17)})
    for (int style = 0; style < 2; style++) {
      one(nArray(n, style), plain);
      one(nMap(n, style), plain);
    }
  for (size_t n1 : {size_t(15), size_t(16), size_t(17)})
    for (size_t n2 : {size_t(15), size_t(16), size_t(17)}) {
      MValue aa = MValue::array(), am = MValue::array(), ma = MValue::object(), mm = MValue::object();
      char k[16];
      for (size_t i = 0; i < n1; i++) {
        snprintf(k, sizeof k, "m%zu", i);
        aa.a.push_back(nArray(n2, 0));
        am.a.push_back(nMap(n2, 0));
        ma.o.emplace_back(k, nArray(n2, 1));
        mm.o.emplace_back(k, nMap(n2, 1));
      }
      MpOpts o;
      o.fullLimit = 64;
      one(aa, o);
      one(am, o);
      one(ma, o);
      one(mm, o);
    }
  // big arrays (linear to build); big maps are in mode msgpack-big
  {
    std::vector<size_t> big = {255, 256, 65534, 65535, 65536};  // both sides of array16 / array32 in every tier
    if (T) big.push_back(65537);
    for (size_t n : big) {
      MpOpts o;
      o.light = true;
      one(nArray(n, 0), o);
      one(nArray(n, 1), o);
    }
    MpOpts o;
    o.light = true;
    one(nMap(255, 1), o);
    one(nMap(256, 0), o);
    one(nMap(1000, 1), o);
  }
  // trees of <= 3 nodes over a reduced alphabet of the above
  TreeGen G;
  G.leavesTop = mpReducedLeaves();
  G.keys = {"", "a", pattern(32)};
  G.deepFrom = 64;
  G.dupKeys = false;
  int N = atoi(C.opt("nodes", T ? "4" : "3").c_str());
  G.upTo(N, [&](const MValue& t) { one(t, plain); });
  // nesting chains
  std::vector<int> depths = {1, 2, 3, 10, 11, 12};
  if (T) depths.push_back(100);
  MValue leaf = MValue::integer(-33);
  for (int d : depths) {
    one(chain(d, 0, nullptr), plain);
    one(chain(d, 1, &leaf), plain);
    one(chain(d, 2, &leaf), plain);
  }
  C.bound("nil, booleans; " + std::to_string(ints.size()) + " integers within 2 of +-2^k (k = 0..64) in unsigned and signed storage plus the C02 decimal boundaries; "
          "named float/double boundary values; strings and keys of 0 1 30..33 254..257 65534 65535 bytes (65536, 65537 must be refused with 2-byte lengths); "
          "arrays and maps of 0 1 14..17 children, 15..17 x 15..17 nested (4 shapes); arrays of 255 256 65534 65535" + std::string(T ? " 65536 65537" : "") +
          " elements; maps of 255 256 1000; MsgPackBinary / MsgPackExtension of 0 1 2 3 4 5 8 9 15 16 17 255 256 257 65000 bytes through the API, all 256 "
          "extension types at size 1; all trees with <= " + std::to_string(N) + " nodes over " + std::to_string(G.leavesTop.size()) +
          " leaves and 3 keys; chains of depth 1 2 3 10 11 12" + std::string(T ? " 100" : ""));
  C.bound("per document: std::string, large buffer, ostream, byte-wise writer, stopping writer, Print, String (outputs without NUL), fixed arrays, and every capacity "
          "0..length+2 for outputs up to 300 bytes (0..66, 255..257, length/2, length-2..length+2 beyond) as exact heap block and sentinel window");
}

// big maps (flavour "fast": key lookup makes construction quadratic)
inline void runMsgPackBig(Ctx& C) {
  const bool T = C.thorough();
  std::vector<size_t> sizes = {65535, 65536};  // both sides of the map16 / map32 boundary in every tier
  if (T) sizes = {65534, 65535, 65536, 65537};
  auto viaDeser = [&](size_t n, int style) {
    if (C.expired()) return;
    if (!C.take()) return;
    MValue m = nMap(n, style);
    std::string input = refmp::encode(m);
    MpOpts o;
    o.light = true;
    o.tag = "|built=deserializeMsgPack";
    o.builder = [input](JsonDocument& d) { return deserializeMsgPack(d, input.data(), input.size()) == DeserializationError::Ok; };
    checkMsgPackDoc(C, m, o);
  };
  for (size_t n : sizes) viaDeser(n, 0);
  if (T) {
    viaDeser(65536, 1);
    if (!C.expired() && C.take()) {
      MpOpts o;
      o.light = true;
      o.tag = "|built=api";
      checkMsgPackDoc(C, nMap(65536, 1), o);
    }
    if (!C.expired() && C.take()) {
      MpOpts o;
      o.light = true;
      o.tag = "|built=api";
      checkMsgPackDoc(C, nMap(65535, 0), o);
    }
  }
  std::string sl;
  for (size_t n : sizes) sl += " " + std::to_string(n);
  C.bound("maps of" + sl + " members built by deserializeMsgPack from a reference encoding" + std::string(T ? "; maps of 65535 and 65536 members built member by member through the API" : ""));
}

}  // namespace dx
