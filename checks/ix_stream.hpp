// C16 — one call consumes one document from a stream.
//
// Enumerates every sequence of 1..3 documents over a 14-document JSON alphabet (plus 8 larger documents in
// short sequences) x every choice of whitespace separator before / between / after x 6 suffixes appended
// after the last document x 6 readers, and every sequence of <= 3 MessagePack objects over all encodings
// (<= 1 non-minimal node) of 12 small values (plus 7 larger ones in short sequences) x 5 suffixes x 6 readers.
// After every call the number of bytes the reader has handed out must be exactly "leading whitespace +
// the document" (one more allowed after a JSON number), the code must be Ok and the document must
// observe as the reference value.  What calls 1..i returned and consumed must be a function of the
// bytes they consumed: (a) a memo across the whole enumeration - the same (reader, consumed prefix) must
// never give two different answers - and (b) inside each case, re-running calls 1..i on a stream that
// holds only the consumed bytes must give the same answers.  A further call on an exhausted stream
// must return EmptyInput.
#pragma once
#include <ArduinoJson.h>
#include <limits>

#include <istream>
#include <streambuf>
#include <unordered_map>

#include "common.hpp"
#include "model.hpp"
#include "refjson.hpp"
#include "refmsgpack.hpp"

namespace ix_stream {
using namespace ArduinoJson;
using namespace verif;

// ------------------------------------------------------------------------------------------ readers
// std::streambuf exposing the data through a get area of at most W bytes at a time (W=1: every byte goes
// through underflow()/uflow(); large W: block delivery).  position() = offset of the next unread byte.
class WindowBuf : public std::streambuf {
 public:
  WindowBuf(const std::string& d, size_t w) : data_(d), w_(w) { window(0); }
  size_t position() const { return base_ + size_t(gptr() - eback()); }
  uint64_t refills = 0;

 protected:
  int_type underflow() override {
    if (gptr() < egptr()) return traits_type::to_int_type(*gptr());
    size_t next = position();
    if (next >= data_.size()) return traits_type::eof();
    window(next);
    refills++;
    return traits_type::to_int_type(*gptr());
  }

 private:
  void window(size_t off) {
    base_ = off;
    size_t n = std::min(w_, data_.size() - off);
    char* b = const_cast<char*>(data_.data()) + off;
    setg(b, b, b + n);
  }
  std::string data_;
  size_t w_, base_ = 0;
};

// custom reader (the documented duck-typed interface).  block=false: readBytes() is a loop over read();
// block=true: readBytes() copies the whole block at once.
struct CustomReader {
  const std::string* d;
  bool block;
  size_t pos = 0;
  uint64_t readCalls = 0, readBytesCalls = 0;
  CustomReader(const std::string& s, bool b) : d(&s), block(b) {}
  CustomReader(const CustomReader&) = delete;
  int read() {
    readCalls++;
    return pos < d->size() ? static_cast<unsigned char>((*d)[pos++]) : -1;
  }
  size_t readBytes(char* buf, size_t n) {
    readBytesCalls++;
    if (block) {
      size_t k = std::min(n, d->size() - pos);
      memcpy(buf, d->data() + pos, k);
      pos += k;
      return k;
    }
    size_t k = 0;
    while (k < n) {
      int c = read();
      if (c < 0) break;
      buf[k++] = char(c);
    }
    return k;
  }
  size_t position() const { return pos; }
};

#if ARDUINOJSON_ENABLE_ARDUINO_STREAM
// the repository's Arduino Stream stub (extras/tests/Helpers/api/Stream.h)
struct ArduinoStub : public Stream {
  const std::string* d;
  size_t pos = 0;
  explicit ArduinoStub(const std::string& s) : d(&s) {}
  int read() override { return pos < d->size() ? static_cast<unsigned char>((*d)[pos++]) : -1; }
  size_t readBytes(char* buf, size_t n) override {
    size_t k = std::min(n, d->size() - pos);
    memcpy(buf, d->data() + pos, k);
    pos += k;
    return k;
  }
  size_t position() const { return pos; }
};
#endif

// "customskip": the byte-wise custom reader with a filter that discards everything (skip routines / skipBytes)
// "istreamskip" / "arduinoskip": the same discard-all filter on the 3-byte-window istream and on the Arduino Stream stub
static const char* kReaders[] = {"istream", "istreamblk", "custom", "customblk", "customskip", "istreamskip", "arduino", "arduinoskip"};
#if ARDUINOJSON_ENABLE_ARDUINO_STREAM
static const int kNumReaders = 8;
#else
static const int kNumReaders = 6;
#endif
inline bool isSkipReader(int r) { return r == 4 || r == 5 || r == 7; }

// ------------------------------------------------------------------------------------------ alphabets
struct Doc {
  std::string bytes;
  MValue value;
  bool number = false;  // JSON number: may consume one further byte
  std::string name;     // rendering in the case key
  std::string obs;      // obsModel(value), cached
  bool basic = false;   // MessagePack: the minimal or the all-maximal encoding of its value
  bool extended = false;  // larger document: only in sequences of <= 2 (thorough) / 1 (quick)
  bool skipOnly = false;  // too large to be stored (or just large): only through the readers with the discard-all filter
  bool byHand = false;    // outside RFC 8259 (ArduinoJson dialect): no refjson cross-check
};

inline std::vector<Doc> jsonDocs() {
  std::vector<Doc> D;
  auto add = [&](const char* text, MValue v, bool num) {
    Doc d;
    d.bytes = text;
    d.value = v;
    d.number = num;
    d.name = text;
    D.push_back(d);
  };
  MValue oa = MValue::object();
  oa.o.emplace_back("a", MValue::integer(1));
  MValue a1 = MValue::array();
  a1.a.push_back(MValue::integer(1));
  add("{}", MValue::object(), false);
  add("{\"a\":1}", oa, false);
  add("[]", MValue::array(), false);
  add("[1]", a1, false);
  add("\"s\"", MValue::str("s"), false);
  add("'s'", MValue::str("s"), false);
  add("true", MValue::boolean(true), false);
  add("false", MValue::boolean(false), false);
  add("null", MValue::null(), false);
  add("0", MValue::integer(0), true);
  add("42", MValue::integer(42), true);
  add("-7", MValue::integer(-7), true);
  add("1.5", MValue::f64(1.5), true);
  add("1e3", MValue::f64(1000.0), true);
  // extended alphabet: other last-token shapes, escapes, nesting, the longest number the documented limits allow
  size_t base = D.size();
  MValue nested = MValue::object(), inner = MValue::array(), b = MValue::object();
  b.o.emplace_back("b", MValue::null());
  inner.a.push_back(MValue::integer(1));
  inner.a.push_back(b);
  nested.o.emplace_back("a", inner);
  nested.o.emplace_back("c", MValue::str("d"));
  add("{\"a\":[1,{\"b\":null}],\"c\":\"d\"}", nested, false);
  MValue two = MValue::array();
  two.a.push_back(MValue::array());
  two.a.push_back(MValue::object());
  add("[[],{}]", two, false);
  add("\"a\\\"b\\\\\"", MValue::str("a\"b\\"), false);
#if ARDUINOJSON_DECODE_UNICODE
  add("\"\\u00e9\"", MValue::str("\xc3\xa9"), false);
#else
  add("\"\\u00e9\"", MValue::str("\\u00e9"), false);  // the escape is kept verbatim when decoding is disabled
  D.back().byHand = true;
#endif
  add("\"\"", MValue::str(""), false);
  add("''", MValue::str(""), false);
  add("1E+2", MValue::f64(100.0), true);
  {
    std::string lit(61, '0');
    lit += "42";  // 63 characters, the documented maximum for a numeric literal
    add(lit.c_str(), MValue::integer(42), true);
    D.back().name = "0{61}42";
    D.back().byHand = true;
  }
#if ARDUINOJSON_ENABLE_NAN
  add("NaN", MValue::f64(std::numeric_limits<double>::quiet_NaN()), true);
  D.back().byHand = true;
#endif
#if ARDUINOJSON_ENABLE_INFINITY
  add("Infinity", MValue::f64(std::numeric_limits<double>::infinity()), true);
  D.back().byHand = true;
  add("-Infinity", MValue::f64(-std::numeric_limits<double>::infinity()), true);
  D.back().byHand = true;
#endif
  for (size_t i = base; i < D.size(); i++) D[i].extended = true;
  for (auto& d : D) if (d.bytes[0] == '\'') d.byHand = true;
  return D;
}

struct Sep { const char* name; const char* bytes; };
#if ARDUINOJSON_ENABLE_COMMENTS
// with comments enabled a comment is whitespace in front of a document (it starts with a space here, so that it may follow a number)
static const Sep kSeps[] = {{"e", ""}, {"sp", " "}, {"lf", "\n"}, {"crlf", "\r\n"}, {"tab2", "\t  "}, {"block", " /*c*/"}, {"line", " //c\n"}};
static const int kNumSeps = 7;
#else
static const Sep kSeps[] = {{"e", ""}, {"sp", " "}, {"lf", "\n"}, {"crlf", "\r\n"}, {"tab2", "\t  "}};
static const int kNumSeps = 5;
#endif

inline std::vector<std::string> jsonSuffixes() { return {"", "x", "]", "\"", "1", std::string(1, '\0')}; }
inline std::vector<std::string> msgpackSuffixes() { return {"", "\xc1", "\x91", "\xd9", std::string(1, '\0')}; }

inline std::vector<Doc> msgpackDocs(int nonMinimal) {
  std::vector<MValue> vals;
  vals.push_back(MValue::null());
  vals.push_back(MValue::boolean(true));
  vals.push_back(MValue::integer(1));
  vals.push_back(MValue::integer(-1));
  vals.push_back(MValue::integer(300));
  vals.push_back(MValue::f64(1.5));
  vals.push_back(MValue::str("a"));
  MValue a1 = MValue::array();
  a1.a.push_back(MValue::integer(1));
  vals.push_back(a1);
  MValue oa = MValue::object();
  oa.o.emplace_back("a", MValue::integer(1));
  vals.push_back(oa);
  vals.push_back(MValue::raw(refmp::makeBin("\x01\xff")));
  vals.push_back(MValue::raw(refmp::makeExt(5, "\x7f")));
  MValue aa = MValue::array();
  aa.a.push_back(MValue::array());
  vals.push_back(aa);
  const size_t baseVals = vals.size();
  {  // extended alphabet
    MValue nested = MValue::object(), inner = MValue::array(), b = MValue::object();
    b.o.emplace_back("b", MValue::null());
    inner.a.push_back(MValue::integer(1));
    inner.a.push_back(b);
    nested.o.emplace_back("a", inner);
    vals.push_back(nested);
    vals.push_back(MValue::str(std::string(40, 'x')));  // str8
    vals.push_back(MValue::integer((i128(1) << 64) - 1));
    vals.push_back(MValue::integer(-(i128(1) << 63)));
    vals.push_back(MValue::f32(2.5f));
    vals.push_back(MValue::raw(refmp::makeExt(1, std::string(3, 'e'))));  // ext8
    vals.push_back(MValue::raw(refmp::makeBin(std::string(300, 'b'))));  // bin16
    // map keys on both sides of the fixstr / str8 / str16 boundaries
    for (size_t kl : std::vector<size_t>{15, 16, 31, 32, 255, 256}) {
      MValue m = MValue::object();
      m.o.emplace_back(std::string(kl, 'k'), MValue::integer(21));
      vals.push_back(m);
    }
    for (size_t n : std::vector<size_t>{255, 256, 4095, 4096, 4097}) vals.push_back(MValue::raw(refmp::makeBin(std::string(n, 'p'))));
  }
  const size_t storableVals = vals.size();
  {  // skipped only: payloads around the 16-bit boundary and a long array
    for (size_t n : std::vector<size_t>{65535, 65536, 65537}) {
      MValue m = MValue::object();
      m.o.emplace_back("blob", MValue::raw(refmp::makeBin(std::string(n, 'q'))));
      m.o.emplace_back("n", MValue::integer(7));
      vals.push_back(m);
    }
    MValue many = MValue::array();
    many.a.assign(70000, MValue::null());
    vals.push_back(many);
  }
  std::vector<Doc> D;
  std::set<std::string> seen;
  size_t vi = 0;
  for (auto& v : vals) {
    const bool skipOnly = vi >= storableVals;
    const bool ext = vi++ >= baseVals;
    const size_t first = D.size();
    refmp::encodings(v, nonMinimal, [&](const std::string& bytes, const std::string&) {
      if (!seen.insert(bytes).second) return;
      Doc d;
      d.bytes = bytes;
      d.name = hex(bytes);
      D.push_back(d);
    });
    refmp::encodings(v, 0, [&](const std::string& bytes, const std::string&) {
      for (auto& d : D) if (d.bytes == bytes) d.basic = true;
    });
    for (size_t i = first; i < D.size(); i++) {
      D[i].extended = ext;
      D[i].skipOnly = skipOnly;
      if (D[i].bytes.size() > 24) D[i].name = hex(D[i].bytes.substr(0, 8)) + "..(" + std::to_string(D[i].bytes.size()) + ")";
    }
  }
  return D;
}

// ------------------------------------------------------------------------------------------ one case
struct Plan {
  bool msgpack = false;
  std::string stream;
  std::vector<const Doc*> docs;
  std::vector<size_t> ends;  // offset just past document i
  bool cleanEnd = false;     // nothing but (JSON) whitespace follows the last document
};

struct Memo {
  // (reader, consumed prefix) -> what the calls so far answered; a second, different answer is a violation
  std::unordered_map<uint64_t, uint64_t> seen;
  uint64_t hits = 0;
};

struct Answer {
  DeserializationError::Code code;
  std::string obs;  // observation of the document after the call
  size_t pos;       // reader position after the call
  bool operator==(const Answer& o) const { return code == o.code && obs == o.obs && pos == o.pos; }
};

// Performs up to `ncalls` successive calls on one source; stops after the first call that is not Ok.
template <typename Src, typename PosFn>
inline std::vector<Answer> exec(bool msgpack, size_t ncalls, Src& src, PosFn position, bool skip, uint64_t& calls) {
  std::vector<Answer> out;
  JsonDocument doc, fdoc;
  fdoc.set(false);
  DeserializationOption::Filter discard(fdoc);
  for (size_t i = 0; i < ncalls; i++) {
    DeserializationError e;
    if (skip) e = msgpack ? deserializeMsgPack(doc, src, discard) : deserializeJson(doc, src, discard);
    else e = msgpack ? deserializeMsgPack(doc, src) : deserializeJson(doc, src);
    calls++;
    out.push_back({e.code(), obsReal(doc.as<JsonVariantConst>()), position()});
    if (e != DeserializationError::Ok) break;
  }
  return out;
}

inline std::vector<Answer> execReader(const std::string& stream, bool msgpack, int reader, size_t ncalls, uint64_t& calls) {
  switch (reader) {
    case 0:
    case 1: {
      WindowBuf buf(stream, reader == 0 ? 1 : 3);
      std::istream is(&buf);
      return exec(msgpack, ncalls, is, [&] { return buf.position(); }, false, calls);
    }
    case 2:
    case 3:
    case 4: {
      CustomReader rd(stream, reader == 3);
      return exec(msgpack, ncalls, rd, [&] { return rd.position(); }, reader == 4, calls);
    }
    case 5: {
      WindowBuf buf(stream, 3);
      std::istream is(&buf);
      return exec(msgpack, ncalls, is, [&] { return buf.position(); }, true, calls);
    }
#if ARDUINOJSON_ENABLE_ARDUINO_STREAM
    case 6:
    case 7: {
      ArduinoStub st(stream);
      return exec(msgpack, ncalls, st, [&] { return st.position(); }, reader == 7, calls);
    }
#endif
  }
  return {};
}

inline void runReader(Ctx& C, const Plan& P, int reader, Memo& memo, uint64_t& calls) {
  const bool skip = isSkipReader(reader);
  const size_t n = P.docs.size();
  std::vector<Answer> A = execReader(P.stream, P.msgpack, reader, n + 1, calls);
  std::string outcome;
  for (auto& a : A) outcome += std::string(outcome.empty() ? "" : ",") + DeserializationError(a.code).c_str();
  C.outcome(outcome);
  uint64_t answers = fnv1a(&reader, sizeof reader);
  size_t good = 0;  // calls that were judged correct
  for (size_t i = 0; i < n && i < A.size(); i++) {
    const Doc& d = *P.docs[i];
    const Answer& a = A[i];
    std::string at = "call " + std::to_string(i + 1) + " (document " + d.name + "): ";
    if (a.code != DeserializationError::Ok) {
      C.fail("code", at + "returned " + DeserializationError(a.code).c_str() + " instead of Ok; stream " + vis(P.stream));
      break;
    }
    if (!skip && a.obs != d.obs) C.fail("value", at + "observed " + a.obs + " expected " + d.obs + "; stream " + vis(P.stream));
    bool exact = a.pos == P.ends[i];
    bool lookahead = d.number && a.pos == P.ends[i] + 1 && a.pos <= P.stream.size();
    if (!exact && !lookahead) {
      C.fail(a.pos > P.ends[i] ? "over-consumption" : "under-consumption",
             at + "reader position " + std::to_string(a.pos) + " after the call, the document ends at " + std::to_string(P.ends[i]) +
                 (d.number ? " (+1 allowed)" : "") + "; stream " + vis(P.stream));
      break;
    }
    good = i + 1;
    // independence from what was not consumed, (a) across the enumeration: one answer per (reader, consumed prefix)
    answers = fnv1a(a.obs, fnv1a(&a.pos, sizeof a.pos, answers));
    uint64_t prefix = fnv1a(P.stream.data(), a.pos, fnv1a(&reader, sizeof reader, P.msgpack ? 77 : 78));
    prefix = fnv1a(&i, sizeof i, prefix);
    auto it = memo.seen.find(prefix);
    if (it == memo.seen.end()) memo.seen.emplace(prefix, answers);
    else {
      memo.hits++;
      if (it->second != answers)
        C.fail("depends-on-unread-bytes", at + "the same consumed prefix " + vis(P.stream.substr(0, a.pos)) +
                                              " gave a different answer in another case; stream " + vis(P.stream));
    }
    // (b) within the case (replayable): the same calls on the consumed bytes alone must answer the same
    if (a.pos < P.stream.size()) {
      std::vector<Answer> A2 = execReader(P.stream.substr(0, a.pos), P.msgpack, reader, i + 1, calls);
      bool same = A2.size() == i + 1;
      for (size_t k = 0; same && k <= i; k++) same = A2[k] == A[k];
      if (!same)
        C.fail("depends-on-unread-bytes", at + "calls 1.." + std::to_string(i + 1) + " answer differently when the stream holds only the bytes they consumed (" +
                                              vis(P.stream.substr(0, a.pos)) + "); full stream " + vis(P.stream));
    }
  }
  if (good == n && A.size() == n + 1) {
    // the call after the last document: on an exhausted stream it must say EmptyInput
    if (P.cleanEnd && A[n].code != DeserializationError::EmptyInput)
      C.fail("end-of-stream", std::string("the call after the last document returned ") + DeserializationError(A[n].code).c_str() +
                                  " instead of EmptyInput; stream " + vis(P.stream));
    if (A[n].pos > P.stream.size()) C.fail("over-consumption", "reader position beyond the end of the stream");
  }
}

inline void selfCheck(Ctx& C, const std::vector<Doc>& J, std::vector<Doc>& M) {
  for (auto& d : J) {
    if (d.byHand) continue;  // single quotes, leading zeros: ArduinoJson dialect, value given by hand
    MValue m;
    std::string err;
    if (!refjson::parse(d.bytes, m, &err) || obsModel(&m) != obsModel(&d.value))
      C.failKey("stream:selfcheck:" + d.name, "selfcheck", "alphabet value differs from refjson: " + err);
  }
  for (auto& d : M) {
    size_t consumed = 0;
    refmp::Status s = refmp::decode(d.bytes + "\xc1", d.value, &consumed);  // followed by a byte that is not part of it
    if (s != refmp::Ok || consumed != d.bytes.size())
      C.failKey("stream:selfcheck:" + d.name, "selfcheck", "reference decoder does not consume exactly the encoding");
  }
}

inline void run(Ctx& C) {
  const bool T = C.thorough();
  const int maxDocs = atoi(C.opt("docs", "3").c_str());
  // quick tier: sequences of 3 use the separators {"", LF} only and the minimal / all-maximal MessagePack encodings only
  std::vector<Doc> J = jsonDocs();
  std::vector<Doc> M = msgpackDocs(1);
  selfCheck(C, J, M);
  for (auto& d : J) d.obs = obsModel(&d.value);
  for (auto& d : M) d.obs = obsModel(&d.value);
  Memo memo;
  uint64_t calls = 0;
  const std::vector<std::string> jsuf = jsonSuffixes(), msuf = msgpackSuffixes();
  const std::string onlyFmt = C.opt("fmt");

  // ---- JSON
  if (onlyFmt.empty() || onlyFmt == "json") {
    for (int n = 1; n <= maxDocs; n++) {
      std::vector<int> di(size_t(n), 0), si(size_t(n) + 1, 0);
      size_t docCombos = 1, sepCombos = 1;
      for (int k = 0; k < n; k++) docCombos *= J.size();
      for (int k = 0; k <= n; k++) sepCombos *= size_t(kNumSeps);
      for (size_t dc = 0; dc < docCombos; dc++) {
        size_t x = dc;
        for (int k = n - 1; k >= 0; k--) { di[size_t(k)] = int(x % J.size()); x /= J.size(); }
        {
          bool ext = false;
          for (int k = 0; k < n; k++) ext = ext || J[size_t(di[size_t(k)])].extended;
          if (ext && n > (T ? 2 : 1)) continue;
        }
        std::string docNames;
        for (int k = 0; k < n; k++) docNames += (k ? ";" : "") + J[size_t(di[size_t(k)])].name;
        if (C.expired()) goto done;
        for (size_t sc = 0; sc < sepCombos; sc++) {
          x = sc;
          for (int k = n; k >= 0; k--) { si[size_t(k)] = int(x % size_t(kNumSeps)); x /= size_t(kNumSeps); }
          // at least one whitespace byte after every number that is followed by another document
          bool legal = true;
          for (int k = 0; k + 1 < n; k++)
            if (J[size_t(di[size_t(k)])].number && si[size_t(k) + 1] == 0) legal = false;
          if (!T && n >= 3)
            for (int k = 0; k <= n; k++)
              if (si[size_t(k)] != 0 && si[size_t(k)] != 2) legal = false;
          if (!legal) continue;
          const bool lastIsBareNumber = J[size_t(di[size_t(n) - 1])].number && si[size_t(n)] == 0;
          Plan P;
          std::string sepNames;
          for (int k = 0; k <= n; k++) sepNames += (k ? "," : "") + std::string(kSeps[si[size_t(k)]].name);
          for (size_t sf = 0; sf < jsuf.size(); sf++) {
            // a number directly followed by a non-whitespace byte: the statement leaves the answer open
            if (lastIsBareNumber && !jsuf[sf].empty()) continue;
            bool built = false;
            for (int r = 0; r < kNumReaders; r++) {
              // cases that can share a consumed prefix (same reader, first separator, first document) go to the same shard
              const int ident[4] = {0, r, si[0], di[0]};
              if (!C.takeByHash(fnv1a(ident, sizeof ident) >> 7)) continue;
              if (!built) {
                built = true;
                P = Plan();
                for (int k = 0; k < n; k++) {
                  P.stream += kSeps[si[size_t(k)]].bytes;
                  P.stream += J[size_t(di[size_t(k)])].bytes;
                  P.docs.push_back(&J[size_t(di[size_t(k)])]);
                  P.ends.push_back(P.stream.size());
                }
                P.stream += kSeps[si[size_t(n)]].bytes;
                P.stream += jsuf[sf];
                P.cleanEnd = jsuf[sf].empty();
              }
              C.begin("stream:fmt=json|docs=" + docNames + "|seps=" + sepNames + "|reader=" + kReaders[r] + "|suffix=" + hex(jsuf[sf]));
              if (n >= 2) C.nontrivial();
              runReader(C, P, r, memo, calls);
              C.end();
            }
          }
        }
      }
    }
  }
  // ---- MessagePack
  if (onlyFmt.empty() || onlyFmt == "msgpack") {
    for (int n = 1; n <= maxDocs; n++) {
      std::vector<int> di(size_t(n), 0);
      size_t docCombos = 1;
      for (int k = 0; k < n; k++) docCombos *= M.size();
      for (size_t dc = 0; dc < docCombos; dc++) {
        size_t x = dc;
        for (int k = n - 1; k >= 0; k--) { di[size_t(k)] = int(x % M.size()); x /= M.size(); }
        if (C.expired()) goto done;
        {
          bool ext = false;
          for (int k = 0; k < n; k++) ext = ext || M[size_t(di[size_t(k)])].extended;
          if (ext && n > (T ? 2 : 1)) continue;
        }
        if (!T && n >= 3) {
          bool basic = true;
          for (int k = 0; k < n; k++) basic = basic && M[size_t(di[size_t(k)])].basic;
          if (!basic) continue;
        }
        std::string docNames;
        for (int k = 0; k < n; k++) docNames += (k ? ";" : "") + M[size_t(di[size_t(k)])].name;
        for (size_t sf = 0; sf < msuf.size(); sf++) {
          Plan P;
          bool built = false;
          bool anySkipOnly = false;
          for (int k = 0; k < n; k++) anySkipOnly = anySkipOnly || M[size_t(di[size_t(k)])].skipOnly;
          for (int r = 0; r < kNumReaders; r++) {
            if (anySkipOnly && !isSkipReader(r)) continue;
            const int ident[4] = {1, r, 0, di[0]};
            if (!C.takeByHash(fnv1a(ident, sizeof ident) >> 7)) continue;
            if (!built) {
              built = true;
              P.msgpack = true;
              for (int k = 0; k < n; k++) {
                P.stream += M[size_t(di[size_t(k)])].bytes;
                P.docs.push_back(&M[size_t(di[size_t(k)])]);
                P.ends.push_back(P.stream.size());
              }
              P.stream += msuf[sf];
              P.cleanEnd = msuf[sf].empty();
            }
            C.begin("stream:fmt=msgpack|docs=" + docNames + "|seps=|reader=" + kReaders[r] + "|suffix=" + hex(msuf[sf]));
            if (n >= 2) C.nontrivial();
            runReader(C, P, r, memo, calls);
            C.end();
          }
        }
      }
    }
  }
done:
  C.metrics["library_calls"] += double(calls);
  C.metrics["prefix_memo_hits"] += double(memo.hits);
  C.metrics["prefix_memo_entries"] += double(memo.seen.size());
  C.bound(std::string(T ? "" : "[quick: sequences of 3 restricted to separators {\"\", LF} and to the minimal / all-maximal MessagePack encodings] ") +
          "JSON: every sequence of 1.." + std::to_string(maxDocs) + " documents over {{} {\"a\":1} [] [1] \"s\" 's' true false null 0 42 -7 1.5 1e3} "
          "(and, in sequences of at most " + std::string(T ? "2" : "1") + ", also {nested object, [[],{}], strings with \\\" \\\\ and \\u00e9, \"\", '', 1E+2, a 63-character number}) x "
          "every separator in {\"\", SP, LF, CRLF, TAB SP SP} before / between / after (never \"\" between a number and the next document; "
          "a last number directly followed by a non-empty suffix is excluded) x suffix in {\"\", x, ], \", 1, NUL} x " +
          std::to_string(kNumReaders) + " readers {std::istream over a 1-byte-window streambuf, over a 3-byte-window streambuf, custom reader with "
          "byte-wise readBytes, custom reader with block readBytes, byte-wise custom reader / 3-byte-window istream / Arduino Stream stub with a discard-all filter (code and consumption only), Arduino Stream stub}; MessagePack: every sequence of 1.." + std::to_string(maxDocs) +
          " objects over the " + std::to_string(M.size()) + " encodings (at most one non-minimal node, plus all-maximal) of {nil true 1 -1 300 1.5 \"a\" [1] {\"a\":1} bin ext [[]]} (and, in sequences of at most " + std::string(T ? "2" : "1") +
          ", of {nested map, 40-byte string, 2^64-1, -2^63, float32 2.5, ext8, bin16, maps with keys of 15 16 31 32 255 256 bytes, bin of 255 256 4095 4096 4097 bytes; through the discarding readers only: bin of 65535..65537 bytes inside a map, a 70000-element array}) "
          "x suffix in {\"\", c1, 91, d9, 00} x the same readers");
}
}  // namespace ix_stream
