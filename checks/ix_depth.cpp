#include "ix_depth.hpp"
int main(int argc, char** argv) {
  verif::Ctx C(argc, argv);
  ix_depth::run(C);
  return C.finish();
}
