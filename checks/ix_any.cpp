#include "ix_any.hpp"
int main(int argc, char** argv) {
  verif::Ctx C(argc, argv);
  ix_any::run(C);
  return C.finish();
}
