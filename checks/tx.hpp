// C20 — distinct documents can be used from distinct threads without synchronisation.
//
// mode "sched":    every schedule with <= P preemptions of 2 (or 3) thread bodies, the scheduling
//                  points being the library's call-out seams (allocator, reader, writer); each
//                  thread's results must equal those of the sequential run of the same body.
// mode "tsan":     the same bodies free-running in 4 OS threads under -fsanitize=thread.
// mode "selftest": the machinery checked against closed forms, brute force, itself, and toys.
#pragma once
#include <ArduinoJson.h>
#include <pthread.h>
#include <sys/wait.h>

#include <map>
#include <memory>
#include <sstream>

#include "common.hpp"
#include "sched.hpp"

namespace tx {
using namespace ArduinoJson;
using verif::Ctx;

// ------------------------------------------------------------------ seams

// Allocator seam + live-block ledger.  One instance per thread body; never shared.
class SeamAllocator : public Allocator {
 public:
  void* allocate(size_t n) override {
    sched::point("a", uint32_t(n));
    void* p = malloc(n);
    if (p) live_[p] = n;
    calls++;
    return p;
  }
  void deallocate(void* p) override {
    auto it = live_.find(p);
    sched::point("d", it == live_.end() ? 0xffffffffu : uint32_t(it->second));
    calls++;
    if (!p) return;
    it = live_.find(p);
    if (it == live_.end()) {
      errors += "deallocate of a block that is not live;";
      return;  // do not free: not ours
    }
    live_.erase(it);
    free(p);
  }
  void* reallocate(void* p, size_t n) override {
    sched::point("m", uint32_t(n));
    calls++;
    if (p) {
      auto it = live_.find(p);
      if (it == live_.end()) {
        errors += "reallocate of a block that is not live;";
        return nullptr;
      }
      live_.erase(it);
    }
    void* q = realloc(p, n);
    if (q) live_[q] = n;
    return q;
  }
  std::string ledger() const {
    size_t bytes = 0;
    for (auto& kv : live_) bytes += kv.second;
    return "live=" + std::to_string(live_.size()) + "/" + std::to_string(bytes) + "B,calls=" + std::to_string(calls) +
           ",errors=" + (errors.empty() ? "none" : errors);
  }
  void releaseAll() {
    for (auto& kv : live_) free(kv.first);
    live_.clear();
  }
  ~SeamAllocator() { releaseAll(); }
  size_t calls = 0;
  std::string errors;

 private:
  std::map<void*, size_t> live_;
};

// Reader seam: the scheduling point comes BEFORE each byte / block is handed to the library.
class SeamReader {
 public:
  explicit SeamReader(const std::string& in) : in_(in) {}
  int read() {
    sched::point("r", uint32_t(pos_));
    reads++;
    if (pos_ >= in_.size()) return -1;
    return static_cast<unsigned char>(in_[pos_++]);
  }
  size_t readBytes(char* buf, size_t n) {
    sched::point("R", uint32_t(n));
    reads++;
    size_t k = in_.size() - pos_;
    if (k > n) k = n;
    memcpy(buf, in_.data() + pos_, k);
    pos_ += k;
    return k;
  }
  size_t pos() const { return pos_; }
  size_t reads = 0;

 private:
  const std::string& in_;
  size_t pos_ = 0;
};

// Writer seam: the scheduling point comes on entry, BEFORE the bytes are copied out of the
// library's buffer.  A scratch buffer hoisted into static storage is refilled by the other
// thread between the call and the copy.
class SeamWriter {
 public:
  size_t write(uint8_t c) {
    sched::point("w", 1);
    out.push_back(char(c));
    return 1;
  }
  size_t write(const uint8_t* s, size_t n) {
    sched::point("W", uint32_t(n));
    out.append(reinterpret_cast<const char*>(s), n);
    return n;
  }
  std::string out;
};

// ------------------------------------------------------------------ data (different per thread)

static const char* const kJsonIn[4] = {
    "{\"a\":[1.5e3,\"x\\n\"],\"u\\u00e9\":\"\\u00e9\\ud83d\\ude00 abcdefghijklmnopqrstuvwxyz\\u20ac\"}",
    "{\"b\":[-27.25e-2,\"y\\t\"],\"u\\u20ac\":\"\\u20ac\\ud834\\udd1e abcdefghijklmnopqrstuvwxy\\ud83d\\ude00\"}",
    "{\"c\":[3e20,\"z\\\\\"],\"u\\ud83c\\udf89\":\"\\u0041\\ud83c\\udf89 abcdefghijklmnopqrstuvwx\\u00fc\\u0000z\"}",
    "{\"d\":[40000000000,\"w\\\"q\"],\"u\\u0001\":\"\\u00fc\\ud83d\\udc4d abcdefghijklmnopqrstuvwxyzA\\ud834\\udd1e\"}",
};
static const char* const kKey[4] = {"a", "b", "c", "d"};
static const char* const kFilterIn[4] = {
    "{\"z\":[9,8],\"a\":[1.5e3,\"x\\n\"]}",
    "{\"z\":{\"q\":1},\"b\":[-27.25e-2,\"y\\t\"]}",
    "{\"c\":[3e20,\"z\\\\\"],\"z\":\"drop\"}",
    "{\"d\":[40000000000,\"w\\\"q\"],\"z\":7.75}",
};
// The fixtures are built WITHOUT the parsers and formatters (API calls and a hand-written MessagePack
// encoder), so that in the ThreadSanitizer pass the first use of those code paths happens in the
// concurrent threads (a lazily initialised static would be warmed up by a sequential first use).
inline std::string mpStr(const std::string& x) { return std::string(1, char(0xa0 | x.size())) + x; }
inline std::string mpF64(double d) {
  uint64_t u;
  memcpy(&u, &d, 8);
  std::string r(1, char(0xcb));
  for (int i = 7; i >= 0; i--) r.push_back(char(u >> (8 * i)));
  return r;
}
inline std::string mpI64(int64_t v) {
  std::string r(1, char(0xd3));
  for (int i = 7; i >= 0; i--) r.push_back(char(uint64_t(v) >> (8 * i)));
  return r;
}
inline std::string mpI16(int v) {
  std::string r(1, char(0xd1));
  r.push_back(char((v >> 8) & 255));
  r.push_back(char(v & 255));
  return r;
}

struct Fixtures {
  JsonDocument shared;        // read-only after construction
  JsonDocument sharedFilter;  // read-only after construction
  std::string msgpackIn[4];
  Fixtures() {
    // {"cfg":{"name":"shared\n","vals":[1,2.5,-3,"s"],"deep":{"x":[true,null,12345678901]}},
    //  "list":[10,20.25,"thirty"],"t":{"a":"va","b":"vb","c":"vc","d":"vd"}}
    JsonObject cfg = shared["cfg"].to<JsonObject>();
    cfg["name"] = std::string("shared\n");
    JsonArray vals = cfg["vals"].to<JsonArray>();
    vals.add(1);
    vals.add(2.5);
    vals.add(-3);
    vals.add(std::string("s"));
    JsonArray x = cfg["deep"].to<JsonObject>()["x"].to<JsonArray>();
    x.add(true);
    x.add<JsonVariant>();
    x.add(int64_t(12345678901LL));
    JsonArray list = shared["list"].to<JsonArray>();
    list.add(10);
    list.add(20.25);
    list.add(std::string("thirty"));
    JsonObject t = shared["t"].to<JsonObject>();
    for (int v = 0; v < 4; v++) t[std::string(kKey[v])] = std::string("v") + kKey[v];
    // {"a":[true],"b":[true],"c":true,"d":[true]}
    sharedFilter["a"].to<JsonArray>().add(true);
    sharedFilter["b"].to<JsonArray>().add(true);
    sharedFilter["c"] = true;
    sharedFilter["d"].to<JsonArray>().add(true);
    shared.shrinkToFit();
    sharedFilter.shrinkToFit();
    if (shared.overflowed() || sharedFilter.overflowed()) abort();
    // {"<key>":[<number>,"<string>"],"n":-1000-v}
    const double numv[3] = {1.5e3, -27.25e-2, 3e20};
    const char* const strv[4] = {"x\n", "y\t", "z\\", "w\"q"};
    for (int v = 0; v < 4; v++) {
      std::string m(1, char(0x82));
      m += mpStr(kKey[v]);
      m.push_back(char(0x92));
      m += v < 3 ? mpF64(numv[v]) : mpI64(40000000000LL);
      m += mpStr(strv[v]);
      m += mpStr("n") + mpI16(-1000 - v);
      msgpackIn[v] = m;
    }
  }
};
inline const Fixtures& fx() {
  static const Fixtures* f = new Fixtures();  // built by the main thread before any worker runs
  return *f;
}

// ------------------------------------------------------------------ observation helpers (no seams)

template <typename T>
inline std::string toJson(const T& v) {
  std::string s;
  serializeJson(v, s);
  return s;
}
inline std::string num(double d) {
  char b[40];
  snprintf(b, sizeof b, "%.17g", d);
  return b;
}
inline std::string str(JsonVariantConst v) {
  if (!v.is<JsonString>()) return "(not a string)";
  JsonString s = v.as<JsonString>();
  return verif::hex(std::string(s.c_str(), s.size()));
}

// ------------------------------------------------------------------ thread bodies
// Each body owns everything it touches except the two read-only fixtures.
// `al` == nullptr selects the library's default allocator (shared by all threads).

struct Docs {
  explicit Docs(Allocator* al) : al_(al) {}
  std::unique_ptr<JsonDocument> make() const {
    return std::unique_ptr<JsonDocument>(al_ ? new JsonDocument(al_) : new JsonDocument());
  }
  Allocator* al_;
};

// (A) build a small document through the API
inline std::string bodyA(int v, Allocator* al) {
  std::string r;
  auto dp = Docs(al).make();
  JsonDocument& doc = *dp;
  doc["id"] = 100 + v;
  doc[std::string("name")] = std::string("thread-") + char('a' + v);
  JsonArray arr = doc["list"].to<JsonArray>();
  arr.add(1.5 + v);
  arr.add(kKey[v]);
  arr.add(std::string(size_t(3 + v), char('p' + v)));
  JsonObject o = doc["obj"].to<JsonObject>();
  o["n"] = int64_t(1000000007LL) * (v + 1);
  o["t"] = (v % 2 == 0);
  JsonObject deep = o["deep"].to<JsonObject>();
  deep[std::string("k") + char('0' + v)] = uint64_t(18446744073709551000ULL) + uint64_t(v);
  r += "built=" + toJson(doc);
  doc.remove("id");
  arr.remove(0);
  doc["list"][1] = -v - 1;
  r += ";edited=" + toJson(doc);
  doc.shrinkToFit();
  doc["after"] = std::string("z") + char('0' + v);
  r += ";final=" + toJson(doc) + ";overflowed=" + (doc.overflowed() ? "1" : "0") + ";size=" + std::to_string(doc.size());
  return r;
}

inline std::string observeParsed(DeserializationError err, JsonDocument& doc, int v) {
  std::string r = std::string("err=") + err.c_str() + ";json=" + toJson(doc);
  JsonVariantConst a = doc[kKey[v]];
  r += ";n0=" + num(a[0].as<double>()) + ";i0=" + std::to_string(a[0].as<long long>()) + ";s1=" + str(a[1]) +
       ";overflowed=" + (doc.overflowed() ? "1" : "0");
  return r;
}

// (B) deserializeJson from the reader seam
inline std::string bodyB(int v, Allocator* al) {
  std::string in = kJsonIn[v];
  SeamReader rd(in);
  auto dp = Docs(al).make();
  DeserializationError err = deserializeJson(*dp, rd);
  return observeParsed(err, *dp, v) + ";consumed=" + std::to_string(rd.pos()) + ";reads=" + std::to_string(rd.reads);
}

// (C) serializeJson / serializeJsonPretty / serializeMsgPack into the writer seam
inline std::string bodyC(int v, Allocator* al) {
  auto dp = Docs(al).make();
  JsonDocument& doc = *dp;
  doc["a"] = int8_t(-101 - v);
  doc["b"] = uint16_t(65001 + v * 111);
  doc["c"] = int32_t(-2000000001 - v * 1234567);
  doc["d"] = uint64_t(18446744073709551001ULL) + uint64_t(v) * 101;
  doc["e"] = float(1.5f + float(v) * 0.25f);
  doc["f"] = 3.25159265358979 + v * 1.125;
  doc["h"] = 1.25e+20 * (v + 1);  // positive powers of ten, exponent
  doc["i"] = 3.5e-9 * (v + 2);    // negative powers of ten
  doc["g"] = std::string("q\"\n") + char('A' + v);
  {
    // a different control character, a NUL, DEL and a different multi-byte sequence per thread, as value and as key
    static const char* const utf[4] = {"\xc3\xa9", "\xe2\x82\xac", "\xf0\x9f\x98\x80", "\xc3\xbc"};
    std::string cs = std::string("c") + char(1 + v) + std::string(1, '\0') + char(0x7f) + utf[v] + char(0x1b - v) + "z";
    doc["j"] = cs;
    doc[cs] = v;
  }
  SeamWriter w1, w2, w3;
  size_t n1 = serializeJson(doc, w1);
  size_t n2 = serializeJsonPretty(doc, w2);
  size_t n3 = serializeMsgPack(doc, w3);
  return "json=" + w1.out + ";n1=" + std::to_string(n1) + ";pretty=" + verif::hex(w2.out) + ";n2=" + std::to_string(n2) +
         ";msgpack=" + verif::hex(w3.out) + ";n3=" + std::to_string(n3);
}

// (D) copy from the SHARED read-only document through JsonVariantConst
inline std::string bodyD(int v, Allocator* al) {
  const JsonDocument& sharedDoc = fx().shared;
  JsonVariantConst sv = sharedDoc.as<JsonVariantConst>();
  auto d1 = Docs(al).make();
  auto d2 = Docs(al).make();
  bool ok1 = d1->set(sv);
  (*d2)["mine"] = v;
  (*d2)["copy"] = sv["cfg"]["vals"];
  (*d2)["pick"] = sv["list"][v % 3];
  (*d2)["t"] = sv["t"][kKey[v]];
  SeamWriter w;
  size_t n = serializeJson(sv["cfg"]["deep"], w);  // reading the shared document through our own writer seam
  std::string r = std::string("ok=") + (ok1 ? "1" : "0") + ";whole=" + toJson(*d1) + ";part=" + toJson(*d2) + ";deep=" + w.out +
                  ";n=" + std::to_string(n) + ";name=" + str(sv["cfg"]["name"]) + ";size=" + std::to_string(sv.size()) +
                  ";measure=" + std::to_string(measureJson(sv)) + ";eq=" + ((*d1) == sv ? "1" : "0");
  return r;
}

// (E) deserializeJson with a SHARED filter passed as JsonVariantConst
inline std::string bodyE(int v, Allocator* al) {
  const JsonDocument& filterDoc = fx().sharedFilter;
  JsonVariantConst fv = filterDoc.as<JsonVariantConst>();
  std::string in = kFilterIn[v];
  SeamReader rd(in);
  auto dp = Docs(al).make();
  DeserializationError err = deserializeJson(*dp, rd, DeserializationOption::Filter(fv));
  return observeParsed(err, *dp, v) + ";consumed=" + std::to_string(rd.pos());
}

// (F) deserializeMsgPack from the reader seam
inline std::string bodyF(int v, Allocator* al) {
  const std::string& in = fx().msgpackIn[v];
  SeamReader rd(in);
  auto dp = Docs(al).make();
  DeserializationError err = deserializeMsgPack(*dp, rd);
  return observeParsed(err, *dp, v) + ";n=" + std::to_string((*dp)["n"].as<int>()) + ";consumed=" + std::to_string(rd.pos());
}

#if defined(ARDUINOJSON_ENABLE_ARDUINO_STRING) && ARDUINOJSON_ENABLE_ARDUINO_STRING
// (G) the Arduino destinations: String, and a Print whose write() is a scheduling point
struct SeamPrint : Print {
  std::string out;
  size_t write(uint8_t c) override {
    sched::point("W", 1);
    out.push_back(char(c));
    return 1;
  }
  size_t write(const uint8_t* s, size_t n) override {
    sched::point("W", uint32_t(n));
    out.append(reinterpret_cast<const char*>(s), n);
    return n;
  }
};
inline std::string bodyG(int v, Allocator* al) {
  auto dp = Docs(al).make();
  JsonDocument& doc = *dp;
  doc["id"] = 7000 + v;
  doc["text"] = std::string("string-destination-of-thread-") + char('a' + v) + std::string(size_t(20 + 7 * v), char('k' + v));
  doc["esc"] = std::string("q\"\n") + char(1 + v);
  doc["f"] = 2.5 + 0.125 * v;
  ::String s1, s2, s3;
  size_t n1 = serializeJson(doc, s1);
  size_t n2 = serializeJsonPretty(doc, s2);
  SeamPrint p1, p2;
  size_t n3 = serializeJson(doc, p1);
  size_t n4 = serializeMsgPack(doc, p2);
  return std::string("string=") + s1.c_str() + ";n1=" + std::to_string(n1) + ";pretty=" + verif::hex(std::string(s2.c_str())) + ";n2=" + std::to_string(n2) +
         ";print=" + p1.out + ";n3=" + std::to_string(n3) + ";mp=" + verif::hex(p2.out) + ";n4=" + std::to_string(n4);
}
// (H) the Arduino sources: Stream (a scheduling point per read), String, flash string
struct SeamStream : Stream {
  std::string in;
  size_t pos = 0;
  explicit SeamStream(const std::string& s) : in(s) {}
  int read() override {
    sched::point("R", 1);
    return pos < in.size() ? (unsigned char)in[pos++] : -1;
  }
  size_t readBytes(char* buf, size_t n) override {
    sched::point("R", uint32_t(n));
    size_t k = 0;
    while (k < n && pos < in.size()) buf[k++] = in[pos++];
    return k;
  }
};
inline std::string bodyH(int v, Allocator* al) {
  std::string r;
  {
    SeamStream st(kJsonIn[v]);
    auto dp = Docs(al).make();
    DeserializationError err = deserializeJson(*dp, st);
    r += "stream:" + observeParsed(err, *dp, v) + ";pos=" + std::to_string(st.pos);
  }
  {
    ::String src(kFilterIn[v]);
    auto dp = Docs(al).make();
    DeserializationError err = deserializeJson(*dp, src);
    r += ";String:" + observeParsed(err, *dp, v);
  }
  {
    auto dp = Docs(al).make();
    DeserializationError err = deserializeJson(*dp, reinterpret_cast<const __FlashStringHelper*>(convertPtrToFlash(kJsonIn[(v + 1) % 4])));
    r += ";flash:" + observeParsed(err, *dp, (v + 1) % 4);
  }
  {
    SeamStream st(fx().msgpackIn[v]);
    auto dp = Docs(al).make();
    DeserializationError err = deserializeMsgPack(*dp, st);
    r += ";mpstream:" + observeParsed(err, *dp, v);
  }
  return r;
}
#define TX_LAST_BODY 'H'
#else
#define TX_LAST_BODY 'F'
#endif

struct BodySpec {
  char kind;         // 'A'..'F' ('G', 'H' in the Arduino build)
  bool dflt;         // true: library default allocator (no allocator seams)
  std::string name;  // "B" or "Bd"
};

// Runs one body with data set v; the result string is everything observable.
inline std::string runBody(const BodySpec& b, int v) {
  SeamAllocator sa;
  Allocator* al = b.dflt ? nullptr : &sa;
  std::string r;
  switch (b.kind) {
    case 'A': r = bodyA(v, al); break;
    case 'B': r = bodyB(v, al); break;
    case 'C': r = bodyC(v, al); break;
    case 'D': r = bodyD(v, al); break;
    case 'E': r = bodyE(v, al); break;
    case 'F': r = bodyF(v, al); break;
#if defined(ARDUINOJSON_ENABLE_ARDUINO_STRING) && ARDUINOJSON_ENABLE_ARDUINO_STRING
    case 'G': r = bodyG(v, al); break;
    case 'H': r = bodyH(v, al); break;
#endif
    default: r = "(unknown body)";
  }
  // all documents are destroyed here: the ledger must be empty
  r += ";ledger:" + (b.dflt ? std::string("default-allocator") : sa.ledger());
  return r;
}

inline bool parseTuple(const std::string& s, std::vector<BodySpec>& out) {
  out.clear();
  std::stringstream ss(s);
  std::string tok;
  while (std::getline(ss, tok, '+')) {
    if (tok.empty() || tok[0] < 'A' || tok[0] > TX_LAST_BODY) return false;
    BodySpec b{tok[0], false, tok};
    if (tok.size() == 2 && tok[1] == 'd')
      b.dflt = true;
    else if (tok.size() != 1)
      return false;
    out.push_back(b);
  }
  return out.size() >= 1 && out.size() <= size_t(sched::kMaxThreads);
}

inline std::vector<std::string> splitList(const std::string& s) {
  std::vector<std::string> v;
  std::stringstream ss(s);
  std::string tok;
  while (std::getline(ss, tok, ','))
    if (!tok.empty()) v.push_back(tok);
  return v;
}

// ------------------------------------------------------------------ sequential reference

struct Ref {
  std::string result;
  std::vector<sched::Seam> seams;
};

inline std::string seamsString(const std::vector<sched::Seam>& t, size_t limit = 400) {
  std::string s;
  for (size_t i = 0; i < t.size() && i < limit; i++) {
    s += char('0' + t[i].tid);
    s += t[i].code;
    s += std::to_string(t[i].arg);
    s += ' ';
  }
  if (t.size() > limit) s += "...";
  return s;
}

// The body alone on worker `slot` (so that thread-local state of the worker, if any, is the same
// as in the interleaved runs), executed twice; both executions must agree.
inline Ref reference(sched::Scheduler& S, const BodySpec& b, int v) {
  Ref ref[2];
  for (int k = 0; k < 2; k++) {
    std::string out;
    sched::Scheduler::Body body[1] = {[&](int) { out = runBody(b, v); }};
    S.run(1, body, {}, true);
    ref[k].result = out;
    ref[k].seams = S.result.trace;
  }
  if (ref[0].result != ref[1].result || !(ref[0].seams == ref[1].seams)) {
    fprintf(stderr, "NONDETERMINISM: two sequential runs of body %s/%d differ\n%s\n%s\n", b.name.c_str(), v,
            ref[0].result.c_str(), ref[1].result.c_str());
    _exit(2);
  }
  return ref[0];
}

inline std::string diffAt(const std::string& got, const std::string& want) {
  size_t i = 0;
  while (i < got.size() && i < want.size() && got[i] == want[i]) i++;
  size_t from = i > 40 ? i - 40 : 0;
  return "first difference at byte " + std::to_string(i) + ": got ..." + verif::vis(got.substr(from, 160)) + " want ..." +
         verif::vis(want.substr(from, 160));
}

// ------------------------------------------------------------------ one tuple under the explorer

struct Tuple {
  std::string name;
  std::vector<BodySpec> bodies;
  std::vector<Ref> refs;
  uint32_t counts[sched::kMaxThreads] = {0, 0, 0, 0};
};

struct ExecOut {
  int failures = 0;
  int preemptions = 0;
};

struct Explorer {
  Ctx& C;
  sched::Scheduler S;
  std::unordered_set<uint64_t> orders;  // distinct interleaved seam orders executed by this shard
  uint64_t canonicalOrders = 0;         // schedules without a seam-less segment (one per distinct seam order)
  bool negative = false;                // seeded wrong oracle (--selftest-negative)
  explicit Explorer(Ctx& c) : C(c), S(sched::kMaxThreads) {}

  void prepare(Tuple& T) {
    T.refs.clear();
    for (size_t t = 0; t < T.bodies.size(); t++) {
      T.refs.push_back(reference(S, T.bodies[t], int(t)));
      T.counts[t] = uint32_t(T.refs.back().seams.size());
    }
    if (negative && T.refs.size() > 1) T.refs[1].result += "#seeded-wrong-oracle";
  }

  void runOnce(const Tuple& T, const std::vector<sched::Rec>& prefix, std::vector<std::string>& results) {
    int n = int(T.bodies.size());
    results.assign(size_t(n), "(body did not run)");
    sched::Scheduler::Body fn[sched::kMaxThreads];
    for (int t = 0; t < n; t++) fn[t] = [&T, &results](int id) { results[size_t(id)] = runBody(T.bodies[size_t(id)], id); };
    S.run(n, fn, prefix, /*strict=*/false);
  }

  // Execute one schedule (journalled by the caller) and judge it.
  ExecOut execute(const Tuple& T, const std::vector<sched::Rec>& prefix) {
    ExecOut eo;
    int n = int(T.bodies.size());
    std::vector<std::string> results;
    runOnce(T, prefix, results);
    sched::Result R = S.result;  // copy: a classification rerun overwrites S.result
    eo.preemptions = R.preemptions;

    // 1. shape: the executed choice points must be the predicted ones
    std::vector<sched::Rec> want = sched::simulate(n, T.counts, prefix);
    if (R.diverged || R.recs != want) {
      std::vector<std::string> again;
      runOnce(T, prefix, again);
      if (!(S.result.trace == R.trace) || S.result.recs != R.recs || again != results) {
        fprintf(stderr, "NONDETERMINISM: the same schedule executed twice differs (%s choices=%s)\n", T.name.c_str(),
                sched::choicesString(prefix).c_str());
        fflush(stderr);
        _exit(2);
      }
      C.fail("seam-shape",
             "the number of scheduling points of a thread depends on the schedule (deterministically): executed " +
                 std::to_string(R.recs.size()) + " choice points, the sequential runs predict " + std::to_string(want.size()) +
                 "; interleaved seams: " + seamsString(R.trace));
      eo.failures++;
    }
    // 2. per-thread results and per-thread seam sequences equal the sequential run
    for (int t = 0; t < n; t++) {
      const Ref& ref = T.refs[size_t(t)];
      if (results[size_t(t)] != ref.result) {
        C.fail("thread-result", "thread " + std::to_string(t) + " (body " + T.bodies[size_t(t)].name + ", data set " +
                                    std::to_string(t) + ") differs from its sequential run; " +
                                    diffAt(results[size_t(t)], ref.result) + "; segments=" + R.segs);
        eo.failures++;
      }
      size_t k = 0;
      bool same = true;
      for (auto& s : R.trace) {
        if (s.tid != t) continue;
        if (k >= ref.seams.size() || s.code != ref.seams[k].code || s.arg != ref.seams[k].arg) {
          same = false;
          break;
        }
        k++;
      }
      if (same && k != ref.seams.size()) same = false;
      if (!same) {
        C.fail("thread-seams", "thread " + std::to_string(t) + " (body " + T.bodies[size_t(t)].name +
                                   "): its sequence of call-outs differs from the sequential run at its call-out #" +
                                   std::to_string(k) + "; sequential: " + seamsString(ref.seams, 120));
        eo.failures++;
      }
    }
    // 3. bookkeeping
    uint64_t h = verif::fnv1a(T.name);
    for (auto& s : R.trace) {
      unsigned char b[2] = {s.tid, (unsigned char)s.code};
      h = verif::fnv1a(b, 2, h);
    }
    orders.insert(h);
    // A seam order can be produced by several schedules (the last block of a thread passes no seam, so it can be
    // placed anywhere after the thread's last seam).  Exactly one of them has no seam-less segment: count that one,
    // which makes the number of distinct seam orders summable over shards.
    bool canonical = true;
    for (size_t k = 0; k < R.cuts.size(); k++) {
      size_t end = k + 1 < R.cuts.size() ? R.cuts[k + 1] : R.trace.size();
      if (end == R.cuts[k]) canonical = false;
    }
    if (canonical) canonicalOrders++;
    if (R.preemptions >= 1) {
      uint64_t hs = h;
      for (uint32_t cut : R.cuts) hs = verif::fnv1a(&cut, sizeof cut, hs);
      C.nontrivial(hs);  // distinct schedules with at least one delivered preemption
    }
    C.outcome(T.name + "|segs=" + R.segs);
    C.metrics["states"] += double(R.recs.size() - prefix.size());
    C.metrics["transitions"] += double(R.recs.size());
    C.metrics["traces_validated_against_impl"] += 1;
    C.metrics["seams_executed"] += double(R.trace.size());
    double& mp = C.maxMetrics["max_preemptions_delivered"];
    if (R.preemptions > mp) mp = R.preemptions;
    if (C.verbose) {
      printf("SEGS %s preemptions=%d\nTRACE %s\n", R.segs.c_str(), R.preemptions, seamsString(R.trace, 100000).c_str());
      for (int t = 0; t < n; t++) printf("RESULT %d %s\n", t, verif::vis(results[size_t(t)]).c_str());
    }
    return eo;
  }

  // All schedules of T with exactly q preemptions (enumerated under bound q).  Returns false if stopped.
  bool exploreBound(const Tuple& T, int q) {
    int n = int(T.bodies.size());
    bool stopped = false;
    std::string mkey = "schedules[" + T.name + "|P=" + std::to_string(q) + "]";
    auto leaf = [&](const sched::Sparse& nz, int used) -> bool {
      if (used != q) return true;  // met under a smaller bound already
      if (C.only >= 0 && int64_t(C.index) > C.only) return false;
      if (!C.take()) return true;
      if (C.expired()) return false;
      std::vector<sched::Rec> prefix = sched::densePrefix(nz);
      C.begin("sched:bodies=" + T.name + "|P=" + std::to_string(q) + "|choices=" + sched::choicesString(prefix));
      execute(T, prefix);
      C.metrics[mkey] += 1;
      C.end();
      return true;
    };
    uint64_t total = sched::enumerate(n, T.counts, q, leaf, &stopped);
    (void)total;
    if (stopped && C.only < 0) return false;
    return true;
  }
};

inline std::vector<std::string> defaultTuples(bool thorough, int threads) {
  if (threads >= 3) {
    if (!thorough) return {"A+B+C", "B+C+E"};
    return {"A+B+C", "B+B+B", "C+C+C", "D+D+D", "D+E+B", "B+C+F", "E+E+F", "Bd+Cd+Cd"};
  }
  if (!thorough) return {"A+A", "B+B", "C+C", "B+C", "D+D", "E+E", "F+F", "Bd+Cd"};
  return {"A+A", "B+B", "C+C", "D+D", "E+E", "F+F", "A+B", "A+C", "B+C", "B+F", "C+D", "D+E", "B+E", "C+F", "A+D", "Bd+Bd", "Cd+Dd", "Bd+Cd"};
}

inline void runSched(Ctx& C) {
  fx();
  int threads = atoi(C.opt("threads", "2").c_str());
  int P = atoi(C.opt("P", C.thorough() ? "3" : "2").c_str());
  std::vector<std::string> names = splitList(C.opt("tuples", ""));
  if (names.empty()) names = defaultTuples(C.thorough(), threads);
  Explorer X(C);
  X.negative = C.flag("selftest-negative");
  std::vector<Tuple> tuples;
  for (auto& nm : names) {
    Tuple T;
    T.name = nm;
    if (!parseTuple(nm, T.bodies) || int(T.bodies.size()) != threads) {
      fprintf(stderr, "bad tuple '%s' for %d threads\n", nm.c_str(), threads);
      _exit(3);
    }
    X.prepare(T);
    tuples.push_back(T);
  }
  int completed = -1;
  bool stopped = false;
  for (int q = 0; q <= P && !stopped; q++) {
    for (auto& T : tuples) {
      if (!X.exploreBound(T, q)) {
        stopped = true;
        break;
      }
    }
    if (!stopped) completed = q;
  }
  if (stopped) C.complete = false;
  C.metrics["distinct_seam_orders"] += double(X.canonicalOrders);
  if (C.nshards == 1 && C.only < 0 && C.from == 0 && !stopped && X.canonicalOrders != X.orders.size()) {
    // unsharded run: the summable count must equal the size of the set of seam orders actually seen
    C.failKey("harness-selfcheck:distinct-seam-orders", "harness-selfcheck",
              "canonical schedules " + std::to_string(X.canonicalOrders) + " != distinct seam orders " + std::to_string(X.orders.size()));
  }
  std::string seams;
  for (auto& T : tuples) {
    seams += T.name + ":";
    for (size_t t = 0; t < T.bodies.size(); t++) seams += (t ? "/" : "") + std::to_string(T.counts[t]);
    seams += " ";
  }
  if (C.only < 0) {
    C.bound(std::to_string(threads) + " threads: all schedules with <= " + std::to_string(completed) + " preemptions" +
            (completed < P ? " (bound " + std::to_string(P) + " not completed before the deadline)" : "") +
            " of the body tuples " + [&] {
              std::string s;
              for (auto& nm : names) s += nm + " ";
              return s;
            }() + "(suffix d = library default allocator); scheduling points per thread (sequential run): " + seams);
    C.note("scheduling points are the call-out seams only (allocator, reader, writer); a mutable static that is written "
           "and read back without a call-out in between is invisible to the explorer and left to the ThreadSanitizer pass");
  }
}

// ------------------------------------------------------------------ free-running ThreadSanitizer pass
//
// Every group of bodies runs in a freshly forked child (several "cold rounds" per group): the child
// builds the fixtures, releases 4 threads from a barrier, and only AFTERWARDS computes the sequential
// references.  So the first execution of every library path happens concurrently, which is what a
// lazily initialised static needs in order to race.  The parent stays single-threaded (fork-safe).

struct FreeThread {
  pthread_t th;
  int id = 0;
  int iters = 0;
  std::vector<BodySpec> seq;  // bodies this thread cycles through
  pthread_barrier_t* barrier = nullptr;
  std::map<std::string, std::string> first;  // first result per body; private to the thread until joined
  std::vector<std::string> errors;           // private to the thread until joined
  uint64_t done = 0;
};

inline void* freeMain(void* p) {
  FreeThread* ft = static_cast<FreeThread*>(p);
  pthread_barrier_wait(ft->barrier);
  for (int i = 0; i < ft->iters; i++) {
    const BodySpec& b = ft->seq[size_t(i) % ft->seq.size()];
    std::string got = runBody(b, ft->id);
    auto it = ft->first.find(b.name);
    if (it == ft->first.end())
      ft->first[b.name] = got;
    else if (got != it->second && ft->errors.size() < 5)
      ft->errors.push_back("thread " + std::to_string(ft->id) + " body " + b.name + " iteration " + std::to_string(i) +
                           " differs from its first iteration: " + diffAt(got, it->second));
    ft->done++;
  }
  return nullptr;
}

inline std::vector<BodySpec> parseGroup(const std::string& g) {
  std::vector<BodySpec> seq;
  std::stringstream ss(g);
  std::string tok;
  while (std::getline(ss, tok, '+'))
    if (!tok.empty()) seq.push_back(BodySpec{tok[0], tok.size() == 2 && tok[1] == 'd', tok});
  return seq;
}

// runs in the forked child; writes "D <n>\n" and "E <text>\n" lines to fd
inline void tsanChild(const std::vector<BodySpec>& seq, int nthreads, int iters, int fd) {
  // groups that use no shared fixture start truly cold: the first JsonDocument of the process, the default allocator and
  // every lazily initialised static are then first touched by the concurrent threads (the fixtures would warm them up)
  bool needsFixtures = false;
  for (auto& b : seq)
    if (b.kind == 'D' || b.kind == 'E' || b.kind == 'F' || b.kind == 'H') needsFixtures = true;
  if (needsFixtures) fx();
  pthread_barrier_t barrier;
  pthread_barrier_init(&barrier, nullptr, unsigned(nthreads));
  std::vector<FreeThread> th{size_t(nthreads)};
  for (int t = 0; t < nthreads; t++) {
    th[size_t(t)].id = t;
    th[size_t(t)].iters = iters;
    th[size_t(t)].barrier = &barrier;
    // thread t starts its cycle at body t so that different kinds overlap as well
    for (size_t k = 0; k < seq.size(); k++) th[size_t(t)].seq.push_back(seq[(k + size_t(t)) % seq.size()]);
  }
  for (int t = 0; t < nthreads; t++) pthread_create(&th[size_t(t)].th, nullptr, freeMain, &th[size_t(t)]);
  for (int t = 0; t < nthreads; t++) pthread_join(th[size_t(t)].th, nullptr);
  pthread_barrier_destroy(&barrier);
  std::string report;
  uint64_t done = 0;
  for (auto& t : th) {
    done += t.done;
    for (auto& e : t.errors) report += "E " + e + "\n";
    // sequential reference, computed after the concurrent phase
    for (auto& kv : t.first) {
      BodySpec b = parseGroup(kv.first)[0];
      std::string want = runBody(b, t.id);
      if (kv.second != want)
        report += "E thread " + std::to_string(t.id) + " body " + b.name + " first concurrent execution differs from the sequential run: " +
                  diffAt(kv.second, want) + "\n";
    }
  }
  report += "D " + std::to_string(done) + "\n";
  size_t off = 0;
  while (off < report.size()) {
    ssize_t w = ::write(fd, report.data() + off, report.size() - off);
    if (w <= 0) break;
    off += size_t(w);
  }
}

inline void runTsan(Ctx& C) {
  const int nthreads = 4;
  int iters = atoi(C.opt("iters", C.thorough() ? "20000" : "2000").c_str());
  int rounds = atoi(C.opt("rounds", C.thorough() ? "10" : "4").c_str());
  if (rounds < 1) rounds = 1;
  std::vector<std::string> groups = splitList(C.opt("groups", ""));
  if (groups.empty())
    groups = {"B", "C", "A", "D", "E", "F", "Bd", "Cd", "Ad", "Dd", "A+B+C+D+E+F", "Ad+Bd+Cd+Dd+Ed+Fd", "B+C", "D+E", "C+F"
#if defined(ARDUINOJSON_ENABLE_ARDUINO_STRING) && ARDUINOJSON_ENABLE_ARDUINO_STRING
              , "G", "H", "Gd", "Hd", "G+H", "C+G"
#endif
    };
  bool inProcess = C.flag("no-fork");  // debugging aid
  for (auto& g : groups) {
    if (!C.take()) continue;
    if (C.expired()) break;
    std::vector<BodySpec> seq = parseGroup(g);
    C.begin("tsan:bodies=" + g + "|threads=" + std::to_string(nthreads) + "|iters=" + std::to_string(iters) +
            "|rounds=" + std::to_string(rounds));
    uint64_t done = 0;
    for (int r = 0; r < rounds; r++) {
      int per = iters / rounds + (r < iters % rounds ? 1 : 0);
      if (per == 0) continue;
      std::string report;
      if (inProcess) {
        int fds[2];
        if (pipe(fds) != 0) _exit(3);
        tsanChild(seq, nthreads, per, fds[1]);
        close(fds[1]);
        char buf[4096];
        ssize_t k;
        while ((k = ::read(fds[0], buf, sizeof buf)) > 0) report.append(buf, size_t(k));
        close(fds[0]);
      } else {
        fflush(stdout);
        fflush(stderr);
        int fds[2];
        if (pipe(fds) != 0) _exit(3);
        pid_t pid = fork();
        if (pid < 0) _exit(3);
        if (pid == 0) {
          close(fds[0]);
          tsanChild(seq, nthreads, per, fds[1]);
          close(fds[1]);
          _exit(0);
        }
        close(fds[1]);
        char buf[4096];
        ssize_t k;
        while ((k = ::read(fds[0], buf, sizeof buf)) > 0) report.append(buf, size_t(k));
        close(fds[0]);
        int st = 0;
        waitpid(pid, &st, 0);
        if (!WIFEXITED(st) || WEXITSTATUS(st) != 0) {
          // a ThreadSanitizer report (exitcode=66) or a crash in the child: die the same way, the
          // driver attributes it to the journalled case and restarts after it
          fprintf(stderr, "tsan child for group %s round %d ended with status 0x%x\n", g.c_str(), r, st);
          fflush(stderr);
          _exit(WIFEXITED(st) ? WEXITSTATUS(st) : 70);
        }
      }
      std::stringstream ss(report);
      std::string line;
      bool sawDone = false;
      while (std::getline(ss, line)) {
        if (line.compare(0, 2, "E ") == 0) C.fail("thread-result", line.substr(2));
        if (line.compare(0, 2, "D ") == 0) {
          done += strtoull(line.c_str() + 2, nullptr, 10);
          sawDone = true;
        }
      }
      if (!sawDone) C.fail("harness-tsan", "the child of round " + std::to_string(r) + " sent no report");
    }
    C.metrics["tsan_body_executions"] += double(done);
    C.outcome("tsan:" + g + ":clean");
    C.nontrivial();
    C.end();
  }
  C.bound("ThreadSanitizer monitor (not an enumeration): per group of bodies " + std::to_string(rounds) +
          " cold processes x " + std::to_string(nthreads) + " free-running OS threads, " + std::to_string(iters) +
          " body executions per thread in total, halt_on_error=1");
}

// ------------------------------------------------------------------ self-test (Appendix D)

static char g_toyStatic[24];

inline void toyFormat(bool racy, int value, SeamWriter& w) {
  char local[24];
  char* b = racy ? g_toyStatic : local;
  int n = snprintf(b, 24, "%d", value);
  w.write(reinterpret_cast<const uint8_t*>(b), size_t(n));
}

inline std::string toyBody(bool racy, int id) {
  SeamWriter w;
  for (int j = 0; j < 3; j++) toyFormat(racy, 1000 * (id + 1) + 111 * j, w);
  return w.out;
}

struct SelfCheck {
  Ctx& C;
  explicit SelfCheck(Ctx& c) : C(c) {}
  template <class F>
  void check(const std::string& name, F f) {
    if (!C.take()) return;
    C.begin("selftest:" + name);
    std::string why = f();
    if (!why.empty()) C.fail("selftest", why);
    C.outcome("selftest:" + name + (why.empty() ? ":ok" : ":FAILED"));
    C.nontrivial();
    C.end();
  }
};

// A child process in which replay meets another arity than recorded must exit with status 2.
inline std::string selfNondeterminism() {
  fflush(stdout);
  fflush(stderr);
  pid_t pid = fork();
  if (pid < 0) return "fork failed";
  if (pid == 0) {
    int devnull = open("/dev/null", O_WRONLY);
    if (devnull >= 0) dup2(devnull, 2);
    static int runs = 0;  // harness-side mutable state: the very thing the check must notice
    sched::Scheduler S(2);
    sched::Scheduler::Body fn[2] = {[](int) {
                                      int k = (runs++ == 0) ? 3 : 0;  // later runs: no scheduling point at all
                                      for (int i = 0; i < k; i++) sched::point("t", uint32_t(i));
                                    },
                                    [](int) {
                                      // ends at once in later runs too: the replayed prefix meets arity 1 instead of 2
                                      if (runs <= 1)
                                        for (int i = 0; i < 2; i++) sched::point("t", uint32_t(i));
                                    }};
    sched::exploreExec(S, 2, fn, 2, [](const sched::Result&, size_t) { return true; });
    _exit(0);
  }
  int st = 0;
  if (waitpid(pid, &st, 0) != pid) return "waitpid failed";
  if (!WIFEXITED(st) || WEXITSTATUS(st) != 2) return "a nondeterministic toy did not end in exit status 2 (status " + std::to_string(st) + ")";
  return "";
}

inline void runSelftest(Ctx& C) {
  SelfCheck K(C);
  // must come first: forks while no scheduler thread exists
  K.check("nondeterminism-is-exit-2", [&] { return selfNondeterminism(); });
  fx();

  K.check("count-2-threads", [&]() -> std::string {
    sched::Scheduler S(2);
    uint64_t cases = 0;
    for (uint32_t a = 0; a <= 4; a++)
      for (uint32_t b = 0; b <= 4; b++)
        for (int P = 0; P <= 3; P++) {
          uint32_t counts[2] = {a, b};
          std::vector<std::string> sym, exe;
          uint64_t ns = sched::enumerate(2, counts, P, [&](const sched::Sparse& nz, int) {
            sym.push_back(sched::choicesString(sched::densePrefix(nz)));
            return true;
          });
          uint64_t cf = sched::closedForm2(a, b, P), bf = sched::bruteCount(2, counts, P);
          sched::Scheduler::Body fn[2];
          for (int t = 0; t < 2; t++)
            fn[t] = [&counts](int id) {
              for (uint32_t i = 0; i < counts[id]; i++) sched::point("t", i);
            };
          std::string bad;
          std::set<std::string> orders;
          uint64_t ne = sched::exploreExec(S, 2, fn, P, [&](const sched::Result& R, size_t plen) {
            std::vector<sched::Rec> pre(R.recs.begin(), R.recs.begin() + long(plen));
            // trailing zeros never occur in an odometer prefix, so this is the trimmed form
            exe.push_back(sched::choicesString(pre));
            if (sched::simulate(2, counts, pre) != R.recs) bad = "simulate() disagrees with the executed record";
            if (R.preemptions > P) bad = "more preemptions delivered than the bound";
            std::string o = seamsString(R.trace) + "|" + R.segs;
            for (uint32_t cut : R.cuts) o += "," + std::to_string(cut);
            orders.insert(o);
            return true;
          });
          char at[64];
          snprintf(at, sizeof at, " (a=%u b=%u P=%d)", a, b, P);
          if (!bad.empty()) return bad + at;
          if (ns != cf || ns != bf || ns != ne)
            return "schedule counts differ: symbolic " + std::to_string(ns) + " closed form " + std::to_string(cf) +
                   " brute force " + std::to_string(bf) + " executed " + std::to_string(ne) + at;
          if (sym != exe) return std::string("symbolic and execution-driven DFS list different schedules") + at;
          if (orders.size() != ne) return std::string("two schedules produced the same segmentation of the seam order") + at;
          cases += ne;
        }
    C.metrics["selftest_toy_schedules"] += double(cases);
    return "";
  });

  K.check("count-3-threads", [&]() -> std::string {
    sched::Scheduler S(3);
    for (uint32_t a = 0; a <= 2; a++)
      for (uint32_t b = 0; b <= 2; b++)
        for (uint32_t c = 0; c <= 2; c++)
          for (int P = 0; P <= 2; P++) {
            uint32_t counts[3] = {a, b, c};
            std::vector<std::string> sym, exe;
            uint64_t ns = sched::enumerate(3, counts, P, [&](const sched::Sparse& nz, int) {
              sym.push_back(sched::choicesString(sched::densePrefix(nz)));
              return true;
            });
            uint64_t bf = sched::bruteCount(3, counts, P);
            sched::Scheduler::Body fn[3];
            for (int t = 0; t < 3; t++)
              fn[t] = [&counts](int id) {
                for (uint32_t i = 0; i < counts[id]; i++) sched::point("t", i);
              };
            std::string bad;
            uint64_t ne = sched::exploreExec(S, 3, fn, P, [&](const sched::Result& R, size_t plen) {
              std::vector<sched::Rec> pre(R.recs.begin(), R.recs.begin() + long(plen));
              exe.push_back(sched::choicesString(pre));
              if (sched::simulate(3, counts, pre) != R.recs) bad = "simulate() disagrees with the executed record";
              return true;
            });
            char at[64];
            snprintf(at, sizeof at, " (a=%u b=%u c=%u P=%d)", a, b, c, P);
            if (!bad.empty()) return bad + at;
            if (ns != bf || ns != ne)
              return "schedule counts differ: symbolic " + std::to_string(ns) + " brute force " + std::to_string(bf) +
                     " executed " + std::to_string(ne) + at;
            if (sym != exe) return std::string("symbolic and execution-driven DFS list different schedules") + at;
          }
    return "";
  });

  // the two enumerators agree on REAL bodies, and the same schedule executed twice is the same
  K.check("real-bodies-exec-vs-symbolic-and-determinism", [&]() -> std::string {
    Ctx dummy(0, nullptr);
    Explorer X(dummy);
    for (const char* nm : {"B+C", "A+Dd"}) {
      Tuple T;
      T.name = nm;
      parseTuple(nm, T.bodies);
      X.prepare(T);
      std::vector<std::string> sym, exe;
      sched::enumerate(2, T.counts, 1, [&](const sched::Sparse& nz, int) {
        sym.push_back(sched::choicesString(sched::densePrefix(nz)));
        return true;
      });
      std::vector<std::string> results(2);
      sched::Scheduler::Body fn[2];
      for (int t = 0; t < 2; t++) fn[t] = [&T, &results](int id) { results[size_t(id)] = runBody(T.bodies[size_t(id)], id); };
      std::string bad;
      uint64_t k = 0;
      sched::exploreExec(X.S, 2, fn, 1, [&](const sched::Result& R, size_t plen) {
        std::vector<sched::Rec> pre(R.recs.begin(), R.recs.begin() + long(plen));
        exe.push_back(sched::choicesString(pre));
        if (k++ % 5 == 0) {  // same schedule again: identical seam sequence, identical results
          sched::Result first = R;
          std::vector<std::string> r1 = results;
          X.S.run(2, fn, pre, true);
          if (!(X.S.result.trace == first.trace) || X.S.result.recs != first.recs || results != r1)
            bad = "the same schedule executed twice gave different seam sequences or results";
          X.S.result = first;
        }
        return bad.empty();
      });
      if (!bad.empty()) return bad + " (" + nm + ")";
      if (sym != exe)
        return std::string("symbolic and execution-driven DFS list different schedules on real bodies ") + nm + ": " +
               std::to_string(sym.size()) + " vs " + std::to_string(exe.size());
    }
    return "";
  });

  // a deliberately racy toy (two threads format into one static buffer through the writer seam) IS reported
  K.check("racy-toy-is-reported", [&]() -> std::string {
    sched::Scheduler S(2);
    for (int racy = 0; racy < 2; racy++) {
      std::string want[2] = {toyBody(racy != 0, 0), toyBody(racy != 0, 1)};
      std::string got[2];
      sched::Scheduler::Body fn[2];
      for (int t = 0; t < 2; t++) fn[t] = [&got, racy](int id) { got[id] = toyBody(racy != 0, id); };
      uint64_t wrong = 0, total = 0;
      sched::exploreExec(S, 2, fn, 1, [&](const sched::Result&, size_t) {
        total++;
        if (got[0] != want[0] || got[1] != want[1]) wrong++;
        return true;
      });
      if (racy && wrong == 0) return "the racy toy was not reported in any of " + std::to_string(total) + " schedules";
      if (!racy && wrong != 0) return "the race-free toy was reported";
      if (total != sched::closedForm2(3, 3, 1)) return "unexpected number of toy schedules " + std::to_string(total);
    }
    return "";
  });

  // a seeded wrong oracle makes the real engine path report every schedule
  K.check("seeded-wrong-oracle-is-reported", [&]() -> std::string {
    Ctx inner(0, nullptr);
    Explorer X(inner);
    X.negative = true;
    Tuple T;
    T.name = "A+A";
    parseTuple(T.name, T.bodies);
    X.prepare(T);
    X.exploreBound(T, 0);
    X.exploreBound(T, 1);
    if (inner.evaluations == 0 || inner.clauseCount["thread-result"] != inner.evaluations)
      return "seeded wrong oracle: " + std::to_string(inner.clauseCount["thread-result"]) + " reports for " +
             std::to_string(inner.evaluations) + " schedules";
    Ctx clean(0, nullptr);
    Explorer Y(clean);
    Y.prepare(T);
    Y.exploreBound(T, 0);
    Y.exploreBound(T, 1);
    if (clean.violationCount != 0) return "";  // a genuine finding: reported by the sched job, not here
    if (clean.evaluations != inner.evaluations) return "schedule count changed between two explorations";
    return "";
  });

  // the ledger reports a leaking and a double-freeing client
  K.check("ledger-reports-leak-and-double-free", [&]() -> std::string {
    SeamAllocator a;
    void* p = a.allocate(10);
    void* q = a.allocate(20);
    a.deallocate(p);
    if (a.ledger().find("live=1/20B") != 0) return "leak not visible in the ledger: " + a.ledger();
    a.deallocate(p);
    if (a.errors.empty()) return "double free not reported";
    a.deallocate(q);
    SeamAllocator b;
    void* r = b.allocate(8);
    r = b.reallocate(r, 64);
    b.deallocate(r);
    if (b.ledger() != "live=0/0B,calls=3,errors=none") return "clean client misreported: " + b.ledger();
    return "";
  });

  C.bound("self-test: symbolic enumeration == execution-driven DFS == closed form == brute force for two threads with 0..4 "
          "points (P<=3) and three threads with 0..2 points (P<=2); replay determinism; racy toy, seeded wrong oracle, "
          "leaking client and nondeterministic toy all reported");
}

}  // namespace tx
