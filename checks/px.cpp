// px — abstract pool machine over ALL pool geometries, bound to the real MemoryPoolList by trace equality.
// For every geometry (slot-id size, pool capacity, inline pool count) the real allocator core is compiled
// (checks/px_unit.cpp, ~0.3 s) and driven through fill / free / refill / clear scripts; the ids it hands
// out, its refusals and its pool request sizes must equal those of the machine below, which encodes the
// clean-edge contract of C19: ids 0..NULL_SLOT-1 are handed out exactly once each, then allocation fails,
// freed ids come back (last freed first), nothing wraps, nothing aliases.
#include <cstdio>
#include <cstdlib>
#include <sstream>
#include <string>
#include <vector>

#include "common.hpp"

using verif::Ctx;

struct Machine {
  unsigned long limit, cap, init;
  std::vector<unsigned long> usage, capacity;
  std::vector<unsigned long> freeList;
  std::vector<std::string> out;   // expected trace (ids, fails, pool allocs as "pool <bytes>")
  Machine(unsigned idSize, unsigned long c, unsigned long i) : limit((1UL << (8 * idSize)) - 1), cap(c), init(i) {}
  bool alloc(unsigned long& id) {
    if (!freeList.empty()) {
      id = freeList.back();
      freeList.pop_back();
      return true;
    }
    if (!usage.empty() && usage.back() < capacity.back()) {
      id = (usage.size() - 1) * cap + usage.back()++;
      return true;
    }
    unsigned long n = usage.size();
    if (n * cap >= limit) return false;  // every usable id is taken: clean refusal
    unsigned long pc = std::min(cap, limit - n * cap);
    out.push_back("pool " + std::to_string(pc * 16));
    usage.push_back(1);
    capacity.push_back(pc);
    id = n * cap;
    return true;
  }
};

static std::string expectedTrace(unsigned idSize, unsigned long cap, unsigned long init) {
  Machine M(idSize, cap, init);
  std::vector<unsigned long> got;
  unsigned long limit = M.limit;
  for (unsigned long i = 0; i < limit + 40; i++) {
    unsigned long id;
    if (!M.alloc(id)) {
      M.out.push_back("fail");
      if (i >= limit + 3) break;
      continue;
    }
    M.out.push_back("id " + std::to_string(id));
    got.push_back(id);
    if (got.size() > limit + 8) break;
  }
  M.out.push_back("corrupt 0");
  M.out.push_back("usage " + std::to_string(got.size()));
  if (got.size() >= 8) {
    M.freeList.push_back(got[1]);
    M.freeList.push_back(got[5]);
    M.freeList.push_back(got[got.size() - 1]);
    for (int i = 0; i < 5; i++) {
      unsigned long id;
      if (!M.alloc(id)) M.out.push_back("fail");
      else M.out.push_back("id " + std::to_string(id));
    }
  }
  M.out.push_back("live 0");
  Machine M2(idSize, cap, init);
  for (int i = 0; i < 3; i++) {
    unsigned long id;
    if (!M2.alloc(id)) M.out.push_back("fail");
    else {
      for (auto& s : M2.out) M.out.push_back(s);
      M2.out.clear();
      M.out.push_back("id " + std::to_string(id));
    }
  }
  M.out.push_back("live 0");
  std::string r;
  for (auto& s : M.out) r += s + "\n";
  return r;
}

// Normalises the real trace: the last alloc before an id is the pool request ("pool N"); earlier allocs /
// reallocs in the same gap are pool-table requests (checked for plausibility, not compared); frees are dropped.
static std::string normalise(const std::string& raw, std::string& tableProblems) {
  std::istringstream in(raw);
  std::string line, r;
  std::vector<std::string> pending;
  auto flush = [&](bool beforeId) {
    for (size_t i = 0; i < pending.size(); i++) {
      bool last = i + 1 == pending.size();
      unsigned long n = strtoul(pending[i].c_str() + pending[i].find(' ') + 1, nullptr, 10);
      if (beforeId && last && pending[i].compare(0, 5, "alloc") == 0) r += "pool " + std::to_string(n) + "\n";
      else if (n % 16 != 0 || n == 0) tableProblems += "odd pool-table request " + pending[i] + "; ";
    }
    pending.clear();
  };
  while (std::getline(in, line)) {
    if (line.compare(0, 5, "alloc") == 0 || line.compare(0, 7, "realloc") == 0) { pending.push_back(line); continue; }
    if (line == "free") continue;
    if (line.compare(0, 2, "id") == 0) flush(true);
    else flush(false);
    r += line + "\n";
  }
  return r;
}

int main(int argc, char** argv) {
  Ctx C(argc, argv);
  std::string repo = C.opt("repo", "/repo"), work = C.opt("workdir", "/tmp/px-work");
  std::string src = C.opt("unit", "checks/px_unit.cpp");
  std::vector<unsigned long> caps;
  if (C.opt("caps", "list") == "all") for (unsigned long c = 2; c <= 256; c++) caps.push_back(c);
  else caps = {2, 3, 4, 5, 7, 8, 10, 15, 16, 17, 31, 32, 64, 100, 127, 128, 255, 256};
  std::vector<unsigned> idSizes = {1};
  if (C.flag("id2")) idSizes.push_back(2);
  uint64_t reachedLimit = 0;
  {
    // can the allocator core be bound at all?  (a tree that renamed allocSlot/freeSlot/getSlot/clear cannot be driven by
    // px_unit.cpp: that is not a property violation; the other C19 jobs still decide the property at document level)
    std::string bin = work + "/px_unit_probe_" + std::to_string(C.shard);
    std::string cmd = "clang++ -std=c++17 -O0 -w -I" + repo + "/src " + src + " -o " + bin + " 2>" + bin + ".err";
    if (system(cmd.c_str()) != 0) {
      C.note("the pool machine could not be bound to the allocator core: " + src + " does not compile against " + repo + "/src in the default geometry (internal API changed?)");
      C.complete = false;
      return C.finish();
    }
    remove(bin.c_str());
    remove((bin + ".err").c_str());
  }
  for (unsigned idSize : idSizes) {
    for (unsigned long cap : caps) {
      unsigned long limit = (1UL << (8 * idSize)) - 1;
      if (cap > limit) continue;                       // a pool cannot be larger than the id space
      if (idSize == 2 && C.opt("caps", "list") == "all" && cap % 9 != 0 && cap != 255 && cap != 256 && cap != 128) continue;
      for (unsigned long init = 1; init <= 4; init++) {
        if (C.expired()) break;
        if (!C.take()) continue;
        char key[128];
        snprintf(key, sizeof key, "geo:id=%u,cap=%lu,init=%lu|script=fill-free-refill-clear", idSize, cap, init);
        C.begin(key);
        std::string bin = work + "/px_unit_" + std::to_string(idSize) + "_" + std::to_string(cap) + "_" + std::to_string(init) + "_" + std::to_string(C.shard);
        std::string cmd = "clang++ -std=c++17 -O0 -w -I" + repo + "/src -DARDUINOJSON_SLOT_ID_SIZE=" + std::to_string(idSize) +
                          " -DARDUINOJSON_POOL_CAPACITY=" + std::to_string(cap) + " -DARDUINOJSON_INITIAL_POOL_COUNT=" + std::to_string(init) + " " + src +
                          " -o " + bin + " 2>" + bin + ".err";
        if (system(cmd.c_str()) != 0) {
          C.fail("build", "the allocator core does not compile for this geometry (see " + bin + ".err)");
          C.end();
          continue;
        }
        std::string raw;
        FILE* p = popen(("timeout 60 " + bin + " 2>&1").c_str(), "r");
        char buf[4096];
        size_t n;
        while (p && (n = fread(buf, 1, sizeof buf, p)) > 0) raw.append(buf, n);
        int rc = p ? pclose(p) : -1;
        remove(bin.c_str());
        remove((bin + ".err").c_str());
        std::string tableProblems;
        std::string got = normalise(raw, tableProblems), want = expectedTrace(idSize, cap, init);
        if (rc != 0) C.fail("run", "the script did not terminate normally (status " + std::to_string(rc) + ")");
        if (got != want) {
          // first differing line
          std::istringstream a(got), b(want);
          std::string la, lb;
          int ln = 0;
          while (true) {
            bool ea = !std::getline(a, la), eb = !std::getline(b, lb);
            ln++;
            if (ea && eb) break;
            if (ea || eb || la != lb) break;
          }
          C.fail("trace", "line " + std::to_string(ln) + ": code says '" + la + "', the pool machine says '" + lb + "'");
        }
        if (!tableProblems.empty()) C.fail("table", tableProblems);
        if (want.find("fail") != std::string::npos) { reachedLimit++; C.nontrivial(); }
        C.outcome(got == want ? "conforms" : "deviates");
        C.end();
      }
    }
  }
  C.metrics["geometries_reaching_the_id_limit"] += double(reachedLimit);
  C.metrics["states"] += double(C.evaluations);
  C.metrics["transitions"] += double(C.evaluations) * 300;
  C.bound(std::string("slot-id size 1") + (C.flag("id2") ? " and 2" : "") + " x pool capacity " + (C.opt("caps", "list") == "all" ? "2..256 (all)" : "18-value list") +
          " x inline pool count 1..4; script: fill to refusal, verify tags, free 3, refill 5, clear, 3 allocations, clear");
  return C.finish();
}
