// Tiny translation unit compiled once per pool geometry (-DARDUINOJSON_SLOT_ID_SIZE/POOL_CAPACITY/INITIAL_POOL_COUNT):
// drives the REAL MemoryPoolList through the fill / free / refill / clear scripts and prints the trace
// (ids handed out, allocator requests, failures) that px.cpp compares with the abstract pool machine.
#include <ArduinoJson/Configuration.hpp>
#include <ArduinoJson/Namespace.hpp>
#include <ArduinoJson/Memory/MemoryPoolList.hpp>

#include <cstdio>
#include <cstdlib>
#include <vector>

using namespace ArduinoJson;
using namespace ArduinoJson::detail;

struct Payload {
  unsigned long long a, b;  // 16 bytes, like a slot of the default configuration
};

struct TraceAllocator : Allocator {
  size_t live = 0;
  void* allocate(size_t n) override {
    printf("alloc %zu\n", n);
    live++;
    return malloc(n);
  }
  void deallocate(void* p) override {
    printf("free\n");
    live--;
    free(p);
  }
  void* reallocate(void* p, size_t n) override {
    printf("realloc %zu\n", n);
    return realloc(p, n);
  }
};

int main() {
  TraceAllocator A;
  MemoryPoolList<Payload> L;
  const unsigned long limit = (1UL << (8 * ARDUINOJSON_SLOT_ID_SIZE)) - 1;  // NULL_SLOT: ids 0..limit-1 are usable
  std::vector<Slot<Payload>> got;
  // 1. fill until the list refuses (at most limit + 40 attempts: a wrap must show up, not loop for ever)
  for (unsigned long i = 0; i < limit + 40; i++) {
    auto s = L.allocSlot(&A);
    if (!s) {
      printf("fail\n");
      if (i >= limit + 3) break;
      continue;
    }
    printf("id %lu\n", (unsigned long)s.id());
    s->a = s.id();  // tag the slot with its own id: aliasing slots overwrite each other
    s->b = ~(unsigned long long)s.id();
    got.push_back(s);
    if (got.size() > limit + 8) break;
  }
  // 2. every slot still holds its own tag (no two live slots share memory), getSlot(id) finds it
  unsigned long bad = 0;
  for (auto& s : got) {
    if (s->a != s.id() || s->b != ~(unsigned long long)s.id()) bad++;
    if (s.id() == limit) bad += 1000000;  // NULL_SLOT handed out as an id
    else if (L.getSlot(s.id()) != s.ptr()) bad++;
  }
  printf("corrupt %lu\n", bad);
  printf("usage %lu\n", (unsigned long)L.usage());
  // 3. free three slots, refill: exactly those three ids come back (LIFO), then refusal again
  if (got.size() >= 8) {
    L.freeSlot(got[1]);
    L.freeSlot(got[5]);
    L.freeSlot(got[got.size() - 1]);
    for (int i = 0; i < 5; i++) {
      auto s = L.allocSlot(&A);
      if (!s) printf("fail\n");
      else printf("id %lu\n", (unsigned long)s.id());
    }
  }
  // 4. clear and start again
  L.clear(&A);
  printf("live %zu\n", A.live);
  for (int i = 0; i < 3; i++) {
    auto s = L.allocSlot(&A);
    if (!s) printf("fail\n");
    else printf("id %lu\n", (unsigned long)s.id());
  }
  L.clear(&A);
  printf("live %zu\n", A.live);
  return 0;
}
