// One source, four binaries: the job table passes -DNXC_MODE_<MODE> so that each binary instantiates only the
// templates of its own mode (keeps every build short; without a define all modes are compiled in).
#if !defined(NXC_MODE_CONVERT) && !defined(NXC_MODE_STRINGS) && !defined(NXC_MODE_CONVERT32) && !defined(NXC_MODE_COPYARRAY)
#  define NXC_MODE_CONVERT
#  define NXC_MODE_STRINGS
#  define NXC_MODE_CONVERT32
#  define NXC_MODE_COPYARRAY
#endif
#include "nx_convert.hpp"
int main(int argc, char** argv) {
  verif::Ctx C(argc, argv);
  nx_convert::selftestNegative() = C.flag("selftest-negative");
#ifdef NXC_MODE_CONVERT
  if (C.mode == "convert") {
    nx_convert::runConvert(C);
    return C.finish();
  }
#endif
#ifdef NXC_MODE_STRINGS
  if (C.mode == "strings") {
    nx_convert::runStrings(C, true);
    return C.finish();
  }
#endif
#ifdef NXC_MODE_CONVERT32
  if (C.mode == "convert32") {
    nx_convert::runConvert32(C);
    return C.finish();
  }
#endif
#ifdef NXC_MODE_COPYARRAY
  if (C.mode == "copyarray") {
    nx_convert::runCopyArray(C);
    return C.finish();
  }
#endif
  fprintf(stderr, "nx_convert: mode '%s' is unknown or not compiled into this binary\n", C.mode.c_str());
  return 2;
}
