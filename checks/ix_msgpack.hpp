// C09 — every well-formed MessagePack object, in every legal encoding, decodes to the value it encodes;
// proper prefixes are IncompleteInput; corrupted inputs are classified like the independent decoder does.
#pragma once
#include <ArduinoJson.h>

#include <istream>
#include <sstream>
#include <streambuf>
#include <string_view>

#include "common.hpp"
#include "gen.hpp"
#include "ledger_alloc.hpp"
#include "model.hpp"
#include "refmsgpack.hpp"

namespace ix_msgpack {
using namespace ArduinoJson;
using namespace verif;

inline std::string strOfLen(size_t n) {
  std::string s;
  for (size_t i = 0; i < n; i++) s.push_back(char('a' + (i % 26)));
  return s;
}

inline std::vector<MValue> leaves(bool full) {
  std::vector<MValue> L;
  L.push_back(MValue::null());
  L.push_back(MValue::boolean(false));
  L.push_back(MValue::boolean(true));
  std::vector<int> ks = full ? std::vector<int>{0, 7, 8, 15, 16, 31, 32, 63, 64} : std::vector<int>{0, 7, 32};
  std::set<std::string> seen;
  for (int k : ks) {
    for (int d = -2; d <= 2; d++) {
      if (!full && d != 0 && d != -1) continue;
      for (int sign = 0; sign < 2; sign++) {
        i128 v = (i128(1) << k) + d;
        if (sign) v = -v;
        if (v < -(i128(1) << 63) || v >= (i128(1) << 64)) continue;
        if (seen.insert(i128str(v)).second) L.push_back(MValue::integer(v));
      }
    }
  }
  L.push_back(MValue::f32(1.5f));
  L.push_back(MValue::f64(0.1));
  if (full) {
    L.push_back(MValue::f32(0.0f));
    L.push_back(MValue::f32(-0.0f));
    L.push_back(MValue::f32(3.0f));
    L.push_back(MValue::f32(std::numeric_limits<float>::infinity()));
    L.push_back(MValue::f32(std::numeric_limits<float>::quiet_NaN()));
    L.push_back(MValue::f32(std::numeric_limits<float>::denorm_min()));
    L.push_back(MValue::f32(std::numeric_limits<float>::max()));
    L.push_back(MValue::f64(1e300));
    L.push_back(MValue::f64(-2.5));
    L.push_back(MValue::f64(16777217.0));
    L.push_back(MValue::f64(std::numeric_limits<double>::denorm_min()));
    L.push_back(MValue::f64(-std::numeric_limits<double>::infinity()));
  }
  for (size_t n : (full ? std::vector<size_t>{0, 1, 31, 32, 255, 256} : std::vector<size_t>{0, 1})) L.push_back(MValue::str(strOfLen(n)));
  if (full) L.push_back(MValue::str(std::string("a\0b", 3)));
  for (size_t n : (full ? std::vector<size_t>{0, 1, 16, 17, 255, 256} : std::vector<size_t>{1})) {
    L.push_back(MValue::raw(refmp::makeBin(strOfLen(n))));
    L.push_back(MValue::raw(refmp::makeExt(n == 1 ? -1 : 5, strOfLen(n))));
  }
  return L;
}

// expected value under the build's configuration
inline MValue configured(const MValue& m) {
  MValue r = m;
#if !ARDUINOJSON_USE_DOUBLE
  if (r.kind == MValue::F64) r = MValue::f32(float(m.d));
#endif
#if !ARDUINOJSON_USE_LONG_LONG
  // without 64-bit storage an integer outside [-2^31, 2^32) cannot be held: the document has null instead (never a wrong number);
  // a value in [2^31, 2^32) is held when it arrives in an unsigned format and is null when it arrives in a signed one
  if (r.kind == MValue::Int && (r.i < -(i128(1) << 31) || r.i >= (i128(1) << 32) || (r.s == "signed-format" && r.i >= (i128(1) << 31)))) r = MValue::null();
#endif
  if (r.kind == MValue::Int) r.s.clear();
  for (auto& e : r.a) e = configured(e);
  for (auto& kv : r.o) kv.second = configured(kv.second);
  return r;
}

// equality that ignores the numeric representation (used after re-serialization)
inline bool sameValue(const MValue& a, const MValue& b) {
  if (a.isNumber() && b.isNumber()) {
    if (a.kind == MValue::Int && b.kind == MValue::Int) return a.i == b.i;
    double x = a.kind == MValue::Int ? double(a.i) : a.asDouble(), y = b.kind == MValue::Int ? double(b.i) : b.asDouble();
    return x == y || (x != x && y != y);
  }
  if (a.kind != b.kind) return false;
  if (a.kind == MValue::Bool) return a.b == b.b;
  if (a.kind == MValue::Str || a.kind == MValue::Raw) return a.s == b.s;
  if (a.a.size() != b.a.size() || a.o.size() != b.o.size()) return false;
  for (size_t i = 0; i < a.a.size(); i++) if (!sameValue(a.a[i], b.a[i])) return false;
  for (size_t i = 0; i < a.o.size(); i++) if (a.o[i].first != b.o[i].first || !sameValue(a.o[i].second, b.o[i].second)) return false;
  return true;
}

struct CappedAllocator : LedgerAllocator {
  void* allocate(size_t n) override {
    if (n > (1u << 20)) { nAlloc++; return nullptr; }
    return LedgerAllocator::allocate(n);
  }
  void* reallocate(void* p, size_t n) override {
    if (n > (1u << 20)) { nRealloc++; return nullptr; }
    return LedgerAllocator::reallocate(p, n);
  }
};

// largest str/bin/ext length announced by a header that the decoder reaches (for the NoMemory allowance)
inline size_t maxAnnounced(const std::string& b) {
  // walk like the decoder, ignoring validity; stop at the first short read
  size_t pos = 0, best = 0;
  std::vector<size_t> pending = {1};
  auto need = [&](size_t k) { return b.size() - pos >= k; };
  size_t guard = 0;
  while (!pending.empty() && pos < b.size() && guard++ < 100000) {
    if (pending.back() == 0) { pending.pop_back(); continue; }
    pending.back()--;
    unsigned c = (unsigned char)b[pos++];
    size_t len = 0; int lb = 0; int what = 0;  // 1 bytes, 2 array, 3 map
    if (c <= 0x7f || c >= 0xe0) continue;
    if ((c & 0xe0) == 0xa0) { what = 1; len = c & 0x1f; }
    else if ((c & 0xf0) == 0x90) { what = 2; len = c & 15; }
    else if ((c & 0xf0) == 0x80) { what = 3; len = c & 15; }
    else switch (c) {
      case 0xc0: case 0xc2: case 0xc3: continue;
      case 0xc1: return best;
      case 0xc4: case 0xd9: what = 1; lb = 1; break;
      case 0xc5: case 0xda: what = 1; lb = 2; break;
      case 0xc6: case 0xdb: what = 1; lb = 4; break;
      case 0xc7: what = 4; lb = 1; break;
      case 0xc8: what = 4; lb = 2; break;
      case 0xc9: what = 4; lb = 4; break;
      case 0xca: case 0xce: case 0xd2: pos += 4; continue;
      case 0xcb: case 0xcf: case 0xd3: pos += 8; continue;
      case 0xcc: case 0xd0: pos += 1; continue;
      case 0xcd: case 0xd1: pos += 2; continue;
      case 0xd4: case 0xd5: case 0xd6: case 0xd7: case 0xd8: what = 4; len = size_t(1) << (c - 0xd4); break;
      case 0xdc: what = 2; lb = 2; break;
      case 0xdd: what = 2; lb = 4; break;
      case 0xde: what = 3; lb = 2; break;
      default: what = 3; lb = 4; break;
    }
    if (lb) {
      if (!need(size_t(lb))) return best;
      len = 0;
      for (int i = 0; i < lb; i++) len = (len << 8) | (unsigned char)b[pos++];
    }
    if (what == 1 || what == 4) {
      size_t total = len + (what == 4 ? 1 : 0);
      if (len > best) best = len;
      if (!need(total)) return best;
      pos += total;
    } else if (what == 2) pending.push_back(len);
    else pending.push_back(len > (size_t(1) << 40) ? len : len * 2);
  }
  return best;
}

// bin/ext re-encoded in their minimal family (the encoder's width choice is not part of the value)
inline MValue minimalRaw(const MValue& m) {
  MValue r = m;
  if (r.kind == MValue::Raw && rawIsBin(r.s)) { std::string p; refmp::splitBin(r.s, p); r.s = refmp::makeBin(p); }
  else if (r.kind == MValue::Raw && rawIsExt(r.s)) { int t; std::string p; refmp::splitExt(r.s, t, p); r.s = refmp::makeExt(int8_t(t), p); }
  for (auto& e : r.a) e = minimalRaw(e);
  for (auto& kv : r.o) kv.second = minimalRaw(kv.second);
  return r;
}

inline const char* codeName(DeserializationError::Code c) { return DeserializationError(c).c_str(); }

// judge one byte string against the reference decoder
inline void judge(Ctx& C, const std::string& bytes, const std::string& what, bool checkReserialize) {
  MValue ref;
  size_t consumed = 0;
  refmp::Status st = refmp::decode(bytes, ref, &consumed, ARDUINOJSON_DEFAULT_NESTING_LIMIT);
  CappedAllocator A;
  std::string problems;
  {
    JsonDocument doc(&A);
    // exactly-sized heap block: any over-read is an ASan report
    char* block = static_cast<char*>(malloc(bytes.size() ? bytes.size() : 1));
    memcpy(block, bytes.data(), bytes.size());
    DeserializationError err = deserializeMsgPack(doc, static_cast<const char*>(block), bytes.size());
    free(block);
    std::string got = err.c_str(), want = refmp::statusName(st);
    C.outcome(what + ":" + got);
    bool noMemOk = err == DeserializationError::NoMemory && maxAnnounced(bytes) + 6 > 65535;
    if (got != want && !noMemOk) {
      problems += "code " + got + ", the reference decoder says " + want + "; ";
    } else if (st == refmp::Ok && !noMemOk) {
      MValue want2 = configured(ref);
      std::string o1 = obsReal(doc.as<JsonVariantConst>()), o2 = obsModel(&want2);
      if (o1 != o2) {
        size_t i = 0;
        while (i < o1.size() && i < o2.size() && o1[i] == o2[i]) i++;
        problems += "value differs at offset " + std::to_string(i) + ": ..." + o1.substr(i > 40 ? i - 40 : 0, 120) + " vs ..." +
                    o2.substr(i > 40 ? i - 40 : 0, 120) + "; ";
      }
      if (checkReserialize) {
        std::string out;
        size_t n = serializeMsgPack(doc, out);
        MValue back;
        size_t c2 = 0;
        if (n != out.size()) problems += "serializeMsgPack count mismatch; ";
        if (refmp::decode(out, back, &c2) != refmp::Ok || c2 != out.size())
          problems += "re-serialized bytes are not one well-formed object: " + hex(out).substr(0, 80) + "; ";
        else if (!sameValue(back, want2))
          problems += "re-serialized value differs (bin/ext must be byte-for-byte): " + mtext(back).substr(0, 100) + " vs " + mtext(want2).substr(0, 100) + "; ";
      }
    }
    // the document must stay usable whatever happened
    std::string tmp;
    serializeJson(doc, tmp);
    doc.clear();
    if (deserializeJson(doc, "[1]") != DeserializationError::Ok || doc[0] != 1) problems += "document not reusable; ";
    problems += A.takeErrors();
  }
  if (!A.live.empty()) problems += "blocks live after destruction; ";
  if (!problems.empty()) C.failKey("in:msgpack:" + hex(bytes).substr(0, 600) + "|" + what, "msgpack", problems);
}

// the same well-formed object decoded into other destination states: a populated document, a member, an element, and a
// member / element of a document on which an earlier, unrelated failure left overflowed() set
inline void judgeDestinations(Ctx& C, const std::string& bytes) {
  MValue ref;
  size_t consumed = 0;
  if (refmp::decode(bytes, ref, &consumed, ARDUINOJSON_DEFAULT_NESTING_LIMIT) != refmp::Ok) return;
  if (maxAnnounced(bytes) + 6 > 65535) return;
  MValue want = configured(ref);
  static const char* kDst[] = {"", "populated", "member", "element", "member-of-overflowed", "element-of-overflowed"};
  for (int dst = 1; dst <= 5; dst++) {
    CappedAllocator A;
    std::string problems;
    {
      JsonDocument doc(&A);
      bool member = dst == 2 || dst == 4, element = dst == 3 || dst == 5;
      if (dst == 1) {
        doc["old"] = std::string("old-value-copied");
        doc["arr"][0] = 1e100;
      } else if (member) {
        doc["keep"] = std::string("kept");
        doc["x"] = std::string("old");
        doc["after"] = 7;
      } else {
        doc.add(1);
        doc.add(std::string("old"));
        doc.add(3);
      }
      if (dst >= 4) {
        A.failAll = true;
        if (member) doc["x"].set(std::string("a copied string whose allocation is refused"));
        else doc[1].set(std::string("a copied string whose allocation is refused"));
        A.failAll = false;
        if (!doc.overflowed()) problems += "harness: destination document not in the overflowed state; ";
      }
      DeserializationError err;
      JsonVariantConst target;
      if (member) {
        err = deserializeMsgPack(doc["x"], bytes.data(), bytes.size());
        target = doc["x"];
        if (doc["keep"] != "kept" || doc["after"] != 7 || doc.size() != 3) problems += "siblings of the member destination changed; ";
      } else if (element) {
        JsonVariant v = doc[1];
        err = deserializeMsgPack(v, bytes.data(), bytes.size());
        target = doc[1];
        if (doc[0] != 1 || doc[2] != 3 || doc.size() != 3) problems += "siblings of the element destination changed; ";
      } else {
        err = deserializeMsgPack(doc, bytes.data(), bytes.size());
        target = doc.as<JsonVariantConst>();
      }
      if (err != DeserializationError::Ok) problems += std::string("code ") + err.c_str() + " for a well-formed object; ";
      else {
        std::string o1 = obsReal(target), o2 = obsModel(&want);
        if (o1 != o2) problems += "value differs from the one decoded into a fresh document: " + o1.substr(0, 100) + " vs " + o2.substr(0, 100) + "; ";
      }
      problems += A.takeErrors();
    }
    if (!A.live.empty()) problems += "blocks live after destruction; ";
    if (!problems.empty()) C.failKey("in:msgpack:" + hex(bytes).substr(0, 600) + "|dst=" + kDst[dst], "msgpack-destination", problems);
  }
}

// the same bytes through the other ways of handing them to deserializeMsgPack: the code and the document may not depend on it
struct OneByteBuf : std::streambuf {  // an istream source that never has more than one byte available
  const std::string& s;
  size_t pos = 0;
  char cur = 0;
  explicit OneByteBuf(const std::string& str) : s(str) {}
  int_type underflow() override {
    if (pos >= s.size()) return traits_type::eof();
    cur = s[pos++];
    setg(&cur, &cur, &cur + 1);
    return traits_type::to_int_type(cur);
  }
  std::streamsize showmanyc() override { return 0; }
};
struct ByteReader {
  const std::string& s;
  size_t pos = 0;
  int read() { return pos < s.size() ? (unsigned char)s[pos++] : -1; }
  size_t readBytes(char* d, size_t n) {
    size_t k = 0;
    while (k < n && pos < s.size()) d[k++] = s[pos++];
    return k;
  }
};

inline void judgeSources(Ctx& C, const std::string& bytes, bool wellFormed) {
  auto observe = [](JsonDocument& doc, DeserializationError e) { return std::string(e.c_str()) + "|" + obsReal(doc.as<JsonVariantConst>()); };
  std::string ref;
  {
    JsonDocument doc;
    ref = observe(doc, deserializeMsgPack(doc, bytes.data(), bytes.size()));
  }
  auto cmp = [&](const char* kind, const std::string& got) {
    if (got != ref) C.failKey("in:msgpack:" + hex(bytes).substr(0, 600) + "|source=" + kind, "msgpack-source", "differs from the pointer+size source: " + got.substr(0, 120) + " vs " + ref.substr(0, 120));
  };
  { JsonDocument doc; cmp("std::string", observe(doc, deserializeMsgPack(doc, bytes))); }
  { JsonDocument doc; std::istringstream in(bytes); cmp("istringstream", observe(doc, deserializeMsgPack(doc, in))); }
  { JsonDocument doc; OneByteBuf b(bytes); std::istream in(&b); cmp("istream-one-byte", observe(doc, deserializeMsgPack(doc, in))); }
  { JsonDocument doc; ByteReader r{bytes}; cmp("custom-reader", observe(doc, deserializeMsgPack(doc, r))); }
  { JsonDocument doc; cmp("uint8_t*", observe(doc, deserializeMsgPack(doc, reinterpret_cast<const uint8_t*>(bytes.data()), bytes.size()))); }
  { JsonDocument doc; std::string_view sv(bytes); cmp("string_view", observe(doc, deserializeMsgPack(doc, sv))); }
  if (wellFormed) {
    // sources without a length: an exactly-sized heap block (any read past the object is an ASan report)
    char* block = static_cast<char*>(malloc(bytes.size() ? bytes.size() : 1));
    memcpy(block, bytes.data(), bytes.size());
    { JsonDocument doc; cmp("const char*", observe(doc, deserializeMsgPack(doc, static_cast<const char*>(block)))); }
    free(block);
    {
      // a variant as the source: it hands out its string as a zero-terminated pointer (the carrier needs the terminator to
      // take the string; the decoder must not stop at the 0x00 bytes inside the object)
      std::string z = bytes;
      JsonDocument carrier, doc;
      carrier["payload"] = z.c_str();  // linked
      cmp("JsonVariantConst", observe(doc, deserializeMsgPack(doc, carrier["payload"].as<JsonVariantConst>())));
      JsonDocument doc2;
      cmp("MemberProxy", observe(doc2, deserializeMsgPack(doc2, carrier["payload"])));
    }
  }
}

// containers with many entries and nests up to the limit: the nesting limit counts levels, not siblings; counts with a
// non-zero high byte; natural array16 / map16 headers
inline void wideAndDeep(Ctx& C) {
  auto scalars = [](size_t n, bool map) {
    MValue m = map ? MValue::object() : MValue::array();
    for (size_t i = 0; i < n; i++) {
      if (map) m.o.emplace_back("k" + std::to_string(i), MValue::integer(i128(i % 100)));
      else m.a.push_back(MValue::integer(i128(i % 100)));
    }
    return m;
  };
  MValue emptyArr = MValue::array(), oneObj = MValue::object();
  oneObj.o.emplace_back("k", MValue::boolean(true));
  for (size_t n : std::vector<size_t>{3, 9, 10, 11, 15, 16, 17, 255, 256, 257}) {
    for (int map = 0; map < 2; map++) {
      std::vector<size_t> ks;
      if (n <= 17) for (size_t k = 0; k < n; k++) ks.push_back(k);
      else ks = {0, n / 2, n - 1};
      for (size_t k : ks) {
        for (int inner = 0; inner < 3; inner++) {
          if (!C.take()) continue;
          MValue m = scalars(n, map != 0);
          MValue in = inner == 0 ? emptyArr : inner == 1 ? oneObj : scalars(n <= 17 ? n : 3, map == 0);
          if (map) m.o[k].second = in; else m.a[k] = in;
          std::string bytes = refmp::encode(m);
          C.begin("wide:n=" + std::to_string(n) + (map ? "|map" : "|array") + "|k=" + std::to_string(k) + "|inner=" + std::to_string(inner));
          C.nontrivial();
          judge(C, bytes, "wide", true);
          if (k == 0 || k + 1 == n) judgeSources(C, bytes, true);
          C.end();
        }
      }
    }
  }
  // pure and mixed nests of every depth up to two beyond the default limit, with siblings in front of the nested entry
  for (int depth = 1; depth <= ARDUINOJSON_DEFAULT_NESTING_LIMIT + 2; depth++) {
    for (int style = 0; style < 3; style++) {
      for (size_t before : std::vector<size_t>{0, 1, 4}) {
        if (!C.take()) continue;
        MValue cur = MValue::integer(7);
        for (int d = depth; d >= 1; d--) {
          bool arr = style == 0 || (style == 2 && (d & 1));
          MValue c = arr ? MValue::array() : MValue::object();
          for (size_t i = 0; i < before; i++) {
            if (arr) c.a.push_back(MValue::integer(i128(i)));
            else c.o.emplace_back("s" + std::to_string(i), MValue::integer(i128(i)));
          }
          if (arr) c.a.push_back(cur); else c.o.emplace_back("n", cur);
          cur = c;
        }
        C.begin("nest:depth=" + std::to_string(depth) + "|style=" + std::to_string(style) + "|siblings=" + std::to_string(before));
        C.nontrivial();
        judge(C, refmp::encode(cur), "nest", true);
        C.end();
      }
    }
  }
  C.bound("arrays and maps of 3 9 10 11 15 16 17 255 256 257 scalar entries with entry k (every k for n <= 17, else first/middle/last) replaced by an empty array, a one-member "
          "map and a container of the same width; array / map / alternating nests of depth 1.." + std::to_string(ARDUINOJSON_DEFAULT_NESTING_LIMIT + 2) + " with 0, 1, 4 siblings in front of the nested entry");
}

inline void run(Ctx& C) {
  const bool T = C.thorough();
#if !ARDUINOJSON_USE_LONG_LONG
  refmp::tagSignedFormat() = true;
#endif
  int N = atoi(C.opt("nodes", T ? "3" : "3").c_str());
  int K = atoi(C.opt("nonminimal", T ? "2" : "1").c_str());
  TreeGen G;
  G.leavesTop = leaves(true);
  G.leavesDeep = leaves(false);
  G.deepFrom = T ? 2 : 1;
  G.keys = {"", "a", std::string(32, 'k')};
  G.dupKeys = true;
  uint64_t nEnc = 0, nPrefix = 0, nSubst = 0;
  // selfcheck of the oracle pair: encoder -> decoder identity
  G.upTo(N, [&](const MValue& tree) {
    if (C.expired()) return;
    if (!C.take()) return;
    C.begin("tree:" + mtext(tree).substr(0, 300));
    if (tree.kind == MValue::Arr || tree.kind == MValue::Obj) C.nontrivial();
    bool small = tree.nodes() <= 2;
    int encIndex = 0;
    refmp::encodings(tree, K, [&](const std::string& bytes, const std::string& desc) {
      nEnc++;
      MValue back;
      size_t consumed = 0;
      // Appendix D self-check: reference decoder inverts the reference encoder
      if (refmp::decode(bytes, back, &consumed) != refmp::Ok || consumed != bytes.size() || !sameValue(minimalRaw(back), minimalRaw(tree))) {
        C.fail("selfcheck", "reference decoder does not invert the reference encoder for " + hex(bytes).substr(0, 80));
        return;
      }
      judge(C, bytes, "full[" + desc + "]", true);
      if (desc == "min" || desc == "max") {
        judgeDestinations(C, bytes);
        judgeSources(C, bytes, true);
        // the proper prefixes through the sources that know their length
        if (bytes.size() <= 40)
          for (size_t p = 0; p < bytes.size(); p++) judgeSources(C, bytes.substr(0, p), false);
      }
      // proper prefixes
      size_t len = bytes.size();
      for (size_t p = 0; p < len; p++) {
        bool take = len <= 40 || p < 14 || p + 3 >= len || (p % 37) == 0;
        if (!take) continue;
        nPrefix++;
        std::string pre = bytes.substr(0, p);
        MValue dummy;
        refmp::Status st = refmp::decode(pre, dummy);
        // statement: EmptyInput for the empty input, IncompleteInput for every other proper prefix
        if ((p == 0 && st != refmp::Empty) || (p > 0 && st != refmp::Incomplete)) {
          C.fail("selfcheck", "reference decoder does not call a proper prefix incomplete");
          continue;
        }
        judge(C, pre, "prefix", false);
      }
      // single-byte substitutions: for the minimal and the maximal encoding of small inputs
      bool doSubst = (desc == "min" || desc == "max" || encIndex < 3) && len <= (small ? 24u : 10u);
      if (doSubst) {
        for (size_t p = 0; p < len; p++) {
          for (int v = 0; v < 256; v++) {
            if ((unsigned char)bytes[p] == v) continue;
            std::string mut = bytes;
            mut[p] = char(v);
            nSubst++;
            judge(C, mut, "subst", false);
          }
        }
      }
      encIndex++;
    });
    C.end();
  });
  wideAndDeep(C);
  C.metrics["encodings"] += double(nEnc);
  C.metrics["prefixes"] += double(nPrefix);
  C.metrics["substitutions"] += double(nSubst);
  C.bound("all trees with <= " + std::to_string(N) + " nodes over " + std::to_string(G.leavesTop.size()) + " leaves (" +
          std::to_string(G.leavesDeep.size()) + " below depth " + std::to_string(G.deepFrom) + "), 3 keys with repetition; all encodings with <= " +
          std::to_string(K) + " non-minimal nodes + the all-maximal one; proper prefixes (all for <= 40 bytes); all 255 substitutions at every position of short encodings; minimal and maximal encodings (and their prefixes) also through 6 other source kinds (std::string, string_view, istream, one-byte istream, custom reader, uint8_t*; unbounded const char* and variant sources for complete objects) and into 5 non-fresh destination states (populated, member, element, member / element of an overflowed document); USE_DOUBLE=" +
          std::to_string(ARDUINOJSON_USE_DOUBLE));
}
}  // namespace ix_msgpack
