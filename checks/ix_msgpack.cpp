#include "ix_msgpack.hpp"
int main(int argc, char** argv) {
  verif::Ctx C(argc, argv);
  ix_msgpack::run(C);
  return C.finish();
}
