#include "tx.hpp"
int main(int argc, char** argv) {
  verif::Ctx C(argc, argv);
  if (C.mode == "sched")
    tx::runSched(C);
  else if (C.mode == "tsan")
    tx::runTsan(C);
  else if (C.mode == "selftest")
    tx::runSelftest(C);
  else {
    fprintf(stderr, "tx: unknown mode '%s' (sched | tsan | selftest)\n", C.mode.c_str());
    return 3;
  }
  return C.finish();
}
