#include "hx_strings.hpp"
int main(int argc, char** argv) {
  verif::Ctx C(argc, argv);
  if (C.mode == "strings") hx_strings::run(C);
  else { fprintf(stderr, "unknown mode %s\n", C.mode.c_str()); return 3; }
  return C.finish();
}
