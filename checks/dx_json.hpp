// C02 — serializeJson / serializeJsonPretty emit exactly the document, on every kind of destination.
#pragma once
#include "dx_common.hpp"

namespace dx {

struct Issue {
  std::string clause, detail, leaf;
};

// The C12 printing bound for one floating-point leaf `m` printed as token `tok`.  Empty clause = fine.
inline Issue judgeFloatToken(const MValue& m, const std::string& tok) {
  Issue is;
  const double x = m.asDouble();
  is.leaf = mtext(m);
  if (!std::isfinite(x)) {
    if (tok != "null") {
      is.clause = "nonfinite";
      is.detail = "non-finite number printed as '" + vis(tok.substr(0, 40)) + "' instead of null";
    }
    return is;
  }
  refjson::NumLit n = refjson::classifyNumber(tok);
  if (!n.wellFormed) {
    is.clause = "number-form";
    is.detail = "'" + vis(tok.substr(0, 60)) + "' is not an RFC 8259 number";
    return is;
  }
  long double v = n.v, lx = x, ax = fabsl(lx);
  if (x == 0) {
    if (v != 0) {
      is.clause = "float-tolerance";
      is.detail = "zero printed as " + tok;
    }
    return is;
  }
  if (ax < 1e-300L || ax > 1e300L) return is;  // outside the range of the C12 bound: any well-formed number
  long double tol = (m.kind == MValue::F32 ? 1e-6L : 1e-9L) * (ax > 1 ? ax : 1.0L);
  if (fabsl(v - lx) > tol) {
    // class marker for the case key: a double that is exactly representable as a float and is printed within the
    // *float* bound (the library stores such a double as a float, deviation D18)
    if (m.kind == MValue::F64 && double(float(x)) == x && fabsl(v - lx) <= 1e-6L * (ax > 1 ? ax : 1.0L)) is.leaf += ":f32rep";
    char b[200];
    snprintf(b, sizeof b, "%s %.17g printed as %s: error %.3Lg exceeds %.3Lg", m.kind == MValue::F32 ? "float" : "double", x,
             tok.c_str(), fabsl(v - lx), tol);
    is.clause = "float-tolerance";
    is.detail = b;
  }
  return is;
}

// Textual walk of the produced text against the model (whitespace between tokens is tolerated).
struct Walk {
  const std::string& t;
  size_t p = 0;
  bool bad = false;
  Issue fatal;
  std::vector<Issue> soft;  // tolerance failures do not stop the walk
  explicit Walk(const std::string& text) : t(text) {}

  void ws() {
    while (p < t.size() && (t[p] == ' ' || t[p] == '\t' || t[p] == '\n' || t[p] == '\r')) p++;
  }
  std::string ctx() const { return " at offset " + std::to_string(p) + " near '" + vis(t.substr(p, 24)) + "'"; }
  bool die(const std::string& clause, const std::string& detail, const std::string& leaf = "") {
    if (!bad) {
      bad = true;
      fatal = {clause, detail, leaf};
    }
    return false;
  }
  bool expect(char c) {
    ws();
    if (p < t.size() && t[p] == c) {
      p++;
      return true;
    }
    return die("structure", std::string("expected '") + c + "'" + ctx());
  }
  bool str(const std::string& want, const char* clause) {
    ws();
    refjson::Parser P(t);
    P.p = p;
    std::string got;
    if (!P.string(got)) return die("string-form", P.err + ctx());
    for (size_t i = p; i < P.p; i++)
      if (t[i] == 0) return die("string-form", "raw NUL inside a string token" + ctx());
    p = P.p;
    if (got != want) return die(clause, "bytes " + hex(got).substr(0, 80) + " != " + hex(want).substr(0, 80), "s\"" + vis(want.substr(0, 40)) + "\"");
    return true;
  }
  std::string numTok() {
    size_t q = p;
    while (q < t.size() && (isdigit((unsigned char)t[q]) || t[q] == '-' || t[q] == '+' || t[q] == '.' || t[q] == 'e' || t[q] == 'E')) q++;
    std::string s = t.substr(p, q - p);
    p = q;
    return s;
  }
  bool word(const char* w) {
    ws();
    size_t n = strlen(w);
    if (t.compare(p, n, w) == 0) {
      p += n;
      return true;
    }
    return die("literal", std::string("expected ") + w + ctx());
  }
  bool value(const MValue& m) {
    ws();
    switch (m.kind) {
      case MValue::Null: return word("null");
      case MValue::Bool: return word(m.b ? "true" : "false");
      case MValue::Int: {
        std::string tok = numTok(), want = i128str(m.i);
        if (tok != want) return die("integer-digits", "printed '" + vis(tok) + "' for " + want + ctx(), mtext(m));
        return true;
      }
      case MValue::F32:
      case MValue::F64: {
        std::string tok;
        if (t.compare(p, 4, "null") == 0) {
          tok = "null";
          p += 4;
        } else {
          tok = numTok();
        }
        Issue is = judgeFloatToken(m, tok);
        if (is.clause.empty()) return true;
        if (is.clause == "float-tolerance") {
          soft.push_back(is);
          return true;
        }
        return die(is.clause, is.detail + ctx(), is.leaf);
      }
      case MValue::Str: return str(m.s, "string-bytes");
      case MValue::Raw:
        if (t.compare(p, m.s.size(), m.s) != 0) return die("raw-verbatim", "raw payload '" + vis(m.s.substr(0, 40)) + "' not found verbatim" + ctx(), mtext(m));
        p += m.s.size();
        return true;
      case MValue::Arr:
        if (!expect('[')) return false;
        for (size_t i = 0; i < m.a.size(); i++) {
          if (i && !expect(',')) return false;
          if (!value(m.a[i])) return false;
        }
        return expect(']');
      case MValue::Obj:
        if (!expect('{')) return false;
        for (size_t i = 0; i < m.o.size(); i++) {
          if (i && !expect(',')) return false;
          if (!str(m.o[i].first, "key-bytes")) return false;
          if (!expect(':')) return false;
          if (!value(m.o[i].second)) return false;
        }
        return expect('}');
    }
    return false;
  }
  bool document(const MValue& m) {
    if (!value(m)) return false;
    ws();
    if (p != t.size()) return die("structure", "trailing bytes" + ctx());
    return true;
  }
};

// Does the tree P (obtained from the text by the independent parser) denote the model M?
inline bool denotes(const MValue& P, const MValue& M, const std::string& path, Issue& fatal, std::vector<Issue>& soft) {
  auto die = [&](const std::string& clause, const std::string& detail, const std::string& leaf = "") {
    fatal = {clause, path + ": " + detail, leaf};
    return false;
  };
  switch (M.kind) {
    case MValue::Null: return P.kind == MValue::Null || die("value", "expected null, parsed " + mtext(P).substr(0, 60));
    case MValue::Bool: return (P.kind == MValue::Bool && P.b == M.b) || die("value", "boolean differs");
    case MValue::Int:
      if (P.kind != MValue::Int || P.i != M.i) return die("integer-digits", "parsed " + mtext(P).substr(0, 60) + " for " + mtext(M), mtext(M));
      if (P.s != i128str(M.i)) return die("integer-digits", "literal '" + P.s + "' is not the canonical decimal of " + i128str(M.i), mtext(M));
      return true;
    case MValue::F32:
    case MValue::F64: {
      std::string tok;
      if (P.kind == MValue::Null) tok = "null";
      else if (P.isNumber()) tok = P.s;
      else return die("value", "number came out as " + mtext(P).substr(0, 60), mtext(M));
      Issue is = judgeFloatToken(M, tok);
      if (is.clause.empty()) return true;
      is.detail = path + ": " + is.detail;
      if (is.clause == "float-tolerance") {
        soft.push_back(is);
        return true;
      }
      fatal = is;
      return false;
    }
    case MValue::Str:
      return (P.kind == MValue::Str && P.s == M.s) || die("string-bytes", "parsed " + mtext(P).substr(0, 80) + " for " + mtext(M).substr(0, 80), mtext(M).substr(0, 60));
    case MValue::Raw: {
      MValue R;
      if (!refjson::parse(M.s, R)) return true;  // not a JSON value by itself: judged textually only
      refjson::PrintOpt o;
      if (refjson::printDoc(R, o) != refjson::printDoc(P, o)) return die("raw-verbatim", "raw payload denotes a different value", mtext(M));
      return true;
    }
    case MValue::Arr:
      if (P.kind != MValue::Arr || P.a.size() != M.a.size()) return die("structure", "array of " + std::to_string(M.a.size()) + " elements parsed as " + mtext(P).substr(0, 60));
      for (size_t i = 0; i < M.a.size(); i++)
        if (!denotes(P.a[i], M.a[i], path + "[" + std::to_string(i) + "]", fatal, soft)) return false;
      return true;
    case MValue::Obj:
      if (P.kind != MValue::Obj || P.o.size() != M.o.size()) return die("structure", "object of " + std::to_string(M.o.size()) + " members parsed as " + mtext(P).substr(0, 60));
      for (size_t i = 0; i < M.o.size(); i++) {
        if (P.o[i].first != M.o[i].first) return die("key-bytes", "member " + std::to_string(i) + " has key " + hex(P.o[i].first).substr(0, 60) + ", expected " + hex(M.o[i].first).substr(0, 60));
        if (!denotes(P.o[i].second, M.o[i].second, path + "." + vis(M.o[i].first.substr(0, 12)), fatal, soft)) return false;
      }
      return true;
  }
  return false;
}

inline bool rawsAreJson(const MValue& m) {
  if (m.kind == MValue::Raw) {
    MValue r;
    return refjson::parse(m.s, r);
  }
  for (auto& e : m.a)
    if (!rawsAreJson(e)) return false;
  for (auto& kv : m.o)
    if (!rawsAreJson(kv.second)) return false;
  return true;
}

// removes JSON whitespace outside strings
inline std::string stripWs(const std::string& t) {
  std::string r;
  r.reserve(t.size());
  bool in = false;
  for (size_t i = 0; i < t.size(); i++) {
    char c = t[i];
    if (in) {
      r.push_back(c);
      if (c == '\\' && i + 1 < t.size()) r.push_back(t[++i]);
      else if (c == '"') in = false;
    } else if (c == '"') {
      in = true;
      r.push_back(c);
    } else if (c != ' ' && c != '\t' && c != '\r' && c != '\n') {
      r.push_back(c);
    }
  }
  return r;
}

inline bool jsonNontrivial(const MValue& m, const std::string& compact) {
  if (hasContainer(m)) return true;
  if (m.kind == MValue::Str) return compact.find('\\') != std::string::npos;
  if (m.kind == MValue::Int) return m.i > 0x7fffffff || m.i < -i128(0x80000000LL);
  if (m.isFloat()) return compact.find('e') != std::string::npos || compact.find('.') != std::string::npos || compact == "null";
  return false;
}

inline std::string lenBucket(size_t n) {
  int b = 0;
  while ((size_t(1) << b) < n) b++;
  return "len<=2^" + std::to_string(b);
}
inline const char* kindName(const MValue& m) {
  static const char* n[] = {"null", "bool", "int", "f32", "f64", "str", "raw", "arr", "obj"};
  return n[m.kind];
}

// report the text-level verdicts of one operation (shared with C07-J)
inline void reportIssues(Ctx& C, const std::string& kop, const Issue& fatal, bool bad, const std::vector<Issue>& soft) {
  if (bad) C.failKey(kop + (fatal.leaf.empty() ? "" : "|leaf=" + fatal.leaf) + "|c=" + fatal.clause, fatal.clause, fatal.detail);
  for (auto& is : soft) C.failKey(kop + "|leaf=" + is.leaf + "|c=" + is.clause, is.clause, is.detail);
}

inline bool hasStringOrKey(const MValue& m) {
  if (m.kind == MValue::Str) return true;
  for (auto& e : m.a) if (hasStringOrKey(e)) return true;
  for (auto& kv : m.o) { (void)kv; return true; }
  return false;
}

inline void checkJsonDoc(Ctx& C, const MValue& m, int sto, size_t fullLimit) {
  std::string key = docKey(m) + (sto ? "|sto=signed" : "");
  C.begin(key + "|op=serializeJson");
  JsonDocument doc;
  if (!buildChecked(C, key, doc, m, sto)) {
    C.outcome("build-failed");
    C.end();
    return;
  }
  JsonVariantConst v = doc.as<JsonVariantConst>();
  std::string compact = "previous", pretty = "previous";
  size_t rc = serializeJson(v, compact), rp = serializeJsonPretty(v, pretty);
  const std::string kc = key + "|op=serializeJson", kp = key + "|op=pretty";
  if (rc != compact.size()) C.failKey(kc + "|dst=std::string", "count", "returned " + std::to_string(rc) + " for " + std::to_string(compact.size()) + " bytes");
  if (rp != pretty.size()) C.failKey(kp + "|dst=std::string", "count", "returned " + std::to_string(rp) + " for " + std::to_string(pretty.size()) + " bytes");

  // (a0) the same document built from linked strings (const char* values and keys) serializes to the same bytes
  if (sto == 0 && hasStringOrKey(m)) {
    JsonDocument dl;
    if (build(dl.to<JsonVariant>(), m, true) && !dl.overflowed()) {
      std::string c2, p2;
      size_t r1 = serializeJson(dl, c2), r2 = serializeJsonPretty(dl, p2);
      if (c2 != compact || r1 != c2.size()) C.failKey(kc + "|strings=linked", "linked-differs", "linked strings give '" + vis(c2.substr(0, 120)) + "' instead of '" + vis(compact.substr(0, 120)) + "'");
      if (p2 != pretty || r2 != p2.size()) C.failKey(kp + "|strings=linked", "linked-differs", "pretty text differs when the strings are linked");
      if (measureJson(dl) != compact.size() || measureJsonPretty(dl) != pretty.size()) C.failKey(kc + "|strings=linked", "linked-differs", "measureJson differs when the strings are linked");
    } else {
      C.failKey(kc + "|strings=linked", "build", "cannot build the document from linked strings");
    }
  }
  // (a) the compact text denotes the document: textual walk ...
  bool textOk;
  {
    Walk W(compact);
    textOk = W.document(m);
    reportIssues(C, kc, W.fatal, W.bad, W.soft);
  }
  {
    Walk W(pretty);
    W.document(m);
    reportIssues(C, kp, W.fatal, W.bad, std::vector<Issue>());  // tolerance already reported for the compact text
  }
  // ... and through the independent RFC 8259 parser (unless a raw value is not JSON by itself)
  const bool parseable = rawsAreJson(m);
  if (parseable) {
    MValue P, PP;
    std::string err;
    if (!refjson::parse(compact, P, &err)) {
      C.failKey(kc, "rfc8259", "the independent parser rejects the text: " + err + " in '" + vis(compact.substr(0, 200)) + "'");
    } else {
      Issue fatal;
      std::vector<Issue> soft;
      bool ok = denotes(P, m, "$", fatal, soft);
      if (textOk) soft.clear();  // already reported by the walk
      reportIssues(C, kc + "|via=parser", fatal, !ok, soft);
      if (!refjson::parse(pretty, PP, &err)) {
        C.failKey(kp, "rfc8259", "the independent parser rejects the pretty text: " + err);
      } else {
        refjson::PrintOpt o;
        if (refjson::printDoc(P, o) != refjson::printDoc(PP, o)) C.failKey(kp, "pretty-differs", "pretty and compact texts parse to different values");
      }
    }
  }
  // (b) the two differ only in insignificant whitespace
  if (stripWs(pretty) != stripWs(compact)) C.failKey(kp, "pretty-differs", firstDiff(stripWs(pretty), stripWs(compact)));
  {  // operator<<(std::ostream&, document) is serializeJson
    std::ostringstream os;
    os << doc;
    if (os.str() != compact) C.failKey(kc + "|dst=operator<<", "dst-differs", firstDiff(os.str(), compact));
  }
  {  // a stream with a pending field width and fill character receives the same bytes (the writer's output is unformatted)
    std::ostringstream os;
    os.width(std::streamsize(compact.size() + 3));
    os.fill('#');
    os << doc;
    if (os.str() != compact) C.failKey(kc + "|dst=operator<<width", "dst-differs", firstDiff(os.str(), compact));
    std::ostringstream os2;
    os2.width(std::streamsize(pretty.size() + 3));
    os2.fill('#');
    size_t r2 = serializeJsonPretty(v, os2);
    if (r2 != os2.str().size()) C.failKey(kp + "|dst=ostream-width", "count", "returned " + std::to_string(r2) + " but " + std::to_string(os2.str().size()) + " bytes were delivered");
    if (os2.str() != pretty) C.failKey(kp + "|dst=ostream-width", "dst-differs", firstDiff(os2.str(), pretty));
  }
  // (c) destinations, (d) capacities
  checkDestinations(C, key, OpJson, v, compact);
  checkDestinations(C, key, OpPretty, v, pretty);
  checkCapacities(C, key, OpJson, v, compact, fullLimit);
  checkCapacities(C, key, OpPretty, v, pretty, fullLimit);

  if (jsonNontrivial(m, compact)) C.nontrivial();
  C.outcome(std::string(kindName(m)) + "/" + lenBucket(compact.size()) + (parseable ? "" : "/rawtext") + (pretty.size() != compact.size() ? "/indented" : ""));
  C.maxMetrics["max_text_bytes"] = std::max(C.maxMetrics["max_text_bytes"], double(pretty.size()));
  C.end();
}

inline void runJson(Ctx& C) {
  const bool T = C.thorough();
  DocOptions o;
  o.withRaw = true;
  o.nodes = atoi(C.opt("nodes", T ? "4" : "3").c_str());
  o.deepFrom = atoi(C.opt("deepfrom", "64").c_str());
  o.deep = T ? std::vector<int>{13, 14, 15, 16, 17, 18, 31, 32, 33, 63, 64, 65, 100, 127, 128, 129, 254, 255, 256, 300}
             : std::vector<int>{13, 14, 15, 16, 17, 18, 32, 33, 64, 65, 128, 129, 255, 256};
  o.exactOnly = atoi(C.opt("exact", "0").c_str());
  const size_t fullLimit = size_t(atoi(C.opt("fullcaps", T ? "2048" : "600").c_str()));
  std::vector<std::string> bounds;
  forEachDoc(o, [&](const MValue& m, int sto) {
    if (C.expired()) return;
    if (!C.take()) return;
    checkJsonDoc(C, m, sto, fullLimit);
  }, &bounds);
  for (auto& b : bounds) C.bound(b);
  C.bound("per document: serializeJson and serializeJsonPretty into std::string, large char buffer, std::ostringstream (also with a pending field width and fill), byte-wise custom writer, "
          "writer that stops accepting, Arduino Print and String stubs, char/unsigned char/signed char arrays of 1 2 8 16 24 64 bytes, and every "
          "capacity 0..length+2 (texts longer than " + std::to_string(fullLimit) + " bytes: 0..66, 255..257, length/2, length-2..length+2) as an exact heap block (void*) "
          "and as a window of a sentinel-filled buffer (char*)");
}

}  // namespace dx
