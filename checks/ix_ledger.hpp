// C06 (deserializer part) — every block requested while deserializing comes from the document's allocator and
// goes back exactly once, also when the input is refused; the memory requested is bounded by one maximum-size
// string plus a linear function of the bytes consumed.  Inputs: every string length around the builder / limit
// boundaries (exhaustively 0..3*max when ARDUINOJSON_STRING_LENGTH_SIZE=1), hostile MessagePack headers, all
// 1-2 (thorough: 3) byte MessagePack strings, small generated JSON texts.
#pragma once
#include <ArduinoJson.h>

#include "common.hpp"
#include "gen.hpp"
#include "ledger_alloc.hpp"
#include "model.hpp"
#include "refjson.hpp"
#include "refmsgpack.hpp"

namespace ix_ledger {
using namespace ArduinoJson;
using namespace verif;

struct Counting {
  const char* p;
  size_t n;
  size_t* pos;
  int read() { return *pos < n ? (unsigned char)p[(*pos)++] : -1; }
  size_t readBytes(char* d, size_t len) {
    size_t k = 0;
    while (k < len && *pos < n) d[k++] = p[(*pos)++];
    return k;
  }
};

struct Capped : LedgerAllocator {
  size_t cap = size_t(64) << 20;
  void* allocate(size_t n) override {
    if (n > cap) { nAlloc++; return nullptr; }
    return LedgerAllocator::allocate(n);
  }
  void* reallocate(void* p, size_t n) override {
    if (n > cap) { nRealloc++; return nullptr; }
    return LedgerAllocator::reallocate(p, n);
  }
};

inline void one(Ctx& C, bool msgpack, const std::string& input, const std::string& key, int expect /* 1 = Ok, 0 = NoMemory, -1 = any */) {
  const size_t maxLen = detail::StringNode::maxLength;
  Capped A;
  size_t consumed = 0;
  std::string problems;
  {
    JsonDocument doc(&A);
    doc["previous"] = std::string("content that must be released");
    char* block = static_cast<char*>(malloc(input.size() ? input.size() : 1));
    memcpy(block, input.data(), input.size());
    Counting rd{block, input.size(), &consumed};
    A.resetCounters();
    size_t before = A.liveBytes;
    DeserializationError err = msgpack ? deserializeMsgPack(doc, rd) : deserializeJson(doc, rd);
    free(block);
    (void)before;
    if (expect == 1 && err != DeserializationError::Ok) problems += std::string("expected Ok, got ") + err.c_str() + "; ";
    if (expect == 0 && err != DeserializationError::NoMemory) problems += std::string("expected NoMemory, got ") + err.c_str() + "; ";
    // memory bound: one maximum-size string + one pool + pool table + one builder node + linear in the bytes consumed
    const size_t slot = detail::ResourceManager::slotSize;
    size_t A0 = detail::sizeofString(maxLen) + size_t(ARDUINOJSON_POOL_CAPACITY) * slot + 64 * sizeof(void*) * 2 + detail::sizeofString(31) + 64;
    size_t B = 2 * slot + 24;
    size_t bound = A0 + B * consumed;
    if (A.peakBytes > bound) problems += "peak of " + std::to_string(A.peakBytes) + " bytes exceeds the bound " + std::to_string(bound) + " for " + std::to_string(consumed) + " bytes consumed; ";
    C.maxMetrics["max_peak_over_bound_ppm"] = std::max(C.maxMetrics["max_peak_over_bound_ppm"], 1e6 * double(A.peakBytes) / double(bound));
    // read-only use makes no allocator call
    A.frozen = true;
    std::string tmp;
    serializeJson(doc, tmp);
    (void)obsReal(doc.as<JsonVariantConst>());
    A.frozen = false;
    problems += A.takeErrors();
    C.outcome(std::string(msgpack ? "msgpack:" : "json:") + err.c_str());
    doc.clear();
    if (!A.live.empty()) problems += "blocks live after clear(): " + A.liveSignature() + "; ";
    if (deserializeJson(doc, "[\"again\"]") != DeserializationError::Ok) problems += "document not reusable; ";
  }
  if (!A.live.empty()) problems += "blocks live after destruction: " + A.liveSignature() + "; ";
  problems += A.takeErrors();
  if (!problems.empty()) C.failKey(key, "ledger-input", problems);
}

inline std::string chars(size_t n) {
  std::string s(n, 'x');
  for (size_t i = 0; i < n; i += 7) s[i] = char('a' + (i / 7) % 26);
  return s;
}

inline void run(Ctx& C) {
  const bool T = C.thorough();
  const size_t maxLen = detail::StringNode::maxLength;
  std::string cfg = "len" + std::to_string(ARDUINOJSON_STRING_LENGTH_SIZE);
  // ---- 1. string lengths
  std::vector<size_t> lens;
  if (maxLen <= 255) {
    for (size_t n = 0; n <= 3 * maxLen + 5; n++) lens.push_back(n);
  } else {
    for (size_t n : {size_t(0), size_t(1), size_t(30), size_t(31), size_t(32), size_t(33), size_t(62), size_t(63), size_t(64), size_t(126), size_t(127), size_t(128), size_t(254),
                     size_t(255), size_t(256), size_t(1023), size_t(4095), size_t(32767), size_t(32768), maxLen - 2, maxLen - 1, maxLen, maxLen + 1, maxLen + 2, 2 * maxLen, 2 * maxLen + 1,
                     2 * maxLen + 2, 3 * maxLen})
      lens.push_back(n);
  }
  for (size_t n : lens) {
    for (int role = 0; role < 4; role++) {  // value, key, value in array after another string, key + same value (de-duplication)
      for (int fmt = 0; fmt < 2; fmt++) {
        if (!C.take()) continue;
        std::string s = chars(n), in;
        MValue m;
        switch (role) {
          case 0: m = MValue::str(s); break;
          case 1: m = MValue::object(); m.o.emplace_back(s, MValue::integer(1)); break;
          case 2: m = MValue::array(); m.a.push_back(MValue::str("first")); m.a.push_back(MValue::str(s)); break;
          default: m = MValue::object(); m.o.emplace_back(s, MValue::str(s)); break;
        }
        if (fmt) in = refmp::encode(m);
        else { refjson::PrintOpt po; in = refjson::printDoc(m, po); }
        std::string key = "ledger:" + cfg + "|fmt=" + (fmt ? "msgpack" : "json") + "|role=" + std::to_string(role) + "|strlen=" + std::to_string(n);
        C.begin(key);
        one(C, fmt != 0, in, key, n <= maxLen ? 1 : 0);
        // the same input cut in the middle of the string and just before its end
        if (in.size() > 3) {
          one(C, fmt != 0, in.substr(0, in.size() / 2), key + "|cut=half", -1);
          one(C, fmt != 0, in.substr(0, in.size() - 2), key + "|cut=end-2", -1);
        }
        if (n > 31) C.nontrivial();
        C.end();
      }
    }
  }
  // ---- 2. hostile MessagePack headers: huge announced lengths / counts followed by little data
  {
    std::vector<std::string> heads;
    for (unsigned code : {0xdbu, 0xc6u, 0xc9u, 0xddu, 0xdfu})
      for (uint32_t len : {0xFFFFFFFFu, 0x7FFFFFFFu, 0x00010000u, 0x0000FFFFu, 0x00010001u, 0x80000000u}) {
        std::string h;
        h.push_back(char(code));
        refmp::be(h, len, 4);
        heads.push_back(h);
      }
    for (unsigned code : {0xdau, 0xc5u, 0xc8u, 0xdcu, 0xdeu})
      for (uint32_t len : {0xFFFFu, 0x8000u, 0x0100u}) {
        std::string h;
        h.push_back(char(code));
        refmp::be(h, len, 2);
        heads.push_back(h);
      }
    for (auto& h : heads) {
      for (size_t tail : {size_t(0), size_t(1), size_t(5), size_t(300)}) {
        if (!C.take()) continue;
        std::string in = h + std::string(tail, '\xa1');
        std::string key = "ledger:" + cfg + "|fmt=msgpack|hostile=" + hex(h) + "|tail=" + std::to_string(tail);
        C.begin(key);
        one(C, true, in, key, -1);
        one(C, true, std::string("\x92", 1) + in, key + "|in-array", -1);
        C.nontrivial();
        C.end();
      }
    }
  }
  // ---- 3. all 1- and 2-byte (thorough: header-led 3-byte) MessagePack strings
  {
    uint32_t top = T ? 256 + 65536 + 65536 * 64 : 256 + 65536;
    for (uint32_t v = 0; v < top; v++) {
      if (C.expired()) break;
      if (!C.take()) continue;
      std::string b;
      if (v < 256) b.push_back(char(v));
      else if (v < 256 + 65536) { b.push_back(char((v - 256) >> 8)); b.push_back(char((v - 256) & 255)); }
      else {
        uint32_t w = v - 256 - 65536;  // 64 header bytes x 65536
        static const unsigned char hs[64] = {0x80,0x81,0x82,0x8f,0x90,0x91,0x92,0x9f,0xa0,0xa1,0xa2,0xa3,0xbf,0xc4,0xc5,0xc6,0xc7,0xc8,0xc9,0xd4,0xd5,0xd6,0xd7,0xd8,0xd9,0xda,0xdb,0xdc,0xdd,0xde,0xdf,0xc1,
                                             0xca,0xcb,0xcc,0xcd,0xce,0xcf,0xd0,0xd1,0xd2,0xd3,0x83,0x93,0xa4,0xb0,0x8e,0x9e,0xbe,0x00,0x7f,0xe0,0xff,0xc0,0xc2,0xc3,0x84,0x94,0xa5,0xb1,0x85,0x95,0xa6,0xb2};
        b.push_back(char(hs[w >> 16]));
        b.push_back(char((w >> 8) & 255));
        b.push_back(char(w & 255));
      }
      std::string key = "ledger:" + cfg + "|fmt=msgpack|bytes=" + hex(b);
      C.begin(key);
      one(C, true, b, key, -1);
      C.end();
    }
  }
  // ---- 4. small generated JSON documents (duplicate strings, nested containers)
  {
    TreeGen G;
    G.leavesTop = {MValue::null(), MValue::integer(42), MValue::str("k"), MValue::str(std::string(40, 'y')), MValue::integer(-70000000000LL)};
    G.keys = {"k", "a", std::string(40, 'y')};
    G.dupKeys = true;
    G.upTo(T ? 4 : 3, [&](const MValue& t) {
      if (C.expired()) return;
      if (!C.take()) return;
      refjson::PrintOpt po;
      std::string in = refjson::printDoc(t, po), key = "ledger:" + cfg + "|fmt=json|doc=" + vis(in).substr(0, 200);
      C.begin(key);
      one(C, false, in, key, 1);
      one(C, true, refmp::encode(t), key + "|as=msgpack", 1);
      if (t.kind == MValue::Arr || t.kind == MValue::Obj) C.nontrivial();
      C.end();
    });
  }
  // ---- 5. one copied string shared by N users (reference count width), then one user goes away
  {
    std::vector<size_t> counts = {2, 3, 254, 255, 256, 257, 300, 65534, 65535, 65536, 65537};
    for (size_t N : counts) {
      if (sizeof(detail::SlotId) == 1 && N > 250) continue;  // more users than slots: not a history below the limits
      if (sizeof(detail::SlotId) == 2 && N > 65000) continue;
      for (int how = 0; how < 3; how++) {
        if (!C.take()) continue;
        std::string key = "ledger:" + cfg + "|shared-string-users=" + std::to_string(N) + "|then=" + (how == 0 ? "remove-first" : how == 1 ? "overwrite-last" : "remove-all-but-one");
        C.begin(key);
        Capped A;
        std::string problems;
        {
          JsonDocument doc(&A);
          JsonArray arr = doc.to<JsonArray>();
          bool ok = true;
          for (size_t i = 0; i < N && ok; i++) ok = arr.add(std::string("shared-value"));
          if (!ok) problems += "could not store " + std::to_string(N) + " users; ";
          size_t blocksBefore = A.live.size();
          if (how == 0) arr.remove(size_t(0));
          else if (how == 1) arr[N - 1].set(7);
          else for (size_t i = 0; i + 1 < N; i++) arr.remove(size_t(0));
          // every remaining user still reads the string (touching a released block is an ASan report)
          size_t readers = 0;
          for (JsonVariantConst v : arr)
            if (v.is<const char*>()) { if (v.as<std::string>() != "shared-value") problems += "a remaining user reads other bytes; "; readers++; }
          size_t expectReaders = how == 2 ? 1 : N - 1;
          if (ok && readers != expectReaders) problems += "expected " + std::to_string(expectReaders) + " remaining users, found " + std::to_string(readers) + "; ";
          // while users remain the string block must still be live: there is exactly one block that is not a pool / pool table
          if (ok && A.live.size() > blocksBefore) problems += "blocks appeared while removing users; ";
          problems += A.takeErrors();
          doc.clear();
          if (!A.live.empty()) problems += "blocks live after clear(); ";
        }
        if (!A.live.empty()) problems += "blocks live after destruction; ";
        problems += A.takeErrors();
        if (!problems.empty()) C.failKey(key, "shared-string", problems);
        C.nontrivial();
        C.end();
      }
    }
  }
  C.metrics["deserializer_inputs_on_ledger"] += double(C.evaluations);
  C.bound("deserializer inputs on a ledger allocator: string/key lengths " + std::string(maxLen <= 255 ? "0..3*max+5 (all)" : "28 boundary lengths up to 3*max") +
          " x 4 roles x JSON/MessagePack (+2 truncations each); 45 hostile MessagePack headers x 4 tails; all 1-2 byte" + (T ? " and 64x65536 header-led 3-byte" : "") +
          " MessagePack strings; generated JSON trees <= " + (T ? "4" : "3") + " nodes; string length size " + std::to_string(ARDUINOJSON_STRING_LENGTH_SIZE));
}
}  // namespace ix_ledger
