// C12 — Numbers survive text: exact integers, bounded error, never a wrong magnitude.
//
// Bounded exhaustive enumeration of number literals (mode "parse") and of binary
// floating point / integer values (mode "print") against an independent oracle:
//   * exact decimal bookkeeping on the literal itself (sign, position of the leading
//     significant digit, count of significant digits, is-it-a-power-of-ten) decides the
//     range class of the literal with NO rounding at the 1e-300 / 1e300 borders;
//   * glibc strtold (correctly rounded, 64-bit significand) gives the reference value
//     for the error bounds (its own error, 2^-64, is 7 orders below the tightest bound);
//   * unsigned __int128 gives the exact value of integer literals.
//
// Reading of the statement (every choice is the one that is WEAKEST for the library):
//   R1  "more than seven significant digits": digits of the mantissa after stripping
//       leading AND trailing zeros (the decimal point is ignored).  12345678 -> 8,
//       123456700000 -> 7, 0.00012345678 -> 8, 10000000 -> 1.
//   R2  in range (1e-300 <= |v| <= 1e300, decided exactly): result must be finite, have
//       the sign of the literal and |r-v| <= tol*|v|, tol = 1e-13 if R1 says >7 else 1e-6.
//   R3  above 1e300: +/-inf with the right sign, OR a finite value within tol (so every
//       value up to DBL_MAX*(1+tol) may stay finite; beyond that only inf is possible).
//   R4  below 1e-300 (and not a zero literal): +/-0, OR within tol*|v| + half a denormal
//       ulp (correct rounding into the denormals is never flagged).  The sign of a zero
//       result is not checked.
//   R5  as<float>(): the same rules scaled to the float format (FLT_MIN/FLT_MAX instead of
//       1e-300/1e300 as the borders between R2/R3/R4), always with the 1e-6 bound plus the
//       unavoidable half ulp of the destination (2^-24 relative).
//   R6  integer literal (no '.', no exponent) in [-2^63, 2^64), any number of leading
//       zeros: as<int64_t>() / as<uint64_t>() are exact whenever the type can hold the value
//       (what the other type returns is C13's business and not examined here); inside a
//       document the value prints back as the canonical digits.
//   R7  print: for 1e-300 <= |x| <= 1e300 the text is an RFC 8259 number and
//       |strtold(text) - x| <= 1e-6*max(1,|x|) (x given as float) or 1e-9*max(1,|x|) (x given
//       as double).  Values outside that range (0, inf, NaN, denormal doubles) are executed
//       but not judged.  Integers print digit-exact.
//
// Case keys:
//   parse:lit=<literal>|via=<doc|top|str>|T=<double|float|int64|uint64|text>
//       doc = "[lit]", top = the bare literal as the whole input, str = as<T>() on a string
//       value; T=text = what serializeJson prints for the parsed integer.  A literal longer
//       than 63 characters has every run of >= 8 equal characters written (<char>x<count>):
//       1(0x600) is 1 followed by 600 zeros, 0.(0x511)1, (9x700), 1(0x162)e-162.
//   print:<float|double>:<hex bits>          print:<int64|uint64|int32|uint32>:<hex bits>
//   block loops journal print:float:<hhhh>0000-<hhhh>ffff (and print:double:<see>[0000-ffff]<fill>,
//   print:double-of-float:...) but report every failing value under its own print:<type>:<bits> key.
//
// String values are stored both as owned (std::string) and as linked (const char*) strings.
#pragma once
#include <ArduinoJson.h>

#include <cerrno>
#include <cfloat>
#include <algorithm>
#include <cmath>

#include "common.hpp"

namespace nx_numtext {
using namespace ArduinoJson;
using verif::Ctx;
typedef unsigned __int128 u128;

// ------------------------------------------------------------------------------------------
// small helpers

inline std::string u128str(u128 v) {
  if (v == 0) return "0";
  std::string r;
  while (v) {
    r.insert(r.begin(), char('0' + int(v % 10)));
    v /= 10;
  }
  return r;
}

// Case-key rendering of a literal: verbatim when it can appear in a document (<= 63
// characters); longer literals have every maximal run of >= 8 equal characters written as
// (<char>x<count>), e.g. 1 followed by 600 zeros = "1(0x600)".
inline std::string keyLit(const std::string& s) {
  if (s.size() <= 63) return s;
  std::string r;
  for (size_t i = 0; i < s.size();) {
    size_t j = i;
    while (j < s.size() && s[j] == s[i]) j++;
    if (j - i >= 8) {
      r += "(";
      r.push_back(s[i]);
      r += "x" + std::to_string(j - i) + ")";
    } else {
      r.append(s, i, j - i);
    }
    i = j;
  }
  return r;
}

template <typename... A>
inline std::string fmt(const char* f, A... a) {
  char buf[512];
  snprintf(buf, sizeof buf, f, a...);
  return buf;
}

// ------------------------------------------------------------------------------------------
// exact analysis of a literal of the grammar  -? digits [ . digits ] [ (e|E) [+-] digits ]

enum Cls { ZERO = 0, IN = 1, HIGH = 2, LOW = 3 };
static const char* kClsName[] = {"zero", "in", "high", "low"};

struct Lit {
  std::string text;
  bool wellFormed = false;
  bool neg = false, hasPoint = false, hasExp = false;
  bool zero = true;     // every mantissa digit is 0
  bool pow10 = false;   // exactly one non-zero digit and it is 1
  bool isInt = false;   // no '.' and no exponent
  bool intInRange = false;  // isInt and value in [-2^63, 2^64)
  u128 mag = 0;         // |value| when isInt and it has at most 38 significant digits
  bool magKnown = false;
  long exp10 = 0;       // the written exponent (saturated at +-10^9)
  long p = 0;           // decimal exponent of the leading significant digit: 10^p <= |v| < 10^(p+1)
  long nsig = 0;        // R1
  Cls cls = ZERO;
  bool valued = false;
  long double v = 0;    // strtold(text)
};

inline Lit analyze(const std::string& t) {
  Lit L;
  L.text = t;
  size_t i = 0, n = t.size();
  if (i < n && t[i] == '-') {
    L.neg = true;
    i++;
  }
  size_t i0 = i;
  while (i < n && t[i] >= '0' && t[i] <= '9') i++;
  size_t intLen = i - i0;
  if (intLen == 0) return L;
  size_t f0 = i, fracLen = 0;
  if (i < n && t[i] == '.') {
    L.hasPoint = true;
    i++;
    f0 = i;
    while (i < n && t[i] >= '0' && t[i] <= '9') i++;
    fracLen = i - f0;
    if (fracLen == 0) return L;
  }
  if (i < n && (t[i] == 'e' || t[i] == 'E')) {
    L.hasExp = true;
    i++;
    bool eneg = false;
    if (i < n && (t[i] == '+' || t[i] == '-')) {
      eneg = t[i] == '-';
      i++;
    }
    size_t e0 = i;
    long e = 0;
    while (i < n && t[i] >= '0' && t[i] <= '9') {
      if (e < 1000000000L) e = e * 10 + (t[i] - '0');
      i++;
    }
    if (i == e0) return L;
    L.exp10 = eneg ? -e : e;
  }
  if (i != n) return L;
  L.wellFormed = true;
  // digit k of the concatenation intDigits ++ fracDigits
  auto digit = [&](size_t k) -> char { return k < intLen ? t[i0 + k] : t[f0 + (k - intLen)]; };
  size_t total = intLen + fracLen, first = total, last = 0;
  for (size_t k = 0; k < total; k++)
    if (digit(k) != '0') {
      if (first == total) first = k;
      last = k;
    }
  L.isInt = !L.hasPoint && !L.hasExp;
  if (first == total) {
    L.zero = true;
    L.cls = ZERO;
    if (L.isInt) {
      L.magKnown = true;
      L.intInRange = true;
    }
    return L;
  }
  L.zero = false;
  L.nsig = long(last - first + 1);
  L.pow10 = L.nsig == 1 && digit(first) == '1';
  L.p = long(intLen) - 1 - long(first) + L.exp10;
  if (L.p >= -300 && (L.p < 300 || (L.p == 300 && L.pow10)))
    L.cls = IN;
  else
    L.cls = L.p >= 300 ? HIGH : LOW;
  if (L.isInt && intLen - first <= 38) {
    u128 m = 0;
    for (size_t k = first; k < intLen; k++) m = m * 10 + u128(t[i0 + k] - '0');
    L.mag = m;
    L.magKnown = true;
    L.intInRange = L.neg ? m <= (u128(1) << 63) : m < (u128(1) << 64);
  }
  return L;
}

// reference value; also cross-checks the exact bookkeeping against strtold (guards the oracle)
inline void evaluate(Ctx& C, Lit& L) {
  if (L.valued) return;
  L.valued = true;
  errno = 0;
  L.v = strtold(L.text.c_str(), nullptr);
  if (L.zero) {
    if (L.v != 0) C.fail("oracle-selfcheck", "zero literal but strtold != 0");
    return;
  }
  long double a = fabsl(L.v);
  if (std::isinf(a)) {
    if (L.p < 4931) C.fail("oracle-selfcheck", fmt("strtold=inf but p=%ld", L.p));
  } else if (a == 0) {
    if (L.p > -4950) C.fail("oracle-selfcheck", fmt("strtold=0 but p=%ld", L.p));
  } else if (a >= LDBL_MIN) {
    long q = long(floorl(log10l(a)));
    // 9.99..9 may round up to 10^(p+1); log10l may be off by one ulp next to a power of ten
    if (q != L.p && q != L.p + 1 && q != L.p - 1) C.fail("oracle-selfcheck", fmt("log10(strtold)=%ld but p=%ld", q, L.p));
    if (q != L.p) {
      long double r = a / powl(10.0L, (long double)L.p);
      if (r < 0.9999999L || r > 10.0000001L) C.fail("oracle-selfcheck", fmt("strtold/10^p=%Lg", r));
    }
  }
  if (L.magKnown && L.mag < (u128(1) << 64)) {
    if (a != (long double)(uint64_t)L.mag) C.fail("oracle-selfcheck", "strtold != exact integer");
  }
}

inline long double tolOf(const Lit& L) { return L.nsig > 7 ? 1e-13L : 1e-6L; }

// ------------------------------------------------------------------------------------------
// judges; return "" when the result is acceptable, else the violated clause (detail in `why`)

struct Judged {
  std::string clause, why, kind;  // kind: zero / finite / inf / nan
  long double rel = 0;            // relative error when finite and v != 0
  int rule = ZERO;                // which of R2 (IN) / R3 (HIGH) / R4 (LOW) judged the result
};

template <typename F>
inline Judged judgeFloating(const Lit& L, F r, long double tol, long double lowBorder, long double highBorder,
                            long double halfDenormUlp) {
  Judged J;
  long double v = L.v, a = fabsl(v), R = r;
  J.kind = std::isnan(r) ? "nan" : std::isinf(r) ? "inf" : r == 0 ? "zero" : "finite";
  auto detail = [&](const char* what) {
    return fmt("%s: got %.17Lg, literal value %.21Lg (class %s, %ld significant digits, tol %.0Le)", what, R, v,
               kClsName[L.cls], L.nsig, tol);
  };
  if (std::isnan(r)) {
    J.clause = "nan";
    J.why = detail("NaN");
    return J;
  }
  if (L.zero) {
    if (r != 0) {
      J.clause = "zero-literal";
      J.why = detail("zero literal parsed to non-zero");
    }
    return J;
  }
  if (r != 0 && std::signbit(r) != L.neg) {
    J.clause = "sign";
    J.why = detail("wrong sign");
    return J;
  }
  long double err = std::isinf(r) ? INFINITY : fabsl(R - v);
  bool close = !std::isinf(r) && !std::isinf(a) && err <= tol * a;
  if (!std::isinf(r) && !std::isinf(a) && a != 0) J.rel = err / a;
  // which rule applies (R2/R3/R4), the borders are exact for the double rules (L.cls) and
  // by value for the float rules
  int& rule = J.rule;
  if (lowBorder == 0)
    rule = L.cls;  // double: exact decimal classification
  else
    rule = a > highBorder ? HIGH : a < lowBorder ? LOW : IN;
  if (rule == IN) {
    if (close) return J;
    if (std::isinf(r)) {
      J.clause = "inrange-inf";
      J.why = detail("in-range literal became infinite");
    } else if (r == 0) {
      J.clause = "inrange-zero";
      J.why = detail("in-range literal became zero");
    } else if (err > 0.5L * a) {
      J.clause = "inrange-magnitude";
      J.why = detail("finite value of the wrong magnitude");
    } else {
      J.clause = tol < 1e-9L ? "inrange-error-1e-13" : "inrange-error-1e-6";
      J.why = detail("error above the bound") + fmt(" relerr=%.3Le", J.rel);
    }
    return J;
  }
  if (rule == HIGH) {
    if (std::isinf(r) || close) return J;
    J.clause = "huge-not-inf";
    J.why = detail("literal above the range is neither infinite nor within the bound");
    return J;
  }
  // LOW
  if (r == 0 || (!std::isinf(r) && err <= tol * a + halfDenormUlp)) return J;
  J.clause = "tiny-not-zero";
  J.why = detail("literal below the range is neither zero nor within the bound");
  return J;
}

inline Judged judgeDouble(const Lit& L, double r) {
  return judgeFloating<double>(L, r, tolOf(L), 0, 0, ldexpl(1.01L, -1075));
}
inline Judged judgeFloat(const Lit& L, float r) {
  return judgeFloating<float>(L, r, 1e-6L + ldexpl(1.0L, -24), (long double)FLT_MIN, (long double)FLT_MAX,
                              ldexpl(1.01L, -150));
}

// ------------------------------------------------------------------------------------------
// observation

enum Via { DOC = 0, TOP = 1, STR = 2, LNK = 3 };
static const char* kViaName[] = {"doc", "top", "str", "lnk"};
enum Ty { T_DOUBLE = 0, T_FLOAT = 1, T_INT64 = 2, T_UINT64 = 3, T_TEXT = 4 };
static const char* kTyName[] = {"double", "float", "int64", "uint64", "text"};

struct Observed {
  bool ok = false;
  std::string why;
  double d = 0;
  float f = 0;
  int64_t i = 0;
  uint64_t u = 0;
  std::string text;
};

inline Observed observe(const std::string& lit, Via via, Ty ty) {
  Observed O;
  JsonDocument doc;
  JsonVariantConst v;
  if (via == STR || via == LNK) {
    if (via == STR) doc.set(lit);  // std::string: copied, stored as an owned string
    else doc.set(static_cast<const char*>(lit.c_str()));  // const char*: kept by address (no length limit)
    v = doc.as<JsonVariantConst>();
    if (!v.is<const char*>() || v.as<JsonString>().isLinked() != (via == LNK)) {
      O.why = "string-not-stored";
      return O;
    }
  } else {
    std::string text = via == DOC ? "[" + lit + "]" : lit;
    DeserializationError err = deserializeJson(doc, text.c_str());
    if (err) {
      O.why = std::string("rejected:") + err.c_str();
      return O;
    }
    if (via == DOC) v = doc[0];
    else v = doc.as<JsonVariantConst>();
    if (!v.is<double>()) {
      O.why = "rejected:not-a-number";
      return O;
    }
  }
  O.ok = true;
  switch (ty) {
    case T_DOUBLE: O.d = v.as<double>(); break;
    case T_FLOAT: O.f = v.as<float>(); break;
    case T_INT64: O.i = v.as<int64_t>(); break;
    case T_UINT64: O.u = v.as<uint64_t>(); break;
    case T_TEXT: serializeJson(doc, O.text); break;
  }
  return O;
}

// ------------------------------------------------------------------------------------------
// one literal = up to 3 vias x 5 types; all cases of a literal go to the same shard

struct ParseStats {
  uint64_t literals = 0, nontrivialCases = 0;
  long double maxRel6 = 0, maxRel13 = 0, maxRelF = 0;
};

inline bool literalIsNontrivial(const Lit& L) {
  // anything but a short canonical non-negative integer
  if (!L.isInt || L.neg) return true;
  if (L.text.size() > 1 && L.text[0] == '0') return true;
  return L.text.size() >= 10;
}

inline void runLiteral(Ctx& C, ParseStats& S, const std::string& text, unsigned viaMask, unsigned tyMask,
                       uint64_t ntHash) {
  uint64_t litNo = S.literals++;
  Lit L = analyze(text);
  if (!L.wellFormed) {
    // generator bug: must never happen
    if (C.takeByHash(litNo)) {
      C.begin("parse:lit=" + keyLit(text) + "|via=none|T=none");
      C.fail("oracle-selfcheck", "generator produced a literal outside the grammar");
      C.end();
    }
    return;
  }
  bool nt = literalIsNontrivial(L);
  for (int via = 0; via < 4; via++) {
    if (!(viaMask & (1u << via))) continue;
    if (via <= TOP && text.size() > 63) continue;       // statement: up to 63 characters in a document
    if (via == STR && text.size() > 65535) continue;    // longest string a document can hold (C19)
    for (int ty = 0; ty < 5; ty++) {
      if (!(tyMask & (1u << ty))) continue;
      if (ty == T_INT64 && !(L.isInt && L.intInRange && (L.neg ? true : L.mag < (u128(1) << 63)))) continue;
      if (ty == T_UINT64 && !(L.isInt && L.intInRange && (!L.neg || L.mag == 0))) continue;
      if (ty == T_TEXT && !(via == DOC && L.isInt && L.intInRange)) continue;
      if (via == LNK && ty == T_TEXT) continue;
      if (!C.takeByHash(litNo)) continue;
      C.begin("parse:lit=" + keyLit(text) + "|via=" + kViaName[via] + "|T=" + kTyName[ty]);
      evaluate(C, L);
      Observed O = observe(text, Via(via), Ty(ty));
      std::string oc = std::string(kClsName[L.cls]) + ":" + kViaName[via] + ":" + kTyName[ty] + ":";
      if (!O.ok) {
        if (O.why == "string-not-stored") {
          C.outcome(oc + "string-not-stored");
        } else {
          C.fail("rejected", "valid literal " + O.why);
          C.outcome(oc + "rejected");
        }
        C.end();
        continue;
      }
      switch (ty) {
        case T_DOUBLE: {
          Judged J = judgeDouble(L, O.d);
          if (!J.clause.empty()) C.fail(J.clause, J.why);
          else if (L.cls == IN) {
            if (L.nsig > 7) S.maxRel13 = std::max(S.maxRel13, J.rel);
            else S.maxRel6 = std::max(S.maxRel6, J.rel);
          }
          C.outcome(oc + J.kind);
          break;
        }
        case T_FLOAT: {
          Judged J = judgeFloat(L, O.f);
          if (!J.clause.empty()) C.fail("float-" + J.clause, J.why);
          else if (J.rule == IN) S.maxRelF = std::max(S.maxRelF, J.rel);
          C.outcome(oc + J.kind);
          break;
        }
        case T_INT64: {
          int64_t want = L.neg ? int64_t(~uint64_t(L.mag) + 1) : int64_t(L.mag);
          if (O.i != want) C.fail("int-exact", fmt("as<int64_t>() = %lld, literal is %lld", (long long)O.i, (long long)want));
          C.outcome(oc + (O.i == want ? "exact" : "wrong"));
          break;
        }
        case T_UINT64: {
          uint64_t want = uint64_t(L.mag);
          if (O.u != want)
            C.fail("int-exact", fmt("as<uint64_t>() = %llu, literal is %llu", (unsigned long long)O.u, (unsigned long long)want));
          C.outcome(oc + (O.u == want ? "exact" : "wrong"));
          break;
        }
        case T_TEXT: {
          std::string want = "[" + std::string(L.neg && L.mag != 0 ? "-" : "") + u128str(L.mag) + "]";
          if (O.text != want) C.fail("int-print", "document prints " + O.text + ", want " + want);
          C.outcome(oc + (O.text == want ? "exact" : "wrong"));
          break;
        }
      }
      if (nt) {
        S.nontrivialCases++;
        C.nontrivial(ntHash ? ntHash : verif::fnv1a(C.curKey));
      }
      C.end();
    }
  }
}

static const unsigned VIA_ALL = 15, VIA_DOC_STR = 13, VIA_STR = 12;  // the string routes: copied (owned) and linked
static const unsigned TY_ALL = 31, TY_FLOATING = 3;

// ------------------------------------------------------------------------------------------
// the integer boundary values shared by parse family (a) and print family (i)

inline std::vector<u128> boundaryIntegers() {
  std::set<u128> s;
  auto around = [&](u128 b, int w) {
    for (int d = -w; d <= w; d++) {
      if (d < 0 && b < u128(-d)) continue;
      s.insert(b + u128(d));
    }
  };
  for (int k = 0; k <= 64; k++) around(u128(1) << k, 2);
  u128 t = 1;
  for (int k = 0; k <= 20; k++) {
    around(t, 2);
    t *= 10;
  }
  for (int d = 0; d <= 20; d++) s.insert((u128(1) << 64) + u128(d));
  // type limits and a few ordinary values
  for (u128 x : {u128(0), u128(7), u128(42), u128(255), u128(32767), u128(65535), u128(123456789), u128(2147483647),
                 u128(4294967295ULL), u128(9007199254740993ULL), u128(1234567890123456789ULL)})
    s.insert(x);
  return std::vector<u128>(s.begin(), s.end());
}

// ------------------------------------------------------------------------------------------
// parse families

inline void parseFamilyA(Ctx& C, ParseStats& S) {
  static const int zeros[] = {0, 1, 2, 3, 10, 40, 100, 1000};
  for (u128 v : boundaryIntegers()) {
    std::string digits = u128str(v);
    for (int neg = 0; neg < 2; neg++)
      for (int z : zeros) {
        std::string lit = (neg ? "-" : "") + std::string(size_t(z), '0') + digits;
        runLiteral(C, S, lit, VIA_ALL, TY_ALL, 0);
      }
    // padded with leading zeros to exactly 61, 62 and 63 characters: the longest literals a document may hold
    for (int neg = 0; neg < 2; neg++)
      for (size_t total : {size_t(61), size_t(62), size_t(63)}) {
        size_t used = digits.size() + size_t(neg);
        if (used >= total) continue;
        std::string lit = (neg ? "-" : "") + std::string(total - used, '0') + digits;
        runLiteral(C, S, lit, VIA_ALL, TY_ALL, 0);
      }
  }
  C.bound("parse(a): every integer within 2 of 2^k (k<=64) and of 10^k (k<=20), 2^64..2^64+20, both signs, "
          "0/1/2/3/10/40/100/1000 leading zeros and padded to exactly 61/62/63 characters; as [lit], top-level and as a string value");
}

inline std::vector<std::string> mantissas() {
  std::vector<std::string> m = {
      "1", "9", "15", "123", "1234567", "12345678", "99999999", "8388607", "8388608", "4503599627370495", "4503599627370496",
      "18446744073709551615", "18446744073709551616",
      // zero mantissas; 2^24, 2^31, 2^32, 2^53, 2^63 and neighbours; the overflow guards of the mantissa loop
      "0", "00", "16777216", "16777217", "2147483648", "4294967295", "4294967296", "9007199254740993", "9223372036854775807",
      "9223372036854775808", "1844674407370955161", "1844674407370955162", "18446744073709551610", "18446744073709551620",
      // digits of FLT_MAX, DBL_MAX, DBL_MIN, the smallest denormal and half of it, and neighbours
      "34028234", "34028235", "34028236", "17976931348623157", "17976931348623158", "17976931348623159", "22250738585072014",
      "49406564584124654", "24703282292062327", "24703282292062328"};
  for (int len = 1; len <= 40; len++) {
    m.push_back("1" + std::string(size_t(len - 1), '0'));
    m.push_back(std::string(size_t(len), '9'));
    std::string run;
    for (int i = 0; i < len; i++) run.push_back(char('0' + (i + 1) % 10));
    m.push_back(run);
  }
  std::vector<std::string> out;
  std::set<std::string> seen;
  for (auto& x : m)
    if (seen.insert(x).second) out.push_back(x);
  return out;
}

struct Spelling {
  char e;
  const char* sign;
  int zeros;
};

inline std::vector<Spelling> spellingsFor(int exp) {
  std::vector<Spelling> r;
  for (char e : {'e', 'E'})
    for (int z = 0; z < 3; z++) {
      if (exp < 0) {
        r.push_back({e, "-", z});
      } else {
        r.push_back({e, "", z});
        r.push_back({e, "+", z});
        if (exp == 0) r.push_back({e, "-", z});
      }
    }
  return r;
}

inline std::string withSplit(const std::string& m, size_t s) {
  size_t L = m.size();
  if (s == 0) return "0." + m;
  if (s < L) return m.substr(0, s) + "." + m.substr(s);
  if (s == L) return m;
  return m + ".0";
}

// (b) mantissa x split x exponent x spelling.  quick: one spelling and one mantissa sign per
// (mantissa, split, exponent), rotating through all of them; thorough: all spellings, both signs.
inline void parseFamilyB(Ctx& C, ParseStats& S) {
  const bool T = C.thorough();
  std::vector<std::string> ms = mantissas();
  uint64_t grid = 0;
  for (size_t mi = 0; mi < ms.size(); mi++) {
    const std::string& m = ms[mi];
    std::set<std::string> bodies;
    for (size_t s = 0; s <= m.size() + 1; s++) {
      std::string body = withSplit(m, s);
      if (!bodies.insert(body).second) continue;  // "0" -> 0.0 twice
      if (C.expired()) {
        C.note("parse(b) stopped by the deadline at mantissa #" + std::to_string(mi));
        return;
      }
      for (int exp = -341; exp <= 340; exp++) {  // -341 stands for "no exponent part"
        grid++;
        uint64_t h = verif::fnv1a(&grid, sizeof grid, 0xb12);
        if (exp == -341) {
          for (int neg = 0; neg < 2; neg++) runLiteral(C, S, (neg ? "-" : "") + body, VIA_DOC_STR, TY_ALL, h + uint64_t(neg));
          continue;
        }
        std::vector<Spelling> sp = spellingsFor(exp);
        int absExp = exp < 0 ? -exp : exp;
        auto emit = [&](const Spelling& q, int neg) {
          std::string lit = (neg ? "-" : "") + body;
          lit.push_back(q.e);
          lit += q.sign;
          lit.append(size_t(q.zeros), '0');
          lit += std::to_string(absExp);
          runLiteral(C, S, lit, VIA_DOC_STR, TY_FLOATING, h + uint64_t(neg));
        };
        if (T) {
          for (auto& q : sp)
            for (int neg = 0; neg < 2; neg++) emit(q, neg);
        } else {
          emit(sp[grid % sp.size()], 0);
          emit(sp[(grid / 7 + 1 + grid) % sp.size()], 1);
        }
      }
    }
  }
  C.bound(std::string("parse(b): ") + std::to_string(ms.size()) +
          " mantissas (zero, type limits and guard boundaries + every length 1..40 of 10..0, 9..9, 1234567890..) x decimal point at every "
          "position (0.m .. m .. m.0) x every exponent -340..340 and none x " +
          (T ? "every spelling (e/E, +/-/none, 0..2 leading zeros) x both signs" : "both signs, each with one spelling rotating through all (e/E, +/-/none, 0..2 leading zeros)") +
          "; as [lit] (<= 63 characters) and as a string value; as<double>, as<float>");
}

// (c) long digit runs, only through as<T>() on a string value
//   P  1 0{n}            = 10^n            Q  0. 0{n} 1          = 10^-(n+1)
//   R  1 0{n} e-n        = 1               S  0. 0{n} 1 e(n+1)   = 1
//   U  1 0{n} e-(n-100)  = 10^100          W  9{n}               ~ 10^n
inline void parseFamilyC(Ctx& C, ParseStats& S) {
  std::set<long> ns;
  for (long n = 0; n <= 1200; n++) ns.insert(n);
  for (int k = 0; k <= 16; k++)
    for (int d = -1; d <= 1; d++) {
      long n = (1L << k) + d;
      if (n >= 0) ns.insert(n);
    }
  ns.insert(65534);  // longest P literal a string value can hold
  ns.insert(65532);  // longest Q literal
  for (long n = 32767 + 14; n <= 32767 + 18; n++) ns.insert(n);  // 16-digit mantissa + int16 offset
  for (long n : ns) {
    std::string Z(size_t(n), '0');
    std::vector<std::string> forms = {"1" + Z, "0." + Z + "1", "1" + Z + "e-" + std::to_string(n),
                                      "0." + Z + "1e" + std::to_string(n + 1)};
    if (n >= 100) forms.push_back("1" + Z + "e-" + std::to_string(n - 100));
    if (n >= 1) forms.push_back(std::string(size_t(n), '9'));
    for (auto& f : forms)
      for (int neg = 0; neg < 2; neg++) runLiteral(C, S, (neg ? "-" : "") + f, VIA_STR, TY_ALL & ~(1u << T_TEXT), 0);
  }
  C.bound("parse(c): 1 0{n}, 0. 0{n} 1, 1 0{n} e-n, 0. 0{n} 1 e(n+1), 1 0{n} e-(n-100), 9{n} through as<T>() on a string value "
          "for every n in 0..1200 and n in {2^k, 2^k+-1 : k <= 16} (clipped to the 65535-character string limit), both signs, "
          "double/float/int64/uint64");
}

// (d) the text of the exponent: every marker spelling, magnitudes across every width the parser's accumulator can meet
//     (3 to 40 digits), leading zeros of the exponent (3 to 65000), zero and non-zero mantissas
inline void parseFamilyD(Ctx& C, ParseStats& S) {
  const char* mants[] = {"0", "0.0", "1", "9.9", "12345678", "0.000001", "1000000000000000000000000000000", "2.5", "12345678.9"};
  const char* signs[] = {"", "+", "-"};
  std::vector<std::string> mags = {"341", "342", "345", "400", "511", "512", "513", "1023", "1024", "4931", "4932", "32767", "32768", "65535", "65536",
                                   "2147483647", "2147483648", "2147483649", "4294967295", "4294967296", "4294967297", "9223372036854775808",
                                   "18446744073709551617", std::string(10, '9'), std::string(19, '9'), std::string(20, '9'), std::string(40, '9')};
  for (int k = 5; k <= 20; k++) {
    std::string p = "1" + std::string(size_t(k), '0');
    mags.push_back(p);
    mags.push_back(std::string(size_t(k), '9'));
    mags.push_back(p.substr(0, p.size() - 1) + "1");
  }
  for (const char* m : mants)
    for (const char* marker : {"e", "E"})
      for (const char* sg : signs)
        for (auto& mag : mags)
          for (int neg = 0; neg < 2; neg++) runLiteral(C, S, std::string(neg ? "-" : "") + m + marker + sg + mag, VIA_ALL, TY_FLOATING, 0);
  // leading zeros of the exponent
  const char* vals[] = {"0", "1", "5", "12", "38", "39", "300", "308", "340"};
  for (size_t z : std::vector<size_t>{3, 4, 5, 6, 7, 8, 9, 10, 11, 12, 17, 18, 19, 20, 40, 57, 100, 255, 256, 1000, 65000})
    for (const char* m : {"1", "-2.5", "12345678.9", "0"})
      for (const char* sg : signs)
        for (const char* v : vals) runLiteral(C, S, std::string(m) + "e" + sg + std::string(z, '0') + v, VIA_ALL, TY_FLOATING, 0);
  C.bound("parse(d): 9 mantissas x {e,E} x {none,+,-} x 75 exponent magnitudes of 3..40 digits (around 2^31, 2^32, 2^63, 2^64, 10^k), both signs; "
          "4 mantissas x 3 signs x 9 exponent values written with 3..65000 leading zeros; document, top-level, owned-string and linked-string routes");
}

inline void runParse(Ctx& C) {
  std::string fam = C.opt("families", "abcd");
  ParseStats S;
  if (fam.find('a') != std::string::npos) parseFamilyA(C, S);
  if (fam.find('c') != std::string::npos) parseFamilyC(C, S);
  if (fam.find('d') != std::string::npos) parseFamilyD(C, S);
  if (fam.find('b') != std::string::npos) parseFamilyB(C, S);
  C.metrics["parse_literals_generated"] = C.shard == 0 ? double(S.literals) : 0;
  C.metrics["parse_nontrivial_cases"] = double(S.nontrivialCases);
  C.maxMetrics["parse_max_relerr_upto7digits"] = double(S.maxRel6);
  C.maxMetrics["parse_max_relerr_over7digits"] = double(S.maxRel13);
  C.maxMetrics["parse_max_relerr_as_float"] = double(S.maxRelF);
}

// ------------------------------------------------------------------------------------------
// print

// RFC 8259 number:  -? (0 | [1-9][0-9]*) (\.[0-9]+)? ([eE][+-]?[0-9]+)?
inline bool isRfcNumber(const char* s, size_t n) {
  size_t i = 0;
  if (i < n && s[i] == '-') i++;
  if (i >= n) return false;
  if (s[i] == '0') {
    i++;
  } else if (s[i] >= '1' && s[i] <= '9') {
    while (i < n && s[i] >= '0' && s[i] <= '9') i++;
  } else {
    return false;
  }
  if (i < n && s[i] == '.') {
    i++;
    size_t j = i;
    while (i < n && s[i] >= '0' && s[i] <= '9') i++;
    if (i == j) return false;
  }
  if (i < n && (s[i] == 'e' || s[i] == 'E')) {
    i++;
    if (i < n && (s[i] == '+' || s[i] == '-')) i++;
    size_t j = i;
    while (i < n && s[i] >= '0' && s[i] <= '9') i++;
    if (i == j) return false;
  }
  return i == n;
}

struct PrintStats {
  uint64_t values = 0, judged = 0, nontrivial = 0, failed = 0;
  long double maxErrF = 0, maxErrD = 0;  // error / max(1,|x|) over the judged, passing values
};

// Print x (set as its own type) and judge the text.  Returns "" or the violated clause.
template <typename F>
inline const char* printOne(JsonDocument& doc, F x, PrintStats& S, char* buf, size_t cap, size_t& len, long double& e) {
  S.values++;
  doc.set(x);
  len = serializeJson(doc, buf, cap - 1);
  buf[len] = 0;
  e = 0;
  long double X = x, a = fabsl(X);
  if (!(a >= 1e-300L && a <= 1e300L)) return "";  // 0, inf, NaN, denormal doubles: not judged
  S.judged++;
  bool plain = true;
  for (size_t i = 0; i < len; i++)
    if (buf[i] == '.' || buf[i] == 'e' || buf[i] == '-') plain = false;
  if (!plain) S.nontrivial++;
  if (!isRfcNumber(buf, len)) return "print-syntax";
  long double t = strtold(buf, nullptr);
  long double scale = a > 1 ? a : 1;
  e = fabsl(t - X) / scale;
  const bool isF = sizeof(F) == 4;
  if (e > (isF ? 1e-6L : 1e-9L)) {
    if (isF) return "print-error-float";
    // sub-class of the double bound: the value is exactly representable as a float
    return double(float(x)) == double(x) ? "print-error-double-floatrep" : "print-error-double";
  }
  if (isF) S.maxErrF = std::max(S.maxErrF, e);
  else S.maxErrD = std::max(S.maxErrD, e);
  return "";
}

inline std::string floatKey(float x) {
  uint32_t b;
  memcpy(&b, &x, 4);
  return fmt("print:float:%08x", b);
}
inline std::string doubleKey(double x) {
  uint64_t b;
  memcpy(&b, &x, 8);
  return fmt("print:double:%016llx", (unsigned long long)b);
}

template <typename F>
inline void printCase(Ctx& C, JsonDocument& doc, PrintStats& S, F x) {
  if (!C.take()) return;
  std::string key = sizeof(F) == 4 ? floatKey(float(x)) : doubleKey(double(x));
  C.begin(key);
  char buf[96];
  size_t len;
  long double e;
  uint64_t nt0 = S.nontrivial;
  const char* clause = printOne(doc, x, S, buf, sizeof buf, len, e);
  if (*clause) {
    S.failed++;
    C.fail(clause, fmt("%s printed as \"%s\": error/max(1,|x|) = %.3Le (x = %.17g)", sizeof(F) == 4 ? "float" : "double", buf, e,
                       double(x)));
  }
  if (C.verbose && !*clause && e > (sizeof(F) == 4 ? 0.9e-6L : 0.9e-9L)) printf("NEAR %s \"%s\" %.3Le\n", key.c_str(), buf, e);
  long double a = fabsl((long double)x);
  const char* range = std::isnan(x) ? "nan" : std::isinf(x) ? "inf" : a == 0 ? "zero" : a < 1e-300L ? "below" : a > 1e300L ? "above" : "in";
  bool hasE = memchr(buf, 'e', len) != nullptr, hasDot = memchr(buf, '.', len) != nullptr;
  C.outcome(std::string("print:") + (sizeof(F) == 4 ? "float:" : "double:") + range + (hasE ? ":exp" : hasDot ? ":frac" : ":int"));
  if (S.nontrivial != nt0) C.nontrivial();
  C.end();
}

// 66 mantissa patterns of a W-bit fraction field
inline std::vector<uint64_t> mantissaPatterns(int W) {
  const uint64_t max = (uint64_t(1) << W) - 1;
  std::vector<uint64_t> r;
  std::set<uint64_t> seen;
  auto add = [&](uint64_t m) {
    m &= max;
    if (r.size() < 66 && seen.insert(m).second) r.push_back(m);
  };
  add(0);
  add(1);
  add(max);
  add(max - 1);
  add(0x5555555555555555ULL);
  add(0xAAAAAAAAAAAAAAAAULL);
  for (int i = 1; i < W; i++) add(uint64_t(1) << i);
  for (int i = W - 1; i >= 2; i--) add((uint64_t(1) << i) - 1);
  for (int i = 1; i < W - 1; i++) add(max - (uint64_t(1) << i));
  for (int i = 1; i < W - 1; i++) add(max << i);
  return r;
}

inline float floatOf(uint32_t b) {
  float x;
  memcpy(&x, &b, 4);
  return x;
}
inline double doubleOf(uint64_t b) {
  double x;
  memcpy(&x, &b, 8);
  return x;
}

// (i) integers print digit-exact
inline void printFamilyI(Ctx& C) {
  JsonDocument doc;
  auto one = [&](const std::string& key, const std::string& want) {
    // doc already holds the value
    std::string text;
    size_t n = serializeJson(doc, text);
    if (text != want) C.fail("print-int", "printed " + text + ", want " + want);
    if (n != text.size()) C.fail("print-int", "returned count differs from the bytes written");
    C.outcome(text == want ? "print:int:exact" : "print:int:wrong");
    if (want.size() >= 10 || want[0] == '-') C.nontrivial();
    (void)key;
  };
  for (u128 v : boundaryIntegers()) {
    std::string digits = u128str(v);
    if (v < (u128(1) << 64)) {
      if (C.take()) {
        C.begin(fmt("print:uint64:%016llx", (unsigned long long)uint64_t(v)));
        doc.set(uint64_t(v));
        one("", digits);
        C.end();
      }
    }
    if (v < (u128(1) << 63)) {
      if (C.take()) {
        C.begin(fmt("print:int64:%016llx", (unsigned long long)uint64_t(v)));
        doc.set(int64_t(v));
        one("", digits);
        C.end();
      }
    }
    if (v <= (u128(1) << 63) && v != 0) {
      int64_t neg = int64_t(~uint64_t(v) + 1);
      if (C.take()) {
        C.begin(fmt("print:int64:%016llx", (unsigned long long)uint64_t(neg)));
        doc.set(neg);
        one("", "-" + digits);
        C.end();
      }
    }
    if (v < (u128(1) << 32)) {
      if (C.take()) {
        C.begin(fmt("print:uint32:%08x", unsigned(v)));
        doc.set(uint32_t(v));
        one("", digits);
        C.end();
      }
    }
    if (v <= (u128(1) << 31) && v != 0) {
      int32_t neg = int32_t(~uint32_t(v) + 1);
      if (C.take()) {
        C.begin(fmt("print:int32:%08x", unsigned(neg)));
        doc.set(neg);
        one("", "-" + digits);
        C.end();
      }
    }
  }
  C.bound("print(i): every boundary integer of parse(a) set as uint64/int64/uint32/int32 (both signs), text compared digit for digit");
}

// (f) float patterns, (g) the same values given as double, (d) double patterns and specials
inline void printFamilyF(Ctx& C, PrintStats& S, bool asDouble) {
  JsonDocument doc;
  std::vector<uint64_t> pats = mantissaPatterns(23);
  for (uint32_t sign = 0; sign < 2; sign++)
    for (uint32_t ex = 0; ex < 255; ex++)
      for (uint64_t m : pats) {
        float x = floatOf((sign << 31) | (ex << 23) | uint32_t(m));
        if (asDouble) printCase<double>(C, doc, S, double(x));
        else printCase<float>(C, doc, S, x);
      }
  C.bound(asDouble ? "print(g): the float pattern set given as double (float-representable doubles)"
                   : "print(f): float: every (sign, exponent 0..254) x 66 mantissa patterns");
}

inline void printFamilyD(Ctx& C, PrintStats& S) {
  JsonDocument doc;
  std::vector<uint64_t> pats = mantissaPatterns(52);
  for (uint64_t sign = 0; sign < 2; sign++)
    for (uint64_t ex = 0; ex < 2047; ex++)
      for (uint64_t m : pats) printCase<double>(C, doc, S, doubleOf((sign << 63) | (ex << 52) | m));
  // powers of ten and their neighbours, integer boundaries and their neighbours, type limits
  std::vector<double> sp;
  auto ulps = [&](double x) {
    sp.push_back(x);
    sp.push_back(std::nextafter(x, INFINITY));
    sp.push_back(std::nextafter(x, -INFINITY));
  };
  for (int k = -323; k <= 308; k++) {
    char b[16];
    snprintf(b, sizeof b, "1e%d", k);
    ulps(strtod(b, nullptr));
  }
  for (int k : {7, 23, 24, 25, 31, 32, 52, 53, 54, 63, 64}) {
    double b = std::ldexp(1.0, k);
    ulps(b);
    for (double d : {-2.0, -1.0, -0.5, 0.5, 1.0, 2.0}) sp.push_back(b + d);
  }
  for (double x : {DBL_MAX, DBL_MIN, 4.9406564584124654e-324, double(FLT_MAX), double(FLT_MIN), double(1.401298464324817e-45),
                   1e7, 9999999.0, 9999999.9999, 1e-5, 0.00001000001, 0.1, 0.2, 0.3, 1.0 / 3, 2.0 / 3, 3.141592653589793,
                   2.718281828459045, 0.999999999, 0.9999999995, 0.99999999949, 9.9999999995, 99999.99999, 999999.9999996,
                   1234567.891, 16777218.0, 123456792.0, 1e300, 1.0000000000000001e300, 9.99999999999e299, 1e-300,
                   9.9999999999999e-301, 1.00000000001e-300, 4294967295.0, 4294967296.5, 2147483647.5})
    ulps(x);
  size_t n = sp.size();
  for (size_t i = 0; i < n; i++) sp.push_back(-sp[i]);
  for (double x : sp) printCase<double>(C, doc, S, x);
  C.bound("print(d): double: every (sign, exponent 0..2046) x 66 mantissa patterns; 10^k and 2^k (k in "
          "7,23,24,25,31,32,52,53,54,63,64) with both neighbours and +-0.5/1/2; type limits; both signs");
}

// Block loops: one journalled case per block of 65536 values; every value is executed and
// counted, failures are reported under the key of the individual value.  Every failing
// value is counted (metric print_values_failed); at most 4 per (block, clause) are matched
// against the known findings and written out, so that a deviation that hits tens of millions
// of values does not cost a regex search each (distinct deviations have distinct clauses).
template <typename F, typename Gen>
inline void printBlocks(Ctx& C, PrintStats& S, char family, uint32_t nBlocks, const std::function<std::string(uint32_t)>& blockKey,
                        Gen gen) {
  JsonDocument doc;
  char buf[96];
  for (uint32_t blk = 0; blk < nBlocks; blk++) {
    if (!C.take()) continue;
    if (C.expired()) {
      C.note(fmt("print(%c) stopped by the deadline at block %u of %u", family, blk, nBlocks));
      return;
    }
    C.begin(blockKey(blk));
    uint64_t nt0 = S.nontrivial, v0 = S.values;
    std::map<std::string, int> perClause;
    for (uint32_t lo = 0; lo < 65536; lo++) {
      F x = gen(blk, lo);
      size_t len;
      long double e;
      const char* clause = printOne<F>(doc, x, S, buf, sizeof buf, len, e);
      if (*clause) {
        S.failed++;
        if (++perClause[clause] <= 4)
          C.failKey(sizeof(F) == 4 ? floatKey(float(x)) : doubleKey(double(x)), clause,
                    fmt("%s printed as \"%s\": error/max(1,|x|) = %.3Le (x = %.17g)", sizeof(F) == 4 ? "float" : "double", buf, e,
                        double(x)));
      }
    }
    C.evaluations += (S.values - v0) - 1;  // begin() counted the block as one
    if (S.nontrivial != nt0) C.nontrivial();
    C.outcome(perClause.empty() ? "print:block:clean" : "print:block:with-failures");
    C.end();
  }
}

// (F) every float value, given as float
inline void printAllFloats(Ctx& C, PrintStats& S) {
  printBlocks<float>(
      C, S, 'F', 65536, [](uint32_t b) { return fmt("print:float:%04x0000-%04xffff", b, b); },
      [](uint32_t b, uint32_t lo) { return floatOf((b << 16) | lo); });
  C.bound("print(F): all 2^32 float values");
}

// (G) float-representable doubles: every (sign, float exponent 0..254) x every value of the
// top 16 mantissa bits x the low 7 bits in {0, all ones, 0x55, 1}, given as double
inline void printFloatGridAsDouble(Ctx& C, PrintStats& S) {
  static const uint32_t fills[4] = {0, 0x7F, 0x55, 1};
  printBlocks<double>(
      C, S, 'G', 4 * 510,
      [](uint32_t b) {
        uint32_t se = b / 4;
        return fmt("print:double-of-float:%03x[0000-ffff]%02x", (se / 255) * 0x100 + se % 255, fills[b & 3]);
      },
      [](uint32_t b, uint32_t lo) {
        uint32_t se = b / 4, sign = se / 255, ex = se % 255;
        return double(floatOf((sign << 31) | (ex << 23) | (lo << 7) | fills[b & 3]));
      });
  C.bound("print(G): float-representable doubles: every (sign, float exponent 0..254) x all 65536 values of the top 16 mantissa "
          "bits x low 7 bits in {0, all ones, 0x55, 1}, given as double");
}

// (D) doubles: every (sign, exponent) x every value of the top 16 mantissa bits x the low 36
// bits all-zero / all-one / 0x555555555 / one  (4 x 4094 blocks of 65536 values)
inline void printDoubleGrid(Ctx& C, PrintStats& S) {
  static const uint64_t fills[4] = {0, 0xFFFFFFFFFULL, 0x555555555ULL, 1};
  printBlocks<double>(
      C, S, 'D', 4 * 4094,
      [](uint32_t b) {
        uint32_t se = b / 4;
        return fmt("print:double:%03x[0000-ffff]%09llx", (se / 2047) * 0x800 + se % 2047, (unsigned long long)fills[b & 3]);
      },
      [](uint32_t b, uint32_t lo) {
        uint64_t se = b / 4, sign = se / 2047, ex = se % 2047;
        return doubleOf((sign << 63) | (ex << 52) | (uint64_t(lo) << 36) | fills[b & 3]);
      });
  C.bound("print(D): double: every (sign, exponent 0..2046) x all 65536 values of the top 16 mantissa bits x low 36 bits in "
          "{0, all ones, 0x555555555, 1}");
}

inline void runPrint(Ctx& C) {
  std::string fam = C.opt("families", "ifgd");
  PrintStats S;
  if (fam.find('i') != std::string::npos) printFamilyI(C);
  if (fam.find('f') != std::string::npos) printFamilyF(C, S, false);
  if (fam.find('g') != std::string::npos) printFamilyF(C, S, true);
  if (fam.find('d') != std::string::npos) printFamilyD(C, S);
  if (fam.find('F') != std::string::npos) printAllFloats(C, S);
  if (fam.find('G') != std::string::npos) printFloatGridAsDouble(C, S);
  if (fam.find('D') != std::string::npos) printDoubleGrid(C, S);
  C.metrics["print_values"] = double(S.values);
  C.metrics["print_values_judged"] = double(S.judged);
  C.metrics["print_values_nontrivial"] = double(S.nontrivial);
  C.metrics["print_values_failed"] = double(S.failed);
  C.maxMetrics["print_max_err_float"] = double(S.maxErrF);
  C.maxMetrics["print_max_err_double"] = double(S.maxErrD);
}

}  // namespace nx_numtext
