#include "ix_stream.hpp"
int main(int argc, char** argv) {
  verif::Ctx C(argc, argv);
  ix_stream::run(C);
  return C.finish();
}
