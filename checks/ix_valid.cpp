#include "ix_valid.hpp"
int main(int argc, char** argv) {
  verif::Ctx C(argc, argv);
  ix_valid::run(C);
  return C.finish();
}
