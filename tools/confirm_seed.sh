#!/bin/bash
# Confirms a seeded change produced in a scratch worktree /tmp/seed/<ID>: the patch is what is applied there, the
# repository's test suite still passes with it, and the demonstration fails with it and passes without it.
# On success the artefacts are copied to /verif/seeded/<ID>/ and the confirmation log is stored next to them.
set -u
ID=$1; NAME=${2:-$1}
W=/tmp/seed/$ID; OUT=/verif/seeded/$NAME
[ -f $W/out/patch.diff ] || { echo "no patch"; exit 2; }
LOG=$(mktemp)
{
echo "== worktree diff equals patch.diff?"; (cd $W && git diff -- src | diff -q - out/patch.diff >/dev/null && echo same || echo "differs (checking that patch applies to clean tree instead)")
cd $W && git apply -R out/patch.diff && git apply --check out/patch.diff && echo "patch applies to clean checkout" ; git apply out/patch.diff
echo "== test suite with the change"; cmake --build $W/_build -j16 2>&1 | tail -1; ctest --test-dir $W/_build -j16 2>&1 | grep -E "tests passed|tests failed"
CMD=$(python3 -c "import json;print(json.load(open('$W/out/meta.json')).get('demo_compile',''))")
echo "== demo compile command: $CMD"
cd $W/out && (eval "$CMD" >/dev/null 2>&1 || g++ -std=c++17 -I$W/src demo.cpp -o demo -pthread) ; DEMO=$(ls -t $W/out | grep -v -E "\.(cpp|json|diff|txt|log)$" | head -1)
echo "== demo WITH the change"; timeout 300 ./$DEMO >/dev/null 2>&1; echo "exit $?"
cd $W && git apply -R out/patch.diff; cd $W/out && (eval "$CMD" >/dev/null 2>&1 || g++ -std=c++17 -I$W/src demo.cpp -o demo -pthread)
echo "== demo WITHOUT the change"; timeout 300 ./$DEMO >/dev/null 2>&1; echo "exit $?"
cd $W && git apply out/patch.diff
} > $LOG 2>&1
cat $LOG
mkdir -p $OUT && cp $W/out/patch.diff $W/out/demo.cpp $W/out/meta.json $OUT/ && cp $LOG $OUT/confirmation.log
rm -f $LOG
