#!/bin/bash
# runs every thorough tier once, one after the other, and prints a one-line verdict each
cd "$(dirname "$0")/.."
for p in C01 C02 C04 C05 C06 C07 C08 C09 C10 C11 C12 C13 C15 C16 C17 C18 C19 C20 C03 C14; do
  [ -f jobs.d/$p.py ] || continue
  s=$(date +%s)
  ./run $p thorough > /tmp/thorough_$p.log 2>&1; rc=$?
  echo "$p thorough exit=$rc $(( $(date +%s) - s ))s :: $(head -1 /tmp/thorough_$p.log | cut -c1-160)"
done
