#!/usr/bin/env python3
"""Prints a markdown table of the committed evidence files (used for DESIGN.md section 11)."""
import json, glob, os
HERE = os.path.dirname(os.path.dirname(os.path.abspath(__file__)))
print("| id | tier | level | evaluations | distinct non-trivial | states / transitions | exhaustive | violations | known findings reproduced | wall s |")
print("|----|------|-------|------------:|--------------------:|----------------------|-----------|-----------:|---------------------------|-------:|")
for f in sorted(glob.glob(os.path.join(HERE, "evidence", "C*.json"))):
    e = json.load(open(f)); c = e["coverage"]
    st = "%s / %s" % (c.get("states", "-"), c.get("transitions", "-")) if "states" in c else "-"
    kf = sum(1 for v in c.get("known_findings_reproduced", {}).values() if v)
    print("| %s | %s | %s | %d | %d | %s | %s | %d | %d | %.0f |" % (e["property_id"], e["tier"], e["level"], c["evaluations"], c["distinct_nontrivial"], st,
          c.get("exhaustive"), e.get("violations", 0), kf, e["wall_s"]))
