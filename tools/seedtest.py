#!/usr/bin/env python3
"""Runs checks against a seeded change without touching /repo or the committed evidence.

  tools/seedtest.py <dir with patch.diff> <Cxx> [<Cyy> ...] [--tier quick|thorough]

A scratch copy of the parts of /repo that the checks read (src, extras/tests/Helpers, extras/fuzzing) is made under
/tmp/seedrun/<name>/repo, the patch is applied there, and ./run is pointed at it (VERIF_REPO) with its evidence and
violation files redirected (VERIF_OUT).  Everything is removed afterwards."""
import os, shutil, subprocess, sys, time
HERE = os.path.dirname(os.path.dirname(os.path.abspath(__file__)))
args = [a for a in sys.argv[1:] if not a.startswith("--")]
tier = "quick"
for i, a in enumerate(sys.argv):
    if a == "--tier":
        tier = sys.argv[i + 1]
args = [a for a in args if a not in ("quick", "thorough")]
seed, props = args[0], args[1:]
name = os.path.basename(os.path.normpath(seed))
root = "/tmp/seedrun/%s-%d" % (name, os.getpid())
shutil.rmtree(root, ignore_errors=True)
os.makedirs(root + "/repo/extras/tests")
shutil.copytree("/repo/src", root + "/repo/src")
shutil.copytree("/repo/extras/tests/Helpers", root + "/repo/extras/tests/Helpers")
shutil.copytree("/repo/extras/fuzzing", root + "/repo/extras/fuzzing")
r = subprocess.run(["patch", "-p1", "-s", "-d", root + "/repo", "-i", os.path.abspath(os.path.join(seed, "patch.diff"))], capture_output=True, text=True)
if r.returncode != 0:
    print("PATCH FAILED", r.stdout, r.stderr)
    sys.exit(2)
env = dict(os.environ, VERIF_REPO=root + "/repo", VERIF_OUT=root + "/out")
rc_all = 0
for p in props:
    t0 = time.time()
    r = subprocess.run([os.path.join(HERE, "run"), p, tier], capture_output=True, text=True, cwd=HERE, env=env)
    lines = r.stdout.splitlines()
    viol = [l for l in lines if l.startswith("VIOLATION")]
    detail = [l for l in lines if l.startswith("  ") and not l.startswith("  metric") and not l.startswith("  clause")][:3]
    print("%s %s %s: exit=%d %s (%.0fs)" % (name, p, tier, r.returncode, "DETECTED" if r.returncode == 1 and viol else "not detected", time.time() - t0))
    for l in [l for l in lines if l.startswith("  clause")][:6] + detail:
        print("   ", l[:300])
    if r.returncode not in (0, 1):
        print(r.stdout[-1500:], r.stderr[-1500:])
    rc_all = max(rc_all, r.returncode)
shutil.rmtree(root, ignore_errors=True)
sys.exit(0)
