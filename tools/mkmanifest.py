#!/usr/bin/env python3
"""Regenerates MANIFEST.json from jobs.py (claimed properties) and properties.jsonl (everything else -> not_applicable)."""
import json, os, subprocess, sys
HERE = os.path.dirname(os.path.dirname(os.path.abspath(__file__)))
sys.path.insert(0, HERE)
from jobs import PROPS
props = [json.loads(l) for l in open(os.path.join(HERE, "properties.jsonl"))]
hook_commits = []
try:
    out = subprocess.run(["git", "-C", "/repo", "log", "--format=%H %s"], capture_output=True, text=True).stdout
    hook_commits = [l.split()[0] for l in out.splitlines() if "verif hook" in l]
except Exception:
    pass
CLAIMED = set(open(os.path.join(HERE, "tools", "claimed.txt")).read().split())

LEVEL_TEXT = {
 "C01": "Every RFC 8259 text of a small scope (all trees up to N nodes over boundary alphabets, all spellings and whitespace layouts, seven destination states, documents at the pool-table boundaries re-used and nested in parsed hosts, two pool geometries) is parsed by the real library and compared with an independent parser; exhaustive inside the scope, silent outside it.",
 "C02": "Every document of a small scope is serialized to every destination kind and into every buffer capacity 0..len+2 (exactly sized heap blocks under ASan) and the text is re-parsed by an independent parser; exhaustive inside the scope.",
 "C03": "Every byte string up to a length over structural alphabets, every short MessagePack string, every truncation and single-byte substitution of a corpus, through 13 input kinds (incl. an iterator range over non-contiguous storage) x 6 limits x 14 filters x 5 builds, under ASan/UBSan with cross-kind equality; memory safety and source independence are decided for that space only.",
 "C04": "Explicit-state breadth-first search over API histories of the real library (state = history replayed on fresh documents, de-duplicated on model + concrete pool/free-list/string-pool key); every transition is compared with an ordered-tree reference model and concrete-state invariants. All histories up to the stated depth over the stated alphabet are covered.",
 "C05": "For every (reached state, probe operation) scenario and every small deserialization input, every single allocator failure position, every fail-from-k plan and every pair of positions is executed on the real library, and every failing schedule is continued into every enabled second operation (still failing, or with the allocator working again and no clear() in between); crash-freedom, reporting, frame condition and memory return are checked on each.",
 "C06": "The C04 search run on ledger allocators (exactly-once release, allocator identity, free-list-before-new-pool probe, reference counts, frozen allocators during reads) a foreign-heap clause (the library's own malloc calls are counted), plus deserializer inputs around every length boundary and hostile headers with a memory bound; exhaustive inside those bounds.",
 "C07": "All documents of a small scope are round-tripped through JSON, MessagePack and JSON->MessagePack and compared by independent decoders and by the library's own equality; exhaustive inside the scope.",
 "C08": "Documents concentrated on every header-width boundary of MessagePack (and all 2^32 float32 values in the thorough tier) are serialized and decoded by an independent strict decoder; exhaustive over the listed boundary sets.",
 "C09": "Every tree of a small scope is encoded by an independent encoder in every legal width combination (deviation-bounded), and the full text, every proper prefix and every single-byte substitution are decoded by the library and by an independent decoder, also through 8 other source kinds and into 5 non-fresh destinations; wide and deep containers; double / single precision, 32-bit integer storage and small-pool builds.",
 "C10": "All token sequences up to a length over a 46-token alphabet (character-level micro-alphabets, every byte value substituted or inserted at every position of accepted texts, unquoted keys, number tokens around the 63-character limit, nesting limits 10 / 2 / 1) are classified by the library and by an independent three-valued recogniser, per option build.",
 "C11": "All (input, filter) pairs from two bounded tree generators, as JSON and as MessagePack, at the default nesting limit and at the exact depth of the input, compared with a projection function applied to the unfiltered result; further leaf and key spellings and long / wide MessagePack payloads in discarded positions; three builds.",
 "C12": "Literal families (every exponent -340..340 x mantissa shapes x point positions, digit runs to 1200 and 2^16, literals padded to 61-63 characters, exponent fields of 3..40 digits and with up to 65000 leading zeros, owned and linked strings) and binary values (all 2^32 floats in thorough, stratified doubles) against glibc strtold / __int128 with exactly the tolerances of the statement; PROGMEM table build included.",
 "C13": "All 2^32 bit patterns of each 32-bit storage kind x 12 target types (thorough), boundary sets for 64-bit kinds, rounding-midpoint families for 64-bit kinds, numeric strings of every length 1..1300 and around 2^15..2^17 through six entry points (also in PROGMEM and single-precision builds), copyArray over all shape pairs with guard elements, against an interval oracle in __int128.",
 "C14": "Full matrix string alphabet x 12 source kinds x 47 uses, each run pairwise-differentially against a reference kind with the source buffer overwritten/freed after the call, plus an exhaustive sharing grid and aliasing-operand family; inspector and ledger as additional oracles.",
 "C15": "Every nesting limit 0..255 x every depth up to 300 (+1000, 5000) x 73 input families x 9 filter placements for both formats, builds with other default limits, plus stack measurements (constant in input length, linear in L) in default and comments-enabled builds.",
 "C16": "All sequences of up to 3 documents x separators x suffixes x 8 readers (byte-wise, block-wise, istream windows, Arduino Stream, three with a discard-all filter), position-counting readers and a prefix memo; default, single-precision and comments / NaN / Infinity builds.",
 "C17": "All 65536 code units x 3 hex casings x 5 positions, unpaired surrogates, all 2^20 surrogate pairs (thorough), all 1- and 2-byte strings as value and key, escapes straddling every string-builder capacity step, escaped bytes at every offset of longer strings; host, -funsigned-char and Arduino (PROGMEM) builds.",
 "C18": "All ordered pairs over a 215-value alphabet (1590 with nested containers) x 6 operators x 15 operand forms x both document placements, every value against itself, and every value against C++ scalars of every type on both sides; five algebraic laws and a reference comparator.",
 "C19": "An abstract pool machine checked over every pool geometry and bound to the real allocator core by trace equality (one compiled unit per geometry); the C04 search repeated under a matrix of -D configurations; limit-reaching fill/remove/refill scripts, documents that are shrunk / moved / swapped / copied and then grown to the limit, the deserializers at the slot limit, and maximum-length strings through seven entry points.",
 "C20": "All schedules with at most P preemptions of 2-3 threads running library operations on distinct documents, switching at the library's call-out seams (allocator, reader, writer), each compared with the sequential run; default and small-pool geometries and the Arduino option set (String / Print / Stream / flash); a separate free-running ThreadSanitizer pass in cold children.",
}
checks, na = [], []
for p in props:
    i = p["id"]
    if i in PROPS and i in CLAIMED:
        s = PROPS[i]
        c = {"property_id": i, "quick_cmd": "./run %s quick" % i, "thorough_cmd": "./run %s thorough" % i,
             "evidence_file": "evidence/%s.json" % i, "replay_cmd_template": "./run replay {path}",
             "engine": sorted({j["src"] for j in s["quick"]})[0],
             "level_claimed": {"category": s["level"], "text": LEVEL_TEXT.get(i, s["rule"]), "design_ref": s.get("design_ref", "DESIGN.md section 5/" + i)},
             "level_note": s.get("level_note", "; ".join(s.get("assumptions", []))), "technique": s["technique"]}
        checks.append(c)
    else:
        na.append({"property_id": i, "reason": "check not built yet (work in progress; see DESIGN.md section 5/%s for the planned exploration)" % i})
engines = {}
for i, s in PROPS.items():
    if i not in CLAIMED:
        continue
    for j in s["quick"] + s.get("thorough", []):
        engines.setdefault(j["src"], set()).add(i)
m = {"version": 1,
     "setup_cmd": "./run build",
     "hooks": {"guard": "BBLANCHON_ARDUINOJSON_VERIF", "enable": "-DBBLANCHON_ARDUINOJSON_VERIF on every harness compile (./run adds it); the hooks are friend declarations only",
               "baseline_off_cmd": "cmake --build /repo/_build && ctest --test-dir /repo/_build -j8 --timeout 900",
               "source_commits": hook_commits, "add_only": True},
     "engines": [{"name": os.path.basename(k).replace(".cpp", ""), "path": k, "serves_properties": sorted(v),
                  "kind_free_text": "bounded exhaustive exploration of the real library under a deterministic driver"} for k, v in sorted(engines.items())],
     "checks": checks,
     "notes": "Every check is ./run <id> <tier>; it rebuilds its harnesses from /repo/src (content-hashed), runs 16 shards, merges, applies known_findings.txt, writes evidence/<id>.json.",
     "not_applicable": na}
json.dump(m, open(os.path.join(HERE, "MANIFEST.json"), "w"), indent=1)
print("claimed:", [c["property_id"] for c in checks])
