#!/usr/bin/env python3
"""Regenerates MANIFEST.json from jobs.py (claimed properties) and properties.jsonl (everything else -> not_applicable)."""
import json, os, subprocess, sys
HERE = os.path.dirname(os.path.dirname(os.path.abspath(__file__)))
sys.path.insert(0, HERE)
from jobs import PROPS
props = [json.loads(l) for l in open(os.path.join(HERE, "properties.jsonl"))]
hook_commits = []
try:
    out = subprocess.run(["git", "-C", "/repo", "log", "--format=%H %s"], capture_output=True, text=True).stdout
    hook_commits = [l.split()[0] for l in out.splitlines() if "verif hook" in l]
except Exception:
    pass
CLAIMED = set(open(os.path.join(HERE, "tools", "claimed.txt")).read().split())
checks, na = [], []
for p in props:
    i = p["id"]
    if i in PROPS and i in CLAIMED:
        s = PROPS[i]
        c = {"property_id": i, "quick_cmd": "./run %s quick" % i, "thorough_cmd": "./run %s thorough" % i,
             "evidence_file": "evidence/%s.json" % i, "replay_cmd_template": "./run replay {path}",
             "engine": sorted({j["src"] for j in s["quick"]})[0],
             "level_claimed": {"category": s["level"], "text": s.get("level_text", s["rule"]), "design_ref": s.get("design_ref", "DESIGN.md section 5/" + i)},
             "level_note": s.get("level_note", "; ".join(s.get("assumptions", []))), "technique": s["technique"]}
        checks.append(c)
    else:
        na.append({"property_id": i, "reason": "check not built yet (work in progress; see DESIGN.md section 5/%s for the planned exploration)" % i})
engines = {}
for i, s in PROPS.items():
    if i not in CLAIMED:
        continue
    for j in s["quick"] + s.get("thorough", []):
        engines.setdefault(j["src"], set()).add(i)
m = {"version": 1,
     "setup_cmd": "./run build",
     "hooks": {"guard": "BBLANCHON_ARDUINOJSON_VERIF", "enable": "-DBBLANCHON_ARDUINOJSON_VERIF on every harness compile (./run adds it); the hooks are friend declarations only",
               "baseline_off_cmd": "cmake --build /repo/_build && ctest --test-dir /repo/_build -j8 --timeout 900",
               "source_commits": hook_commits, "add_only": True},
     "engines": [{"name": os.path.basename(k).replace(".cpp", ""), "path": k, "serves_properties": sorted(v),
                  "kind_free_text": "bounded exhaustive exploration of the real library under a deterministic driver"} for k, v in sorted(engines.items())],
     "checks": checks,
     "notes": "Every check is ./run <id> <tier>; it rebuilds its harnesses from /repo/src (content-hashed), runs 16 shards, merges, applies known_findings.txt, writes evidence/<id>.json.",
     "not_applicable": na}
json.dump(m, open(os.path.join(HERE, "MANIFEST.json"), "w"), indent=1)
print("claimed:", [c["property_id"] for c in checks])
