# Job table of the driver: property -> engine binaries, flags, modes, tiers.
SAN = ["clang++", "-std=c++17", "-O1", "-g", "-fsanitize=address,undefined", "-fno-sanitize-recover=all",
       "-fno-omit-frame-pointer", "-Wno-deprecated-declarations"]
FLAVOURS = {
    "san": {"cxx": SAN},
    "fast": {"cxx": ["g++", "-std=c++17", "-O2", "-w"]},
    "fastclang": {"cxx": ["clang++", "-std=c++17", "-O2", "-w"]},
    "stack": {"cxx": ["clang++", "-std=c++17", "-O1", "-g", "-w"]},
    "tsan": {"cxx": ["clang++", "-std=c++17", "-O1", "-g", "-fsanitize=thread", "-w"], "libs": ["-lpthread"]},
    "sanmt": {"cxx": SAN, "libs": ["-lpthread"]},
    "sanuchar": {"cxx": SAN + ["-funsigned-char"]},  # plain char unsigned, as on ARM / ESP / RISC-V targets
}

PROPS = {}


# Per-property fragments live in jobs.d/*.py; each one fills PROPS["Cxx"].
import glob as _glob, os as _os
for _f in sorted(_glob.glob(_os.path.join(_os.path.dirname(_os.path.abspath(__file__)), "jobs.d", "*.py"))):
    exec(compile(open(_f).read(), _f, "exec"), {"PROPS": PROPS, "FLAVOURS": FLAVOURS})
