// Shared harness runtime: argument parsing, sharding, in-flight case journal,
// counters, violation records, per-shard result file.  Header-only, C++17.
//
// A harness enumerates cases deterministically.  For each generated case:
//     if (!C.take()) continue;        // not ours (other shard / --from / --only)
//     C.begin(key);                   // journal the key BEFORE executing the case
//     ... execute, C.fail(clause, detail) on violation, C.outcome(..), C.nontrivial(..)
//     C.end();
// The python driver (../run) starts one process per shard, restarts a shard
// after a crash at the case following the journalled one, merges the results
// and writes the evidence file.
#pragma once
#include <fcntl.h>
#include <sys/mman.h>
#include <sys/stat.h>
#include <unistd.h>

#include <chrono>
#include <cinttypes>
#include <cstdint>
#include <cstdio>
#include <cstdlib>
#include <cstring>
#include <functional>
#include <map>
#include <regex>
#include <set>
#include <string>
#include <unordered_set>
#include <vector>

namespace verif {

inline std::string hex(const std::string& s) {
  static const char* d = "0123456789abcdef";
  std::string r;
  r.reserve(s.size() * 2);
  for (unsigned char c : s) {
    r.push_back(d[c >> 4]);
    r.push_back(d[c & 15]);
  }
  return r;
}

inline std::string unhex(const std::string& s) {
  std::string r;
  auto v = [](char c) -> int {
    if (c >= '0' && c <= '9') return c - '0';
    if (c >= 'a' && c <= 'f') return c - 'a' + 10;
    if (c >= 'A' && c <= 'F') return c - 'A' + 10;
    return 0;
  };
  for (size_t i = 0; i + 1 < s.size(); i += 2)
    r.push_back(char(v(s[i]) * 16 + v(s[i + 1])));
  return r;
}

// printable rendering of arbitrary bytes (for keys and details)
inline std::string vis(const std::string& s) {
  std::string r;
  char buf[8];
  for (unsigned char c : s) {
    if (c >= 0x20 && c < 0x7f && c != '\\') {
      r.push_back(char(c));
    } else {
      snprintf(buf, sizeof buf, "\\x%02x", c);
      r += buf;
    }
  }
  return r;
}

inline std::string jsonEscape(const std::string& s) {
  std::string r;
  char buf[8];
  for (unsigned char c : s) {
    switch (c) {
      case '"': r += "\\\""; break;
      case '\\': r += "\\\\"; break;
      case '\n': r += "\\n"; break;
      case '\r': r += "\\r"; break;
      case '\t': r += "\\t"; break;
      default:
        if (c < 0x20 || c >= 0x7f) {
          snprintf(buf, sizeof buf, "\\u%04x", c);
          r += buf;
        } else {
          r.push_back(char(c));
        }
    }
  }
  return r;
}

inline uint64_t fnv1a(const void* p, size_t n, uint64_t h = 1469598103934665603ULL) {
  auto b = static_cast<const unsigned char*>(p);
  for (size_t i = 0; i < n; i++) {
    h ^= b[i];
    h *= 1099511628211ULL;
  }
  return h;
}
inline uint64_t fnv1a(const std::string& s, uint64_t h = 1469598103934665603ULL) {
  return fnv1a(s.data(), s.size(), h);
}

struct Violation {
  uint64_t index;
  std::string key, clause, detail;
};

struct Known {
  std::string id;  // text after '::'
  std::regex re;
  uint64_t hits = 0;
};

class Ctx {
 public:
  std::string mode, tier = "quick", outPath, journalPath, knownPath, property;
  std::vector<std::string> extra;  // free-form harness arguments (--x=y)
  int shard = 0, nshards = 1;
  uint64_t from = 0;
  int64_t only = -1;
  double deadline = 0;  // seconds of wall time after which exploration stops at a clean boundary
  bool verbose = false;

  uint64_t index = 0;        // number of cases generated so far (all shards)
  uint64_t evaluations = 0;  // cases executed by this shard
  std::unordered_set<uint64_t> nontrivialSet;
  std::map<std::string, uint64_t> outcomes;
  std::map<std::string, double> metrics;     // summed by the driver
  std::map<std::string, double> maxMetrics;  // max-ed by the driver
  std::vector<std::string> samples;
  std::vector<Violation> violations;
  std::map<std::string, uint64_t> clauseCount;
  std::vector<Known> known;
  uint64_t violationCount = 0;
  bool complete = true;  // false if a deadline or cap stopped the enumeration
  std::vector<std::string> notes;
  std::vector<std::string> bounds;

  std::string curKey;
  bool inCase = false;
  std::chrono::steady_clock::time_point t0 = std::chrono::steady_clock::now();

  Ctx(int argc, char** argv) {
    for (int i = 1; i < argc; i++) {
      std::string a = argv[i];
      auto next = [&]() -> std::string { return i + 1 < argc ? argv[++i] : ""; };
      if (a == "--mode") mode = next();
      else if (a == "--tier") tier = next();
      else if (a == "--property") property = next();
      else if (a == "--out") outPath = next();
      else if (a == "--journal") journalPath = next();
      else if (a == "--known") knownPath = next();
      else if (a == "--shard") {
        std::string s = next();
        sscanf(s.c_str(), "%d/%d", &shard, &nshards);
      } else if (a == "--from") from = strtoull(next().c_str(), nullptr, 10);
      else if (a == "--only") only = strtoll(next().c_str(), nullptr, 10);
      else if (a == "--deadline") deadline = atof(next().c_str());
      else if (a == "--verbose") verbose = true;
      else extra.push_back(a);
    }
    if (!journalPath.empty()) openJournal();
    if (!knownPath.empty()) loadKnown();
  }

  bool thorough() const { return tier == "thorough"; }

  std::string opt(const std::string& name, const std::string& dflt = "") const {
    std::string p = "--" + name + "=";
    for (auto& e : extra)
      if (e.compare(0, p.size(), p) == 0) return e.substr(p.size());
    return dflt;
  }
  bool flag(const std::string& name) const {
    for (auto& e : extra)
      if (e == "--" + name) return true;
    return false;
  }

  double elapsed() const {
    return std::chrono::duration<double>(std::chrono::steady_clock::now() - t0).count();
  }
  bool expired() {
    if (journal_ && (++expiredCalls_ & 0xFFF) == 0) memcpy(journal_ + 4080, &expiredCalls_, 8);
    if (deadline > 0 && elapsed() > deadline) {
      complete = false;
      return true;
    }
    return false;
  }

  // Is the next generated case ours?  Always advances the global case index.
  bool take() {
    uint64_t i = index++;
    if (journal_ && (i & 0xFFFF) == 0) memcpy(journal_ + 4088, &i, 8);  // heartbeat: the generator is alive even when no case is ours
    if (only >= 0) return int64_t(i) == only;
    if (i < from) return false;
    return int(i % uint64_t(nshards)) == shard;
  }
  // same, but sharded by a hash of the case identity (for generators that can
  // emit the same case twice: duplicates land in the same shard)
  bool takeByHash(uint64_t h) {
    uint64_t i = index++;
    if (journal_ && (i & 0xFFFF) == 0) memcpy(journal_ + 4088, &i, 8);
    if (only >= 0) return int64_t(i) == only;
    if (i < from) return false;
    return int(h % uint64_t(nshards)) == shard;
  }
  uint64_t caseIndex() const { return index - 1; }

  void begin(const std::string& key) {
    curKey = key;
    inCase = true;
    evaluations++;
    if (journal_) {
      uint64_t idx = index - 1;
      uint32_t n = uint32_t(key.size() > kJournalMax ? kJournalMax : key.size());
      memcpy(journal_, &idx, 8);
      memcpy(journal_ + 8, &n, 4);
      memcpy(journal_ + 12, key.data(), n);
    }
    if (samples.size() < 6 || (evaluations & (evaluations - 1)) == 0) {
      if (samples.size() < 24) samples.push_back(key.substr(0, 400));
    }
    if (verbose) printf("CASE %" PRIu64 " %s\n", index - 1, key.c_str());
  }
  void end() {
    inCase = false;
    if (journal_) {
      uint64_t idx = ~0ULL;  // no case in flight
      memcpy(journal_, &idx, 8);
    }
  }

  void outcome(const std::string& o) { outcomes[o]++; }
  void nontrivial(uint64_t h) { nontrivialSet.insert(h); }
  void nontrivial() { nontrivialSet.insert(fnv1a(curKey)); }

  // Record a violation of `clause` for the current case.
  void fail(const std::string& clause, const std::string& detail) { failKey(curKey, clause, detail); }
  void failKey(const std::string& key, const std::string& clause, const std::string& detail) {
    // a known-finding matcher sees the case key followed by "|c=<clause>": it can (and should) name the symptom it covers,
    // so that another kind of violation of the same case - a crash instead of a wrong value - is still reported
    const std::string subject = key + "|c=" + clause;
    for (auto& k : known) {
      if (std::regex_search(subject, k.re)) {
        k.hits++;
        if (verbose) printf("KNOWN %s :: %s\n", key.c_str(), k.id.c_str());
        return;
      }
    }
    violationCount++;
    if (const char* dump = getenv("VERIF_DUMP_FAILS")) {  // experiments only: every failing key, uncapped
      if (FILE* f = fopen((std::string(dump) + "." + std::to_string(shard)).c_str(), "a")) {
        fprintf(f, "%s\t%s\n", key.c_str(), clause.c_str());
        fclose(f);
      }
    }
    uint64_t& c = clauseCount[clause];
    c++;
    if (c <= 20 && violations.size() < 200)
      violations.push_back({index ? index - 1 : 0, key, clause, detail.substr(0, 4000)});
    if (verbose) printf("FAIL %s [%s] %s\n", key.c_str(), clause.c_str(), detail.c_str());
  }

  // index of the known finding whose matcher covers `key`, or -1
  int matchKnown(const std::string& key) const {
    for (size_t i = 0; i < known.size(); i++)
      if (std::regex_search(key, known[i].re)) return int(i);
    return -1;
  }

  void note(const std::string& s) { notes.push_back(s); }
  void bound(const std::string& s) { bounds.push_back(s); }

  // Write the per-shard result and return the process exit code.
  int finish() {
    if (outPath.empty()) {
      printf("evaluations=%" PRIu64 " nontrivial=%zu violations=%" PRIu64 " complete=%d\n", evaluations,
             nontrivialSet.size(), violationCount, int(complete));
      for (auto& v : violations) printf("VIOL %s [%s] %s\n", v.key.c_str(), v.clause.c_str(), v.detail.c_str());
      for (auto& k : known)
        if (k.hits) printf("KNOWN x%" PRIu64 " %s\n", k.hits, k.id.c_str());
      return violationCount ? 1 : 0;
    }
    FILE* f = fopen(outPath.c_str(), "w");
    if (!f) {
      perror("out");
      return 3;
    }
    fprintf(f, "{\n \"generated\": %" PRIu64 ",\n \"evaluations\": %" PRIu64 ",\n \"nontrivial\": %zu,\n", index,
            evaluations, nontrivialSet.size());
    fprintf(f, " \"complete\": %s,\n \"wall_s\": %.3f,\n", complete ? "true" : "false", elapsed());
    fprintf(f, " \"violation_count\": %" PRIu64 ",\n", violationCount);
    auto strList = [&](const char* name, const std::vector<std::string>& v) {
      fprintf(f, " \"%s\": [", name);
      for (size_t i = 0; i < v.size(); i++) fprintf(f, "%s\"%s\"", i ? ", " : "", jsonEscape(v[i]).c_str());
      fprintf(f, "],\n");
    };
    strList("samples", samples);
    strList("notes", notes);
    strList("bounds", bounds);
    auto numMap = [&](const char* name, const std::map<std::string, double>& m) {
      fprintf(f, " \"%s\": {", name);
      bool first = true;
      for (auto& kv : m) {
        fprintf(f, "%s\"%s\": %.17g", first ? "" : ", ", jsonEscape(kv.first).c_str(), kv.second);
        first = false;
      }
      fprintf(f, "},\n");
    };
    numMap("metrics", metrics);
    numMap("max_metrics", maxMetrics);
    fprintf(f, " \"outcomes\": {");
    {
      bool first = true;
      size_t n = 0;
      for (auto& kv : outcomes) {
        if (++n > 4000) break;
        fprintf(f, "%s\"%s\": %" PRIu64, first ? "" : ", ", jsonEscape(kv.first).c_str(), kv.second);
        first = false;
      }
    }
    fprintf(f, "},\n \"outcome_kinds\": %zu,\n", outcomes.size());
    fprintf(f, " \"known\": {");
    {
      bool first = true;
      for (auto& k : known) {
        if (!k.hits) continue;
        fprintf(f, "%s\"%s\": %" PRIu64, first ? "" : ", ", jsonEscape(k.id).c_str(), k.hits);
        first = false;
      }
    }
    fprintf(f, "},\n \"clauses\": {");
    {
      bool first = true;
      for (auto& kv : clauseCount) {
        fprintf(f, "%s\"%s\": %" PRIu64, first ? "" : ", ", jsonEscape(kv.first).c_str(), kv.second);
        first = false;
      }
    }
    fprintf(f, "},\n \"violations\": [");
    for (size_t i = 0; i < violations.size(); i++) {
      auto& v = violations[i];
      fprintf(f, "%s\n  {\"index\": %" PRIu64 ", \"key\": \"%s\", \"clause\": \"%s\", \"detail\": \"%s\"}", i ? "," : "",
              v.index, jsonEscape(v.key).c_str(), jsonEscape(v.clause).c_str(), jsonEscape(v.detail).c_str());
    }
    fprintf(f, "]\n}\n");
    fclose(f);
    return 0;  // the driver decides the verdict from the merged results
  }

 private:
  static constexpr size_t kJournalMax = 3900;
  char* journal_ = nullptr;
  uint64_t expiredCalls_ = 0;

  void openJournal() {
    int fd = open(journalPath.c_str(), O_RDWR | O_CREAT, 0644);
    if (fd < 0) return;
    if (ftruncate(fd, 4096) != 0) {
      close(fd);
      return;
    }
    void* p = mmap(nullptr, 4096, PROT_READ | PROT_WRITE, MAP_SHARED, fd, 0);
    close(fd);
    if (p == MAP_FAILED) return;
    journal_ = static_cast<char*>(p);
    uint64_t idx = ~0ULL;
    memcpy(journal_, &idx, 8);
  }

  void loadKnown() {
    FILE* f = fopen(knownPath.c_str(), "r");
    if (!f) return;
    char line[8192];
    while (fgets(line, sizeof line, f)) {
      std::string s = line;
      while (!s.empty() && (s.back() == '\n' || s.back() == '\r')) s.pop_back();
      if (s.compare(0, 8, "finding:") != 0) continue;
      auto pp = s.find("property=");
      auto mp = s.find(" match=");
      auto dp = s.find(" :: ");
      if (pp == std::string::npos || mp == std::string::npos || dp == std::string::npos) continue;
      std::string prop = s.substr(pp + 9, s.find(' ', pp) - (pp + 9));
      if (!property.empty() && prop != property) continue;
      std::string rx = s.substr(mp + 7, dp - (mp + 7));
      std::string id = s.substr(dp + 4);
      try {
        known.push_back({id, std::regex(rx, std::regex::ECMAScript), 0});
      } catch (...) {
        fprintf(stderr, "bad regex in known findings: %s\n", rx.c_str());
      }
    }
    fclose(f);
  }
};

}  // namespace verif

// Sanitizer options baked into every harness binary (can be overridden from the environment).
extern "C" {
__attribute__((weak, used)) const char* __asan_default_options() {
  return "detect_leaks=0:abort_on_error=1:allocator_may_return_null=1:detect_stack_use_after_return=0:max_malloc_fill_size=0";
}
__attribute__((weak, used)) const char* __ubsan_default_options() {
  return "print_stacktrace=1:halt_on_error=1";
}
}
