// Cooperative scheduler + preemption-bounded schedule explorer (CHESS style).
//
// * Threads are real pthreads (persistent workers), but exactly ONE of them is
//   runnable at any time: a baton (`turn_`) is handed from thread to thread
//   through one mutex and one condition variable per thread.  Everything the
//   scheduler records is touched only by the baton holder, and every hand-off
//   goes through the mutex, so the scheduler itself is race-free.
// * `sched::point(label, arg)` is a scheduling point.  The harness calls it from
//   the library's call-out seams (allocator, reader, writer) -- no source hook.
//   Outside a scheduled run (controller thread, free-running TSan pass) it is a
//   no-op that yields the CPU now and then.
// * A schedule is a CHOICE VECTOR.  A choice point is (a) the start of a run
//   with >= 2 threads, (b) a scheduling point reached while >= 2 threads are
//   enabled, (c) the end of a thread while >= 2 others are still enabled.
//   Canonical order of the alternatives: the running thread first (choice 0 =
//   keep running), then the other enabled threads by ascending id.  Taking a
//   non-zero alternative at (b) is a PREEMPTION and costs 1; (a) and (c) are free.
// * Two enumerators over the same tree, same order:
//     exploreExec()  stateless odometer DFS that discovers the tree by executing
//                    (replay a prefix, then default 0).  A replay that meets a
//                    different arity than recorded is NONDETERMINISM -> exit 2.
//     enumerate()    walks the tree symbolically from the per-thread numbers of
//                    scheduling points (threads never block, so the enabled set
//                    is a function of the progress vector).  It costs O(1) per
//                    schedule, which lets every shard enumerate the whole bounded
//                    set and execute only its share; every executed schedule is
//                    checked against the prediction (Rec by Rec).
//   The self-test cross-checks both against a closed form and a brute force.
#pragma once
#include <pthread.h>
#include <sched.h>
#include <unistd.h>

#include <cstdint>
#include <cstdio>
#include <cstdlib>
#include <functional>
#include <string>
#include <utility>
#include <vector>

namespace sched {

constexpr int kMaxThreads = 4;

struct Rec {  // one choice point of an executed / predicted schedule
  uint8_t arity;
  uint8_t pick;
  uint8_t preemptive;  // 1: a non-zero pick costs one preemption
  bool operator==(const Rec& o) const { return arity == o.arity && pick == o.pick && preemptive == o.preemptive; }
  bool operator!=(const Rec& o) const { return !(*this == o); }
};

struct Seam {  // one scheduling point as it was passed
  uint8_t tid;
  char code;
  uint32_t arg;
  bool operator==(const Seam& o) const { return tid == o.tid && code == o.code && arg == o.arg; }
};

struct Result {
  std::vector<Rec> recs;    // every choice point met, in order
  std::vector<Seam> trace;  // every scheduling point passed, in order (the interleaved seam order)
  std::string segs;         // thread id of every run segment, e.g. "0101"
  std::vector<uint32_t> cuts;  // index into `trace` at which each segment starts
  int preemptions = 0;
  bool diverged = false;    // a replayed prefix met another arity than recorded (non-strict mode only)
  size_t divergedAt = 0;
  void clear() {
    recs.clear();
    trace.clear();
    segs.clear();
    cuts.clear();
    preemptions = 0;
    diverged = false;
    divergedAt = 0;
  }
};

[[noreturn]] inline void nondeterminism(const char* what, size_t pos, int recorded, int met) {
  fprintf(stderr, "NONDETERMINISM: %s at choice %zu: recorded %d, met %d\n", what, pos, recorded, met);
  fflush(stderr);
  _exit(2);
}

class Scheduler;
inline thread_local Scheduler* tl_sched = nullptr;
inline thread_local int tl_tid = -1;
inline thread_local unsigned tl_free = 0;

class Scheduler {
 public:
  using Body = std::function<void(int)>;

  explicit Scheduler(int nthreads) : nworkers_(nthreads) {
    pthread_mutex_init(&mu_, nullptr);
    for (int i = 0; i <= kMaxThreads; i++) pthread_cond_init(&cv_[i], nullptr);
    turn_ = kController;
    for (int i = 0; i < nworkers_; i++) {
      arg_[i] = {this, i};
      pthread_attr_t at;
      pthread_attr_init(&at);
      pthread_attr_setstacksize(&at, 1 << 20);
      if (pthread_create(&th_[i], &at, &Scheduler::tramp, &arg_[i]) != 0) {
        perror("pthread_create");
        _exit(3);
      }
      pthread_attr_destroy(&at);
    }
  }
  ~Scheduler() {
    pthread_mutex_lock(&mu_);
    quit_ = true;
    for (int i = 0; i < nworkers_; i++) pthread_cond_signal(&cv_[i]);
    pthread_mutex_unlock(&mu_);
    for (int i = 0; i < nworkers_; i++) pthread_join(th_[i], nullptr);
  }
  Scheduler(const Scheduler&) = delete;
  Scheduler& operator=(const Scheduler&) = delete;

  Result result;

  // Execute bodies[0..n) under the schedule `prefix` (replayed), then default
  // choice 0.  prefix[i].arity == 0 means "arity unknown, do not compare".
  // strict: an arity mismatch is a hard NONDETERMINISM error (exit 2);
  // otherwise it is recorded in result.diverged and the run goes on with defaults.
  void run(int n, const Body* bodies, const std::vector<Rec>& prefix, bool strict) {
    if (n > nworkers_ || n < 1) {
      fprintf(stderr, "sched: bad thread count %d\n", n);
      _exit(3);
    }
    n_ = n;
    bodies_ = bodies;
    prefix_ = &prefix;
    strict_ = strict;
    result.clear();
    for (int i = 0; i < kMaxThreads; i++) finished_[i] = i >= n;
    active_ = true;
    int first = 0;
    if (n >= 2) first = nthEnabled(choose(n, false));
    openSegment(first);
    pthread_mutex_lock(&mu_);
    turn_ = first;
    pthread_cond_signal(&cv_[first]);
    while (turn_ != kController) pthread_cond_wait(&cv_[kController], &mu_);
    pthread_mutex_unlock(&mu_);
    active_ = false;
    if (result.recs.size() < prefix.size() && !result.diverged) {
      // the run ended before the recorded prefix was used up
      if (strict_) nondeterminism("number of choice points", result.recs.size(), int(prefix.size()), int(result.recs.size()));
      result.diverged = true;
      result.divergedAt = result.recs.size();
    }
  }

  // called by the baton holder (a worker) from sched::point()
  void atPoint(int me, char code, uint32_t arg) {
    result.trace.push_back({uint8_t(me), code, arg});
    int en = enabledCount();
    if (en < 2) return;
    int pick = choose(en, true);
    if (pick == 0) return;
    int target = nthOther(me, pick - 1);
    result.preemptions++;
    openSegment(target);
    handTo(target, me);
  }
  bool active() const { return active_; }

 private:
  static constexpr int kController = kMaxThreads;
  struct Arg {
    Scheduler* s;
    int id;
  };

  int nworkers_, n_ = 0;
  pthread_t th_[kMaxThreads];
  Arg arg_[kMaxThreads];
  pthread_mutex_t mu_;
  pthread_cond_t cv_[kMaxThreads + 1];
  int turn_;
  bool quit_ = false;
  bool active_ = false;
  bool strict_ = true;
  bool finished_[kMaxThreads];
  const Body* bodies_ = nullptr;
  const std::vector<Rec>* prefix_ = nullptr;

  static void* tramp(void* p) {
    Arg* a = static_cast<Arg*>(p);
    a->s->worker(a->id);
    return nullptr;
  }

  void worker(int id) {
    tl_sched = this;
    tl_tid = id;
    pthread_mutex_lock(&mu_);
    for (;;) {
      while (turn_ != id && !quit_) pthread_cond_wait(&cv_[id], &mu_);
      if (quit_) break;
      pthread_mutex_unlock(&mu_);
      bodies_[id](id);  // we hold the baton; every other thread sleeps
      finished_[id] = true;
      int en = enabledCount();
      int next = kController;
      if (en == 1)
        next = nthEnabled(0);
      else if (en >= 2)
        next = nthEnabled(choose(en, false));
      if (next != kController) openSegment(next);
      pthread_mutex_lock(&mu_);
      turn_ = next;
      pthread_cond_signal(&cv_[next]);
    }
    pthread_mutex_unlock(&mu_);
  }

  void openSegment(int tid) {
    result.segs.push_back(char('0' + tid));
    result.cuts.push_back(uint32_t(result.trace.size()));
  }

  void handTo(int target, int me) {
    pthread_mutex_lock(&mu_);
    turn_ = target;
    pthread_cond_signal(&cv_[target]);
    while (turn_ != me) pthread_cond_wait(&cv_[me], &mu_);
    pthread_mutex_unlock(&mu_);
  }

  int enabledCount() const {
    int c = 0;
    for (int i = 0; i < n_; i++) c += !finished_[i];
    return c;
  }
  int nthEnabled(int k) const {
    for (int i = 0; i < n_; i++)
      if (!finished_[i] && k-- == 0) return i;
    return 0;
  }
  int nthOther(int me, int k) const {
    for (int i = 0; i < n_; i++)
      if (i != me && !finished_[i] && k-- == 0) return i;
    return me;
  }

  int choose(int arity, bool preemptive) {
    size_t k = result.recs.size();
    int pick = 0;
    if (k < prefix_->size() && !result.diverged) {
      const Rec& r = (*prefix_)[k];
      pick = r.pick;
      bool bad = (r.arity != 0 && (r.arity != arity || (r.preemptive != 0) != preemptive)) || pick >= arity;
      if (bad) {
        if (strict_) nondeterminism("number of enabled threads", k, r.arity, arity);
        result.diverged = true;
        result.divergedAt = k;
        pick = 0;
      }
    }
    result.recs.push_back({uint8_t(arity), uint8_t(pick), uint8_t(preemptive)});
    return pick;
  }
};

// The scheduling point.  Under a scheduled run: record the seam, then let the
// explorer decide who runs next.  Otherwise (controller thread, free-running
// TSan pass): no scheduling, an occasional sched_yield to vary the timing.
inline void point(const char* label, uint32_t arg = 0) {
  Scheduler* s = tl_sched;
  if (s && s->active()) {
    s->atPoint(tl_tid, label[0], arg);
    return;
  }
  if ((++tl_free & 15) == 0) sched_yield();
}

// ---------------------------------------------------------------- odometer DFS

inline int costOf(const Rec& r) { return r.preemptive && r.pick > 0; }

// Turn the record of the last run into the prefix of the next one (deepest
// choice point that still has an untried alternative within the bound).
inline bool nextPrefix(std::vector<Rec>& recs, int P) {
  std::vector<int> before(recs.size() + 1, 0);
  for (size_t i = 0; i < recs.size(); i++) before[i + 1] = before[i] + costOf(recs[i]);
  for (size_t k = recs.size(); k-- > 0;) {
    if (recs[k].pick + 1 >= recs[k].arity) continue;
    if (before[k] + (recs[k].preemptive ? 1 : 0) > P) continue;
    recs.resize(k + 1);
    recs[k].pick++;
    return true;
  }
  return false;
}

// Execution-driven exhaustive exploration of all schedules with <= P preemptions.
// leaf(result, prefixLen) is called after every complete schedule; return false to stop.
template <class Leaf>
inline uint64_t exploreExec(Scheduler& S, int n, const Scheduler::Body* bodies, int P, Leaf leaf) {
  std::vector<Rec> prefix;
  uint64_t runs = 0;
  for (;;) {
    S.run(n, bodies, prefix, /*strict=*/true);
    runs++;
    if (!leaf(S.result, prefix.size())) break;
    std::vector<Rec> recs = S.result.recs;
    if (!nextPrefix(recs, P)) break;
    prefix.swap(recs);
  }
  return runs;
}

// ---------------------------------------------------------------- symbolic tree

struct SymState {
  uint32_t progress[kMaxThreads];
  bool finished[kMaxThreads];
  int cur;
  int used;
  uint32_t pos;
};

struct Sym {
  int n;
  uint32_t counts[kMaxThreads];
  int P;

  int enabled(const SymState& s) const {
    int c = 0;
    for (int i = 0; i < n; i++) c += !s.finished[i];
    return c;
  }
  int nthEnabled(const SymState& s, int k) const {
    for (int i = 0; i < n; i++)
      if (!s.finished[i] && k-- == 0) return i;
    return 0;
  }
  int nthOther(const SymState& s, int me, int k) const {
    for (int i = 0; i < n; i++)
      if (i != me && !s.finished[i] && k-- == 0) return i;
    return me;
  }
};

using Sparse = std::vector<std::pair<uint32_t, uint8_t>>;  // (position, non-zero pick)

// Enumerate, in odometer-DFS order, every schedule with <= P preemptions of n
// threads that pass counts[t] scheduling points each.  leaf(nonzeroPicks,
// preemptions) returns false to stop the enumeration.
template <class Leaf>
class SymEnum {
 public:
  SymEnum(int n, const uint32_t* counts, int P, Leaf leaf) : leaf_(leaf) {
    y_.n = n;
    y_.P = P;
    for (int i = 0; i < kMaxThreads; i++) y_.counts[i] = i < n ? counts[i] : 0;
  }
  uint64_t leaves = 0;
  bool stopped = false;

  void go() {
    SymState s{};
    for (int i = 0; i < kMaxThreads; i++) s.finished[i] = i >= y_.n;
    s.used = 0;
    s.pos = 0;
    if (y_.n >= 2) {
      for (int k = 0; k < y_.n && !stopped; k++) {
        SymState t = s;
        t.pos = 1;
        t.cur = k;
        if (k) nz_.push_back({0u, uint8_t(k)});
        walk(t);
        if (k) nz_.pop_back();
      }
    } else {
      s.cur = 0;
      walk(s);
    }
  }

 private:
  Sym y_;
  Leaf leaf_;
  Sparse nz_;

  void emit(const SymState& s) {
    leaves++;
    if (!leaf_(nz_, s.used)) stopped = true;
  }

  // s.cur is about to run from s.progress[s.cur]
  void walk(SymState s) {
    for (;;) {
      if (stopped) return;
      int c = s.cur;
      bool atEnd;
      if (s.used >= y_.P) {
        // bound exhausted: c runs to its end, every point on the way is a choice point answered 0
        if (y_.enabled(s) >= 2) s.pos += y_.counts[c] - s.progress[c];
        s.progress[c] = y_.counts[c];
        atEnd = true;
      } else if (s.progress[c] < y_.counts[c]) {
        s.progress[c]++;
        atEnd = false;
      } else {
        atEnd = true;
      }
      if (!atEnd) {
        int en = y_.enabled(s);
        if (en < 2) continue;
        uint32_t at = s.pos++;
        for (int k = 0; k < en && !stopped; k++) {
          SymState t = s;
          if (k) {
            t.cur = y_.nthOther(s, c, k - 1);
            t.used++;
            nz_.push_back({at, uint8_t(k)});
          }
          walk(t);
          if (k) nz_.pop_back();
        }
        return;
      }
      s.finished[c] = true;
      int en = y_.enabled(s);
      if (en == 0) {
        emit(s);
        return;
      }
      if (en == 1) {
        s.cur = y_.nthEnabled(s, 0);
        continue;
      }
      uint32_t at = s.pos++;
      for (int k = 0; k < en && !stopped; k++) {
        SymState t = s;
        t.cur = y_.nthEnabled(s, k);
        if (k) nz_.push_back({at, uint8_t(k)});
        walk(t);
        if (k) nz_.pop_back();
      }
      return;
    }
  }
};

template <class Leaf>
inline uint64_t enumerate(int n, const uint32_t* counts, int P, Leaf leaf, bool* stopped = nullptr) {
  SymEnum<Leaf> e(n, counts, P, leaf);
  e.go();
  if (stopped) *stopped = e.stopped;
  return e.leaves;
}

// dense prefix (trailing zeros trimmed) of a sparse pick list; arities unknown (0)
inline std::vector<Rec> densePrefix(const Sparse& nz) {
  std::vector<Rec> p;
  if (nz.empty()) return p;
  p.assign(nz.back().first + 1, Rec{0, 0, 0});
  for (auto& e : nz) p[e.first].pick = e.second;
  return p;
}

// Predict the complete record of the run "replay prefix, then default 0" for
// threads with the given numbers of scheduling points.
inline std::vector<Rec> simulate(int n, const uint32_t* counts, const std::vector<Rec>& prefix) {
  std::vector<Rec> out;
  uint32_t progress[kMaxThreads] = {0, 0, 0, 0};
  bool fin[kMaxThreads];
  for (int i = 0; i < kMaxThreads; i++) fin[i] = i >= n;
  auto enabled = [&] {
    int c = 0;
    for (int i = 0; i < n; i++) c += !fin[i];
    return c;
  };
  auto nthEnabled = [&](int k) {
    for (int i = 0; i < n; i++)
      if (!fin[i] && k-- == 0) return i;
    return 0;
  };
  auto nthOther = [&](int me, int k) {
    for (int i = 0; i < n; i++)
      if (i != me && !fin[i] && k-- == 0) return i;
    return me;
  };
  auto choose = [&](int arity, bool pre) {
    size_t k = out.size();
    int pick = k < prefix.size() ? prefix[k].pick : 0;
    if (pick >= arity) pick = 0;
    out.push_back({uint8_t(arity), uint8_t(pick), uint8_t(pre)});
    return pick;
  };
  int cur = 0;
  if (n >= 2) cur = nthEnabled(choose(n, false));
  for (;;) {
    if (progress[cur] < counts[cur]) {
      progress[cur]++;
      int en = enabled();
      if (en < 2) continue;
      int pick = choose(en, true);
      if (pick) cur = nthOther(cur, pick - 1);
      continue;
    }
    fin[cur] = true;
    int en = enabled();
    if (en == 0) break;
    if (en == 1)
      cur = nthEnabled(0);
    else
      cur = nthEnabled(choose(en, false));
  }
  return out;
}

// ---------------------------------------------------------------- independent counts (self-test)

inline uint64_t binom(uint64_t n, uint64_t k) {
  if (k > n) return 0;
  uint64_t r = 1;
  for (uint64_t i = 1; i <= k; i++) r = r * (n - k + i) / i;
  return r;
}

// Two threads with a and b scheduling points, at most P preemptions.  With q
// preemptions the starting thread is cut ceil(q/2) times and the other one
// floor(q/2) times (the segments alternate and the last segment of a thread is
// closed by its end, which is free).
inline uint64_t closedForm2(uint64_t a, uint64_t b, int P) {
  uint64_t total = 0;
  for (int q = 0; q <= P; q++) {
    uint64_t hi = uint64_t(q + 1) / 2, lo = uint64_t(q) / 2;
    total += binom(a, hi) * binom(b, lo) + binom(b, hi) * binom(a, lo);
  }
  return total;
}

// Brute force over block interleavings: thread t consists of counts[t]+1 blocks;
// leaving a thread after a block that is not its last one costs 1.
inline uint64_t bruteCount(int n, const uint32_t* counts, int P) {
  struct R {
    int n, P;
    const uint32_t* counts;
    uint32_t done[kMaxThreads];
    uint64_t go(int cur, int used) {
      // cur < 0: nobody is running (start, or the running thread just ended)
      bool all = true;
      for (int i = 0; i < n; i++) all = all && done[i] == counts[i] + 1;
      if (all) return 1;
      uint64_t total = 0;
      for (int t = 0; t < n; t++) {
        if (done[t] == counts[t] + 1) continue;
        int cost = (cur >= 0 && t != cur) ? 1 : 0;
        if (used + cost > P) continue;
        done[t]++;
        bool ended = done[t] == counts[t] + 1;
        total += go(ended ? -1 : t, used + cost);
        done[t]--;
      }
      return total;
    }
  } r;
  r.n = n;
  r.P = P;
  r.counts = counts;
  for (int i = 0; i < kMaxThreads; i++) r.done[i] = 0;
  return r.go(-1, 0);
}

inline std::string choicesString(const std::vector<Rec>& prefix) {
  std::string s;
  for (size_t i = 0; i < prefix.size(); i++) {
    if (i) s.push_back('.');
    s += std::to_string(int(prefix[i].pick));
  }
  if (s.empty()) s = "-";
  return s;
}

}  // namespace sched
