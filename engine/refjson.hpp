// Independent JSON reference: strict RFC 8259 parser -> MValue, reference printer with
// spelling/layout options, the numeric acceptance rule of C12, and a tolerant value comparator.
// Shares no code with ArduinoJson.
#pragma once
#include <cfloat>
#include <cmath>
#include <cstdlib>
#include <string>

#include "model.hpp"

namespace verif {
namespace refjson {

// ------------------------------------------------------------------ numbers
struct NumLit {
  bool wellFormed = false;  // RFC 8259 number grammar
  bool isInteger = false;   // integer literal (no fraction, no exponent) within [-2^63, 2^64)
  i128 ival = 0;
  long double v = 0;        // correctly rounded value (glibc strtold)
  bool negative = false;
  int sigDigits = 0;        // mantissa digits after stripping leading and trailing zeros
};

inline NumLit classifyNumber(const std::string& lit) {
  NumLit n;
  size_t i = 0, e = lit.size();
  if (i < e && lit[i] == '-') { n.negative = true; i++; }
  size_t intStart = i;
  if (i >= e) return n;
  if (lit[i] == '0') i++;
  else if (lit[i] >= '1' && lit[i] <= '9') { while (i < e && isdigit((unsigned char)lit[i])) i++; }
  else return n;
  size_t intEnd = i;
  bool frac = false, expo = false;
  size_t fracStart = i, fracEnd = i;
  if (i < e && lit[i] == '.') {
    frac = true;
    i++;
    fracStart = i;
    if (i >= e || !isdigit((unsigned char)lit[i])) return n;
    while (i < e && isdigit((unsigned char)lit[i])) i++;
    fracEnd = i;
  }
  if (i < e && (lit[i] == 'e' || lit[i] == 'E')) {
    expo = true;
    i++;
    if (i < e && (lit[i] == '+' || lit[i] == '-')) i++;
    if (i >= e || !isdigit((unsigned char)lit[i])) return n;
    while (i < e && isdigit((unsigned char)lit[i])) i++;
  }
  if (i != e) return n;
  n.wellFormed = true;
  std::string digits = lit.substr(intStart, intEnd - intStart) + lit.substr(fracStart, fracEnd - fracStart);
  size_t a = 0, b = digits.size();
  while (a < b && digits[a] == '0') a++;
  while (b > a && digits[b - 1] == '0') b--;
  n.sigDigits = int(b - a);
  n.v = strtold(lit.c_str(), nullptr);
  if (!frac && !expo) {
    // exact integer value if it fits
    unsigned __int128 u = 0;
    bool over = false;
    for (size_t k = intStart; k < intEnd; k++) {
      u = u * 10 + unsigned(lit[k] - '0');
      if (u > ((unsigned __int128)1 << 64)) { over = true; break; }
    }
    if (!over) {
      i128 val = n.negative ? -i128(u) : i128(u);
      if (val >= -(i128(1) << 63) && val < (i128(1) << 64)) {
        n.isInteger = true;
        n.ival = val;
      }
    }
  }
  return n;
}

// Does the library's answer `got` satisfy C12 for the literal described by n?  `why` explains a refusal.
inline bool numberAccepts(const NumLit& n, const MValue& got, std::string& why) {
  if (!got.isNumber()) { why = "not a number"; return false; }
  if (n.isInteger) {
    if (got.kind == MValue::Int && got.i == n.ival) return true;
    if (n.ival == 0 && got.isFloat() && got.asDouble() == 0) return true;  // "-0" may be kept as a floating zero
    why = "integer literal not stored as the exact integer";
    return false;
  }
  long double v = n.v;
  long double r = got.kind == MValue::Int ? (long double)got.i : (long double)got.asDouble();
  long double av = fabsl(v);
  if (v == 0) {
    if (r == 0) return true;
    why = "zero literal gave a non-zero value";
    return false;
  }
  bool inRange = av >= 1e-300L && av <= 1e300L;
  bool finite = std::isfinite((double)r) || got.kind == MValue::Int;
  auto within = [&]() {
    if (!finite) return false;
    long double tol = (n.sigDigits > 7 ? 1e-13L : 1e-6L) * av;
    return fabsl(r - v) <= tol;
  };
  auto signOk = [&]() { return (r < 0) == (v < 0) || r == 0; };
  if (inRange) {
    if (within()) return true;
    why = "outside the C12 tolerance";
    return false;
  }
  if (av > 1e300L) {
    bool isInf = !finite && std::isinf((double)r) && ((r < 0) == (v < 0));
    if (av > (long double)DBL_MAX) {
      // strictly above DBL_MAX (up to rounding): must be infinity; values that round to DBL_MAX may be either
      if (isInf) return true;
      if (av < (long double)DBL_MAX * (1 + 1e-13L) && within()) return true;
      why = "magnitude above DBL_MAX must give infinity";
      return false;
    }
    if (isInf || within()) return true;  // the gap (1e300, DBL_MAX]
    why = "neither infinity nor within tolerance in the upper gap";
    return false;
  }
  // av < 1e-300
  long double tiny = 4.9406564584124654e-324L;
  bool isZero = r == 0;
  if (av < tiny / 2) {
    if (isZero) return true;
    why = "magnitude below half the smallest denormal must give zero";
    return false;
  }
  if (isZero) return true;  // the lower gap: zero accepted
  // or a finite value of the right magnitude (denormals have reduced precision: accept 1e-6 relative or 1 denormal ulp)
  if (finite && signOk() && (fabsl(r - v) <= 1e-6L * av || fabsl(r - v) <= tiny)) return true;
  why = "wrong value in the lower gap";
  return false;
}

// ------------------------------------------------------------------ strict parser
struct Parser {
  const std::string& t;
  size_t p = 0;
  std::string err;
  size_t maxDepth = 0;
  bool keepLits = true;
  explicit Parser(const std::string& text) : t(text) {}

  void ws() { while (p < t.size() && (t[p] == ' ' || t[p] == '\t' || t[p] == '\n' || t[p] == '\r')) p++; }
  bool fail(const char* m) { if (err.empty()) err = m; return false; }

  static void utf8(uint32_t cp, std::string& r) {
    if (cp < 0x80) r.push_back(char(cp));
    else if (cp < 0x800) { r.push_back(char(0xC0 | (cp >> 6))); r.push_back(char(0x80 | (cp & 0x3F))); }
    else if (cp < 0x10000) {
      r.push_back(char(0xE0 | (cp >> 12))); r.push_back(char(0x80 | ((cp >> 6) & 0x3F))); r.push_back(char(0x80 | (cp & 0x3F)));
    } else {
      r.push_back(char(0xF0 | (cp >> 18))); r.push_back(char(0x80 | ((cp >> 12) & 0x3F)));
      r.push_back(char(0x80 | ((cp >> 6) & 0x3F))); r.push_back(char(0x80 | (cp & 0x3F)));
    }
  }
  bool hex4(uint32_t& u) {
    if (p + 4 > t.size()) return fail("short \\u");
    u = 0;
    for (int k = 0; k < 4; k++) {
      char c = t[p++];
      int d = c >= '0' && c <= '9' ? c - '0' : c >= 'a' && c <= 'f' ? c - 'a' + 10 : c >= 'A' && c <= 'F' ? c - 'A' + 10 : -1;
      if (d < 0) return fail("bad hex");
      u = u * 16 + unsigned(d);
    }
    return true;
  }
  // Structural RFC 8259 string; any byte other than '"' and '\\' stands for itself (see DESIGN 4.3).
  bool string(std::string& out) {
    if (p >= t.size() || t[p] != '"') return fail("expected string");
    p++;
    for (;;) {
      if (p >= t.size()) return fail("unterminated string");
      char c = t[p++];
      if (c == '"') return true;
      if (c != '\\') { out.push_back(c); continue; }
      if (p >= t.size()) return fail("unterminated escape");
      char e = t[p++];
      switch (e) {
        case '"': out.push_back('"'); break;
        case '\\': out.push_back('\\'); break;
        case '/': out.push_back('/'); break;
        case 'b': out.push_back('\b'); break;
        case 'f': out.push_back('\f'); break;
        case 'n': out.push_back('\n'); break;
        case 'r': out.push_back('\r'); break;
        case 't': out.push_back('\t'); break;
        case 'u': {
          uint32_t u;
          if (!hex4(u)) return false;
          if (u >= 0xD800 && u < 0xDC00) {
            if (p + 6 <= t.size() && t[p] == '\\' && t[p + 1] == 'u') {
              size_t save = p;
              p += 2;
              uint32_t lo;
              if (!hex4(lo)) return false;
              if (lo >= 0xDC00 && lo < 0xE000) { utf8(0x10000 + (((u & 0x3FF) << 10) | (lo & 0x3FF)), out); break; }
              p = save;
            }
            return fail("unpaired surrogate");
          }
          if (u >= 0xDC00 && u < 0xE000) return fail("unpaired surrogate");
          utf8(u, out);
          break;
        }
        default: return fail("bad escape");
      }
    }
  }
  bool value(MValue& m, size_t depth) {
    ws();
    if (p >= t.size()) return fail("unexpected end");
    char c = t[p];
    if (c == '[') {
      if (depth + 1 > maxDepth) maxDepth = depth + 1;
      p++;
      m = MValue::array();
      ws();
      if (p < t.size() && t[p] == ']') { p++; return true; }
      for (;;) {
        MValue e;
        if (!value(e, depth + 1)) return false;
        m.a.push_back(std::move(e));
        ws();
        if (p >= t.size()) return fail("unterminated array");
        if (t[p] == ',') { p++; continue; }
        if (t[p] == ']') { p++; return true; }
        return fail("expected , or ]");
      }
    }
    if (c == '{') {
      if (depth + 1 > maxDepth) maxDepth = depth + 1;
      p++;
      m = MValue::object();
      ws();
      if (p < t.size() && t[p] == '}') { p++; return true; }
      for (;;) {
        ws();
        std::string k;
        if (!string(k)) return false;
        ws();
        if (p >= t.size() || t[p] != ':') return fail("expected :");
        p++;
        MValue e;
        if (!value(e, depth + 1)) return false;
        m.o.emplace_back(std::move(k), std::move(e));
        ws();
        if (p >= t.size()) return fail("unterminated object");
        if (t[p] == ',') { p++; continue; }
        if (t[p] == '}') { p++; return true; }
        return fail("expected , or }");
      }
    }
    if (c == '"') { m = MValue::str(""); return string(m.s); }
    if (t.compare(p, 4, "true") == 0) { p += 4; m = MValue::boolean(true); return true; }
    if (t.compare(p, 5, "false") == 0) { p += 5; m = MValue::boolean(false); return true; }
    if (t.compare(p, 4, "null") == 0) { p += 4; m = MValue::null(); return true; }
    if (c == '-' || (c >= '0' && c <= '9')) {
      size_t q = p;
      while (q < t.size() && (isdigit((unsigned char)t[q]) || t[q] == '-' || t[q] == '+' || t[q] == '.' || t[q] == 'e' || t[q] == 'E')) q++;
      std::string lit = t.substr(p, q - p);
      NumLit n = classifyNumber(lit);
      if (!n.wellFormed) return fail("bad number");
      p = q;
      if (n.isInteger) m = MValue::integer(n.ival);
      else m = MValue::f64((double)n.v);
      m.s = lit;  // the literal travels with the number (tolerant comparison)
      return true;
    }
    return fail("unexpected character");
  }
};

// Parses exactly one RFC 8259 text (surrounding whitespace allowed).  Duplicate keys are kept.
inline bool parse(const std::string& text, MValue& out, std::string* err = nullptr, size_t* depth = nullptr) {
  Parser P(text);
  bool ok = P.value(out, 0);
  if (ok) {
    P.ws();
    if (P.p != text.size()) ok = P.fail("trailing characters");
  }
  if (err) *err = P.err;
  if (depth) *depth = P.maxDepth;
  return ok;
}

// "last occurrence wins" for repeated keys; the surviving member sits at the first (firstPos) or last occurrence.
inline MValue dedup(const MValue& m, bool firstPos) {
  MValue r = m;
  r.a.clear();
  r.o.clear();
  for (auto& e : m.a) r.a.push_back(dedup(e, firstPos));
  for (size_t i = 0; i < m.o.size(); i++) {
    const std::string& k = m.o[i].first;
    size_t last = i, first = i;
    for (size_t j = 0; j < m.o.size(); j++)
      if (m.o[j].first == k) { if (j < first) first = j; if (j > last) last = j; }
    if (firstPos ? i == first : i == last) r.o.emplace_back(k, dedup(m.o[last].second, firstPos));
  }
  return r;
}
inline bool hasDuplicateKeys(const MValue& m) {
  for (auto& e : m.a) if (hasDuplicateKeys(e)) return true;
  for (size_t i = 0; i < m.o.size(); i++) {
    for (size_t j = 0; j < i; j++) if (m.o[i].first == m.o[j].first) return true;
    if (hasDuplicateKeys(m.o[i].second)) return true;
  }
  return false;
}

// Tolerant comparison of a value extracted from the library (`got`) with the reference (`want`).
// Numbers of `want` that carry their literal (m.s) are judged by numberAccepts(); other numbers exactly.
inline bool matches(const MValue& got, const MValue& want, std::string& why, const std::string& path = "$") {
  if (want.isNumber()) {
    if (!want.s.empty()) {
      NumLit n = classifyNumber(want.s);
      std::string w;
      if (numberAccepts(n, got, w)) return true;
      why = path + ": literal " + want.s + ": " + w + " (got " + mtext(got) + ")";
      return false;
    }
    if (got.isNumber() && ((got.kind == MValue::Int) == (want.kind == MValue::Int)) &&
        (want.kind == MValue::Int ? got.i == want.i
                                  : (dbits(got.asDouble()) == dbits(want.asDouble()) ||
                                     (got.asDouble() != got.asDouble() && want.asDouble() != want.asDouble()))))
      return true;
    why = path + ": number " + mtext(got) + " != " + mtext(want);
    return false;
  }
  if (got.kind != want.kind) { why = path + ": kind " + mtext(got).substr(0, 80) + " vs " + mtext(want).substr(0, 80); return false; }
  switch (want.kind) {
    case MValue::Bool: if (got.b != want.b) { why = path + ": bool"; return false; } return true;
    case MValue::Str:
    case MValue::Raw:
      if (got.s != want.s) { why = path + ": bytes " + hex(got.s) + " != " + hex(want.s); return false; }
      return true;
    case MValue::Arr:
      if (got.a.size() != want.a.size()) { why = path + ": array size " + std::to_string(got.a.size()) + " != " + std::to_string(want.a.size()); return false; }
      for (size_t i = 0; i < want.a.size(); i++)
        if (!matches(got.a[i], want.a[i], why, path + "[" + std::to_string(i) + "]")) return false;
      return true;
    case MValue::Obj:
      if (got.o.size() != want.o.size()) { why = path + ": object size " + std::to_string(got.o.size()) + " != " + std::to_string(want.o.size()); return false; }
      for (size_t i = 0; i < want.o.size(); i++) {
        if (got.o[i].first != want.o[i].first) { why = path + ": key order/bytes " + hex(got.o[i].first) + " != " + hex(want.o[i].first); return false; }
        if (!matches(got.o[i].second, want.o[i].second, why, path + "." + vis(want.o[i].first))) return false;
      }
      return true;
    default: return true;
  }
}

// ------------------------------------------------------------------ reference printer
struct PrintOpt {
  int spelling = 0;  // strings: 0 raw bytes where legal + short escapes, 1 short escapes incl. \/, 2 \uXXXX upper for everything < 0x80 that needs or allows it, 3 \uxxxx lower
  int layout = 0;    // 0 none, 1 one space at every ws position, 2 "\r\n\t " at every position, 3 = single position `wsPos` filled with `wsChar`
  int wsPos = -1;
  char wsChar = ' ';
  mutable int posCounter = 0;
};

inline void wsAt(const PrintOpt& o, std::string& r) {
  int pos = o.posCounter++;
  switch (o.layout) {
    case 1: r += " "; break;
    case 2: r += "\r\n\t "; break;
    case 3: if (pos == o.wsPos) r.push_back(o.wsChar); break;
    default: break;
  }
}

// decode well-formed UTF-8 at s[i] (returns code point and advances), or -1
inline int32_t decodeUtf8(const std::string& s, size_t& i) {
  unsigned char c = (unsigned char)s[i];
  auto cont = [&](size_t k) { return k < s.size() && (((unsigned char)s[k]) & 0xC0) == 0x80; };
  if (c < 0x80) { i++; return c; }
  if ((c & 0xE0) == 0xC0 && c >= 0xC2 && cont(i + 1)) { int32_t cp = ((c & 0x1F) << 6) | (s[i + 1] & 0x3F); i += 2; return cp; }
  if ((c & 0xF0) == 0xE0 && cont(i + 1) && cont(i + 2)) {
    int32_t cp = ((c & 0x0F) << 12) | ((s[i + 1] & 0x3F) << 6) | (s[i + 2] & 0x3F);
    if (cp >= 0x800 && !(cp >= 0xD800 && cp < 0xE000)) { i += 3; return cp; }
  }
  if ((c & 0xF8) == 0xF0 && cont(i + 1) && cont(i + 2) && cont(i + 3)) {
    int32_t cp = ((c & 0x07) << 18) | ((s[i + 1] & 0x3F) << 12) | ((s[i + 2] & 0x3F) << 6) | (s[i + 3] & 0x3F);
    if (cp >= 0x10000 && cp <= 0x10FFFF) { i += 4; return cp; }
  }
  return -1;
}

inline void printString(const std::string& s, const PrintOpt& o, std::string& r) {
  char buf[16];
  r.push_back('"');
  for (size_t i = 0; i < s.size();) {
    unsigned char c = (unsigned char)s[i];
    auto uesc = [&](uint32_t u) { snprintf(buf, sizeof buf, o.spelling == 3 ? "\\u%04x" : "\\u%04X", u); r += buf; };
    if (o.spelling >= 2) {
      size_t j = i;
      int32_t cp = decodeUtf8(s, j);
      if (cp >= 0) {
        if (cp < 0x10000) uesc(uint32_t(cp));
        else { uint32_t v = uint32_t(cp) - 0x10000; uesc(0xD800 + (v >> 10)); uesc(0xDC00 + (v & 0x3FF)); }
        i = j;
        continue;
      }
      r.push_back(char(c));  // ill-formed UTF-8 byte: verbatim
      i++;
      continue;
    }
    i++;
    switch (c) {
      case '"': r += "\\\""; break;
      case '\\': r += "\\\\"; break;
      case '\b': r += "\\b"; break;
      case '\f': r += "\\f"; break;
      case '\n': r += "\\n"; break;
      case '\r': r += "\\r"; break;
      case '\t': r += "\\t"; break;
      case '/': r += (o.spelling == 1 ? "\\/" : "/"); break;
      default:
        if (c < 0x20) uesc(c);
        else r.push_back(char(c));
    }
  }
  r.push_back('"');
}

// Numbers are printed from m.s (the literal) when present, else integers digit-exact and floats with %.17g.
inline void print(const MValue& m, const PrintOpt& o, std::string& r) {
  char buf[64];
  switch (m.kind) {
    case MValue::Null: r += "null"; break;
    case MValue::Bool: r += m.b ? "true" : "false"; break;
    case MValue::Int: r += m.s.empty() ? i128str(m.i) : m.s; break;
    case MValue::F32:
    case MValue::F64:
      if (!m.s.empty()) r += m.s;
      else { snprintf(buf, sizeof buf, "%.17g", m.asDouble()); r += buf; }
      break;
    case MValue::Str: printString(m.s, o, r); break;
    case MValue::Raw: r += m.s; break;
    case MValue::Arr:
      r += "[";
      wsAt(o, r);
      for (size_t i = 0; i < m.a.size(); i++) {
        if (i) { r += ","; wsAt(o, r); }
        print(m.a[i], o, r);
        wsAt(o, r);
      }
      r += "]";
      break;
    case MValue::Obj:
      r += "{";
      wsAt(o, r);
      for (size_t i = 0; i < m.o.size(); i++) {
        if (i) { r += ","; wsAt(o, r); }
        printString(m.o[i].first, o, r);
        wsAt(o, r);
        r += ":";
        wsAt(o, r);
        print(m.o[i].second, o, r);
        wsAt(o, r);
      }
      r += "}";
      break;
  }
}
inline std::string printDoc(const MValue& m, const PrintOpt& o) {
  std::string r;
  o.posCounter = 0;
  wsAt(o, r);
  print(m, o, r);
  wsAt(o, r);
  return r;
}
// number of whitespace positions of the document (for layout 3)
inline int wsPositions(const MValue& m) {
  PrintOpt o;
  o.layout = 0;
  printDoc(m, o);
  return o.posCounter;
}

}  // namespace refjson
}  // namespace verif
