// Independent recogniser of the JSON dialect that deserializeJson documents (DESIGN 5/C10).
// Own tokenizer with explicit look-ahead; shares no code with ArduinoJson.  The verdict is a SET of
// acceptable result codes (three-valued oracle): a singleton where the statement/documentation/tests
// fix the answer, a larger set in the written-down DontCare zones.
#pragma once
#include <string>

#include "model.hpp"
#include "refjson.hpp"

namespace verif {
namespace dialect {

enum Code { OK = 1, EMPTY = 2, INCOMPLETE = 4, INVALID = 8, TOODEEP = 16, NOMEMORY = 32, ANY = 63 };

struct Options {
  bool comments = false, nan = false, inf = false, unicode = true;
  int limit = 10;
};

struct Result {
  int accept = 0;        // bit set of acceptable codes
  MValue value;          // when OK is acceptable: the value the dialect assigns (duplicate keys kept)
  bool valueKnown = true;  // false: Ok is acceptable but the value is not pinned down
  std::string zone;      // name of the DontCare clause that widened the verdict (for statistics)
};

inline const char* codeName(int c) {
  switch (c) {
    case OK: return "Ok";
    case EMPTY: return "EmptyInput";
    case INCOMPLETE: return "IncompleteInput";
    case INVALID: return "InvalidInput";
    case TOODEEP: return "TooDeep";
    case NOMEMORY: return "NoMemory";
    default: return "?";
  }
}
inline std::string setName(int s) {
  if (s == ANY) return "DontCare";
  std::string r;
  for (int b = 1; b < 64; b <<= 1) if (s & b) r += std::string(r.empty() ? "" : "|") + codeName(b);
  return r;
}

struct Stop {  // thrown-like status carried up the recursion
  int accept;
  std::string zone;
};

class Recogniser {
 public:
  Recogniser(const std::string& text, const Options& o) : t(text.substr(0, text.find('\0'))), opt(o) {}

  Result run() {
    Result R;
    Stop s{0, ""};
    int w = skipWs(s);
    if (w == WS_STOP) { R.accept = s.accept; R.zone = s.zone; return R; }
    if (w == WS_EOF) {
      R.accept = EMPTY;
      return R;
    }
    bool isNumber = false;
    if (!value(R.value, 1, s, &isNumber)) {
      R.accept = s.accept;
      R.zone = s.zone;
      return R;
    }
    R.accept = OK;
    if (isNumber && p < t.size()) {
      char c = t[p];
      if (!(c == ' ' || c == '\t' || c == '\r' || c == '\n')) {
        // any other byte after a top-level number: the tests demand InvalidInput for "1," "2]" "6a9",
        // the statement speaks of arbitrary trailing bytes (DESIGN 4.3)
        R.accept = OK | INVALID;
        R.zone = "byte-after-top-level-number";
      }
    }
    if (dontCareValue) R.valueKnown = false;
    return R;
  }

 private:
  std::string t;
  Options opt;
  size_t p = 0;
  bool dontCareValue = false;
  enum { WS_OK, WS_EOF, WS_STOP };

  bool eof() const { return p >= t.size(); }
  static bool isWs(char c) { return c == ' ' || c == '\t' || c == '\r' || c == '\n'; }

  // skips whitespace (and comments when enabled); at top level before anything was found `topLevel` is true
  int skipWs(Stop& s, bool topLevel = true) {
    for (;;) {
      if (eof()) return WS_EOF;
      char c = t[p];
      if (isWs(c)) { p++; continue; }
      if (opt.comments && c == '/') {
        if (p + 1 >= t.size()) { s = {INVALID | INCOMPLETE, "slash-at-end"}; return WS_STOP; }
        char d = t[p + 1];
        if (d == '*') {
          size_t q = t.find("*/", p + 2);
          if (q == std::string::npos) {
            s = {topLevel ? (INCOMPLETE | EMPTY) : INCOMPLETE, topLevel ? "unterminated-comment-at-top" : ""};
            return WS_STOP;
          }
          p = q + 2;
          continue;
        }
        if (d == '/') {
          size_t q = t.find('\n', p + 2);
          if (q == std::string::npos) {
            // a line comment that runs to the end of the input: complete or not is a matter of taste at top level
            s = {topLevel ? (INCOMPLETE | EMPTY) : INCOMPLETE, topLevel ? "line-comment-to-end" : ""};
            return WS_STOP;
          }
          p = q;  // the newline itself is whitespace
          continue;
        }
        s = {INVALID, ""};
        return WS_STOP;
      }
      return WS_OK;
    }
  }

  bool fail(Stop& s, int accept, const std::string& zone = "") {
    s = {accept, zone};
    return false;
  }

  static int hexv(char c) {
    return c >= '0' && c <= '9' ? c - '0' : c >= 'a' && c <= 'f' ? c - 'a' + 10 : c >= 'A' && c <= 'F' ? c - 'A' + 10 : -1;
  }

  bool string(std::string& out, Stop& s) {
    char q = t[p++];
    uint32_t pendingHigh = 0;
    bool havePending = false;
    for (;;) {
      if (eof()) return fail(s, INCOMPLETE);
      char c = t[p++];
      if (c == q) break;
      if (c != '\\') {
        if (havePending) return fail(s, ANY, "unpaired-surrogate");
        out.push_back(c);
        continue;
      }
      if (eof()) return fail(s, INCOMPLETE);
      char e = t[p];
      if (e == 'u') {
        if (!opt.unicode) {
          out.push_back('\\');  // the 'u' and what follows are ordinary characters
          continue;
        }
        p++;
        uint32_t u = 0;
        for (int k = 0; k < 4; k++) {
          if (eof()) return fail(s, INCOMPLETE);
          int d = hexv(t[p]);
          if (d < 0) return fail(s, INVALID);
          u = u * 16 + uint32_t(d);
          p++;
        }
        if (u >= 0xD800 && u < 0xDC00) {
          if (havePending) return fail(s, ANY, "unpaired-surrogate");
          havePending = true;
          pendingHigh = u;
          continue;
        }
        if (u >= 0xDC00 && u < 0xE000) {
          if (!havePending) return fail(s, ANY, "unpaired-surrogate");
          havePending = false;
          refjson::Parser::utf8(0x10000 + (((pendingHigh & 0x3FF) << 10) | (u & 0x3FF)), out);
          continue;
        }
        if (havePending) return fail(s, ANY, "unpaired-surrogate");
        refjson::Parser::utf8(u, out);
        continue;
      }
      if (havePending) return fail(s, ANY, "unpaired-surrogate");
      p++;
      switch (e) {
        case '"': out.push_back('"'); break;
        case '\'': out.push_back('\''); break;
        case '\\': out.push_back('\\'); break;
        case '/': out.push_back('/'); break;
        case 'b': out.push_back('\b'); break;
        case 'f': out.push_back('\f'); break;
        case 'n': out.push_back('\n'); break;
        case 'r': out.push_back('\r'); break;
        case 't': out.push_back('\t'); break;
        default: return fail(s, INVALID);
      }
    }
    if (havePending) return fail(s, ANY, "unpaired-surrogate");
    return true;
  }

  bool keyword(const char* kw, Stop& s) {
    for (const char* k = kw; *k; k++) {
      if (eof()) return fail(s, INCOMPLETE);
      if (t[p] != *k) return fail(s, INVALID);
      p++;
    }
    return true;
  }

  static bool isNumChar(char c) { return (c >= '0' && c <= '9') || c == '+' || c == '-' || c == '.' || c == 'e' || c == 'E'; }
  static bool isLetter(char c) { return (c >= 'a' && c <= 'z') || (c >= 'A' && c <= 'Z'); }

  bool number(MValue& m, Stop& s) {
    size_t start = p;
    bool lettersOn = opt.nan || opt.inf;
    // with NaN/Infinity enabled the number token may contain letters
    size_t q = p;
    while (q < t.size() && (isNumChar(t[q]) || (lettersOn && isLetter(t[q])))) q++;
    std::string ext = t.substr(start, q - start);
    bool hasOtherLetters = false;
    for (char c : ext) if (isLetter(c) && c != 'e' && c != 'E') hasOtherLetters = true;
    if (lettersOn && hasOtherLetters) {
      p = q;
      if (opt.nan && ext == "NaN") { m = MValue::f64(std::numeric_limits<double>::quiet_NaN()); return true; }
      if (opt.inf && (ext == "Infinity" || ext == "+Infinity")) { m = MValue::f64(std::numeric_limits<double>::infinity()); return true; }
      if (opt.inf && ext == "-Infinity") { m = MValue::f64(-std::numeric_limits<double>::infinity()); return true; }
      // the exact spelling of the option that is NOT enabled stays what it is without the options: not JSON
      if (ext == "NaN" || ext == "Infinity" || ext == "+Infinity" || ext == "-Infinity") return fail(s, INVALID);
      return fail(s, ANY, "letter-run-with-nan-or-infinity-enabled");
    }
    q = p;
    while (q < t.size() && isNumChar(t[q])) q++;
    std::string r = t.substr(start, q - start);
    if (r.empty()) {
      // a character that cannot start a value (also: NaN / Infinity when the options are off)
      return fail(s, INVALID);
    }
    p = q;
    if (r.size() > 63) return fail(s, INVALID);
    // lenient grammar:  [+-]? digits* ( '.' digits* )? ( [eE] [+-]? digits* )?
    size_t i = 0;
    bool neg = false;
    if (r[i] == '+' || r[i] == '-') { neg = r[i] == '-'; i++; }
    size_t i0 = i;
    while (i < r.size() && isdigit((unsigned char)r[i])) i++;
    std::string ip = r.substr(i0, i - i0), fp, ep;
    bool dot = false, ex = false, exNeg = false;
    if (i < r.size() && r[i] == '.') {
      dot = true;
      i++;
      size_t f0 = i;
      while (i < r.size() && isdigit((unsigned char)r[i])) i++;
      fp = r.substr(f0, i - f0);
    }
    if (i < r.size() && (r[i] == 'e' || r[i] == 'E')) {
      ex = true;
      i++;
      if (i < r.size() && (r[i] == '+' || r[i] == '-')) { exNeg = r[i] == '-'; i++; }
      size_t e0 = i;
      while (i < r.size() && isdigit((unsigned char)r[i])) i++;
      ep = r.substr(e0, i - e0);
    }
    bool mantissaDigits = !ip.empty() || !fp.empty();
    if (i != r.size()) {
      // leftover characters: a second dot, a sign in the wrong place, a second exponent marker ...
      if (ex && !ep.empty() && ep.size() >= 3) return fail(s, ANY, "after-overflowing-exponent");
      return fail(s, INVALID);
    }
    if (!mantissaDigits) {
      if (r == "+" || r == "-") return fail(s, INVALID);
      return fail(s, ANY, "number-without-mantissa-digit");
    }
    if (ex && ep.empty()) {
      return fail(s, ANY, "exponent-marker-without-digits");
    }
    // normalise to an RFC literal that carries the same value
    while (ip.size() > 1 && ip[0] == '0') ip.erase(0, 1);
    if (ip.empty()) ip = "0";
    std::string lit = (neg ? "-" : "") + ip;
    if (dot) lit += "." + (fp.empty() ? std::string("0") : fp);
    if (ex) lit += std::string("e") + (exNeg ? "-" : "") + ep;
    refjson::NumLit n = refjson::classifyNumber(lit);
    m = n.isInteger ? MValue::integer(n.ival) : MValue::f64((double)n.v);
    m.s = lit;
    return true;
  }

  static bool isIdChar(char c) { return (c >= '0' && c <= '9') || (c >= 'a' && c <= 'z') || (c >= 'A' && c <= 'Z') || c == '_'; }

  bool value(MValue& m, int depth, Stop& s, bool* isNumber = nullptr) {
    char c = t[p];
    if (c == '[') {
      if (depth > opt.limit) return fail(s, TOODEEP);
      p++;
      m = MValue::array();
      int w = skipWs(s, false);
      if (w == WS_STOP) return false;
      if (w == WS_EOF) return fail(s, INCOMPLETE);
      if (t[p] == ']') { p++; return true; }
      for (;;) {
        w = skipWs(s, false);
        if (w == WS_STOP) return false;
        if (w == WS_EOF) return fail(s, INCOMPLETE);
        MValue e;
        if (!value(e, depth + 1, s)) return false;
        m.a.push_back(std::move(e));
        w = skipWs(s, false);
        if (w == WS_STOP) return false;
        if (w == WS_EOF) return fail(s, INCOMPLETE);
        if (t[p] == ']') { p++; return true; }
        if (t[p] != ',') return fail(s, INVALID);
        p++;
      }
    }
    if (c == '{') {
      if (depth > opt.limit) return fail(s, TOODEEP);
      p++;
      m = MValue::object();
      int w = skipWs(s, false);
      if (w == WS_STOP) return false;
      if (w == WS_EOF) return fail(s, INCOMPLETE);
      if (t[p] == '}') { p++; return true; }
      for (;;) {
        std::string key;
        char k = t[p];
        if (k == '"' || k == '\'') {
          if (!string(key, s)) return false;
        } else {
          size_t q = p;
          bool backtick = false;
          while (q < t.size() && (isIdChar(t[q]) || t[q] == '`')) { backtick = backtick || t[q] == '`'; q++; }
          if (q == p) return fail(s, INVALID);
          if (backtick) return fail(s, ANY, "backtick-in-unquoted-key");
          key = t.substr(p, q - p);
          p = q;
        }
        w = skipWs(s, false);
        if (w == WS_STOP) return false;
        if (w == WS_EOF) return fail(s, INCOMPLETE);
        if (t[p] != ':') return fail(s, INVALID);
        p++;
        w = skipWs(s, false);
        if (w == WS_STOP) return false;
        if (w == WS_EOF) return fail(s, INCOMPLETE);
        MValue e;
        if (!value(e, depth + 1, s)) return false;
        m.o.emplace_back(std::move(key), std::move(e));
        w = skipWs(s, false);
        if (w == WS_STOP) return false;
        if (w == WS_EOF) return fail(s, INCOMPLETE);
        if (t[p] == '}') { p++; return true; }
        if (t[p] != ',') return fail(s, INVALID);
        p++;
        w = skipWs(s, false);
        if (w == WS_STOP) return false;
        if (w == WS_EOF) return fail(s, INCOMPLETE);
      }
    }
    if (c == '"' || c == '\'') {
      m = MValue::str("");
      return string(m.s, s);
    }
    if (c == 't') { m = MValue::boolean(true); return keyword("true", s); }
    if (c == 'f') { m = MValue::boolean(false); return keyword("false", s); }
    if (c == 'n') { m = MValue::null(); return keyword("null", s); }
    if (isNumber) *isNumber = true;
    return number(m, s);
  }
};

inline Result recognise(const std::string& text, const Options& o) {
  Recogniser R(text, o);
  return R.run();
}

}  // namespace dialect
}  // namespace verif
