// Exhaustive generator of all MValue trees with exactly / at most N nodes over given alphabets.
#pragma once
#include <functional>
#include <string>
#include <vector>

#include "model.hpp"

namespace verif {

struct TreeGen {
  std::vector<MValue> leavesTop;    // leaf alphabet at depth < deepFrom
  std::vector<MValue> leavesDeep;   // leaf alphabet at depth >= deepFrom (reduced); empty = same as top
  std::vector<std::string> keys;    // key alphabet
  bool dupKeys = false;             // allow the same key twice in one object
  bool arrays = true, objects = true, emptyContainers = true;
  int deepFrom = 2;
  int maxDepth = 64;
  const bool* abort = nullptr;      // when set and true, the enumeration unwinds without producing further trees
  bool stopped() const { return abort && *abort; }

  typedef std::function<void(const MValue&)> Sink;

  const std::vector<MValue>& leaves(int d) const { return (d >= deepFrom && !leavesDeep.empty()) ? leavesDeep : leavesTop; }

  // all trees with exactly n nodes rooted at depth d
  void exact(int n, int d, const Sink& f) const {
    if (stopped()) return;
    if (n == 1) {
      for (auto& l : leaves(d)) { if (stopped()) return; f(l); }
      if (emptyContainers && d < maxDepth) {
        if (arrays) f(MValue::array());
        if (objects) f(MValue::object());
      }
      return;
    }
    if (d >= maxDepth) return;
    std::vector<MValue> acc;
    if (arrays) {
      forest(n - 1, d + 1, acc, [&](const std::vector<MValue>& kids) {
        MValue m = MValue::array();
        m.a = kids;
        f(m);
      });
    }
    if (objects) {
      forest(n - 1, d + 1, acc, [&](const std::vector<MValue>& kids) {
        std::vector<size_t> ki(kids.size(), 0);
        std::function<void(size_t)> assign = [&](size_t i) {
          if (i == kids.size()) {
            MValue m = MValue::object();
            for (size_t j = 0; j < kids.size(); j++) m.o.emplace_back(keys[ki[j]], kids[j]);
            f(m);
            return;
          }
          for (size_t k = 0; k < keys.size(); k++) {
            if (stopped()) return;
            if (!dupKeys) {
              bool used = false;
              for (size_t j = 0; j < i; j++) used = used || ki[j] == k;
              if (used) continue;
            }
            ki[i] = k;
            assign(i + 1);
          }
        };
        assign(0);
      });
    }
  }
  // all non-empty sequences of trees with n nodes in total
  void forest(int n, int d, std::vector<MValue>& acc, const std::function<void(const std::vector<MValue>&)>& g) const {
    if (n == 0) {
      g(acc);
      return;
    }
    for (int s = 1; s <= n; s++) {
      if (stopped()) return;
      exact(s, d, [&](const MValue& t) {
        if (stopped()) return;
        acc.push_back(t);
        forest(n - s, d, acc, g);
        acc.pop_back();
      });
    }
  }
  void upTo(int n, const Sink& f) const {
    for (int k = 1; k <= n; k++) exact(k, 0, f);
  }
};

}  // namespace verif
