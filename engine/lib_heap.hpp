// Observes the library's own use of the C heap (ArduinoJson::detail::DefaultAllocator is the only place of the library
// that calls malloc / realloc / free).  Must be the FIRST include of a translation unit: the system headers the library
// uses are included here, then the three names are redirected while <ArduinoJson.h> is read, and restored afterwards.
// A document that was given its own allocator may never reach these functions (C06: "all memory is requested from the
// allocator given to the document").  Not used in the Arduino-stub builds (the String stub legitimately uses the heap).
#pragma once
#include <assert.h>
#include <stddef.h>
#include <stdint.h>
#include <stdlib.h>
#include <string.h>

#include <cstdlib>
#include <cstring>
#include <istream>
#include <ostream>
#include <string>
#include <string_view>

namespace verif {
inline uint64_t& libHeapCalls() {
  static uint64_t n = 0;
  return n;
}
}  // namespace verif
inline void* verif_lib_malloc(size_t n) {
  verif::libHeapCalls()++;
  return malloc(n);
}
inline void* verif_lib_realloc(void* p, size_t n) {
  verif::libHeapCalls()++;
  return realloc(p, n);
}
inline void verif_lib_free(void* p) {
  if (p) verif::libHeapCalls()++;
  free(p);
}
#define VERIF_LIB_HEAP 1
#define malloc verif_lib_malloc
#define realloc verif_lib_realloc
#define free verif_lib_free
#include <ArduinoJson.h>
#undef malloc
#undef realloc
#undef free
