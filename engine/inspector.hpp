// Read-only walk of the concrete state of a JsonDocument (pools, free list, string pool, slot graph)
// through the friend hook BBLANCHON_ARDUINOJSON_VERIF.  Used to (a) canonicalise hidden state for the
// explicit-state search key and (b) assert concrete-state invariants.  Never modifies anything.
#pragma once
#include <ArduinoJson.h>

#include <map>
#include <set>
#include <string>
#include <vector>

#include "common.hpp"

namespace verif {

struct Inspector {
  typedef ArduinoJson::detail::ResourceManager RM;
  typedef ArduinoJson::detail::VariantData VD;
  typedef ArduinoJson::detail::VariantType VT;
  typedef ArduinoJson::detail::SlotId SlotId;
  typedef ArduinoJson::detail::StringNode StringNode;

  struct Report {
    std::string key;     // canonical concrete state (no addresses)
    std::string errors;  // violated invariants
    size_t slotsUsed = 0, slotsLinked = 0, slotsExt = 0, slotsFree = 0, stringNodes = 0, pools = 0;
  };

  static const RM& rm(const ArduinoJson::JsonDocument& d) { return d.resources_; }
  static const VD& root(const ArduinoJson::JsonDocument& d) { return d.data_; }
  static ArduinoJson::Allocator* allocator(const ArduinoJson::JsonDocument& d) { return d.resources_.allocator_; }
  static size_t freeListLength(const ArduinoJson::JsonDocument& d) {
    auto& pl = d.resources_.variantPools_;
    size_t n = 0;
    SlotId id = pl.freeList_;
    while (id != ArduinoJson::detail::NULL_SLOT && n < 100000) {
      n++;
      id = slotNextFree(d, id);
    }
    return n;
  }

  static SlotId slotNextFree(const ArduinoJson::JsonDocument& d, SlotId id) {
    auto& pl = d.resources_.variantPools_;
    auto pool = SlotId(id / ARDUINOJSON_POOL_CAPACITY), idx = SlotId(id % ARDUINOJSON_POOL_CAPACITY);
    const void* p = pl.pools_[pool].slots_ + idx;
    SlotId next;
    memcpy(&next, p, sizeof next);
    return next;
  }

  static bool validId(const ArduinoJson::JsonDocument& d, SlotId id) {
    auto& pl = d.resources_.variantPools_;
    auto pool = size_t(id / ARDUINOJSON_POOL_CAPACITY), idx = size_t(id % ARDUINOJSON_POOL_CAPACITY);
    return id != ArduinoJson::detail::NULL_SLOT && pool < size_t(pl.count_) && idx < size_t(pl.pools_[pool].usage_);
  }
  static const VD* slot(const ArduinoJson::JsonDocument& d, SlotId id) {
    auto& pl = d.resources_.variantPools_;
    auto pool = size_t(id / ARDUINOJSON_POOL_CAPACITY), idx = size_t(id % ARDUINOJSON_POOL_CAPACITY);
    return reinterpret_cast<const VD*>(pl.pools_[pool].slots_ + idx);
  }

  struct Walk {
    const ArduinoJson::JsonDocument& d;
    std::map<size_t, int> linked, ext;           // slot id -> number of uses
    std::map<const StringNode*, int> stringUses;  // node -> users found in the tree
    std::map<const StringNode*, int> rawUses;     // node -> users that are raw values (serialized(), MsgPackBinary, MsgPackExtension)
    std::map<const StringNode*, int> nodeIndex;
    std::string key, errors;
    size_t budget = 200000;

    void variant(const VD* v, int depth) {
      if (!budget || depth > 400) {
        errors += "walk budget exhausted (cyclic structure?); ";
        return;
      }
      budget--;
      char buf[64];
      snprintf(buf, sizeof buf, "t%02x", unsigned(v->type_));
      key += buf;
      switch (v->type_) {
        case VT::Null: break;
        case VT::Boolean: key += v->content_.asBoolean ? "1" : "0"; break;
        case VT::Int32: case VT::Uint32:
          snprintf(buf, sizeof buf, "=%08x", v->content_.asUint32); key += buf; break;
        case VT::Float:
          snprintf(buf, sizeof buf, "=%08x", fbitsOf(v->content_.asFloat)); key += buf; break;
        case VT::LinkedString: key += "=L\"" + vis(v->content_.asLinkedString) + "\""; break;
        case VT::OwnedString:
        case VT::RawString: {
          const StringNode* n = v->content_.asOwnedString;
          auto it = nodeIndex.find(n);
          if (it == nodeIndex.end()) {
            errors += "variant points to a string node that is not in the pool; ";
            key += "=S?";
          } else {
            stringUses[n]++;
            if (v->type_ == VT::RawString) rawUses[n]++;
            key += "=S" + std::to_string(it->second);
          }
          break;
        }
        case VT::Array:
        case VT::Object: collection(v, depth); break;
        default:
          if (uint8_t(v->type_) & 0x10) {  // extension slot (int64 / uint64 / double)
            SlotId id = v->content_.asSlotId;
            if (!validId(d, id)) {
              errors += "extension id out of range; ";
              break;
            }
            ext[id]++;
            uint64_t bits;
            memcpy(&bits, slot(d, id), 8);
            snprintf(buf, sizeof buf, "=x%u:%016llx", unsigned(id), (unsigned long long)bits);
            key += buf;
          } else {
            errors += "unknown variant type; ";
          }
      }
    }
    void collection(const VD* v, int depth) {
      bool isObj = v->type_ == VT::Object;
      SlotId head = v->content_.asCollection.head_, tail = v->content_.asCollection.tail_;
      key += isObj ? "{" : "[";
      SlotId id = head, last = ArduinoJson::detail::NULL_SLOT;
      size_t n = 0;
      while (id != ArduinoJson::detail::NULL_SLOT) {
        if (!validId(d, id)) {
          errors += "list contains slot id " + std::to_string(unsigned(id)) + " which is out of range; ";
          break;
        }
        if (++linked[id] > 1) {
          errors += "slot " + std::to_string(unsigned(id)) + " linked more than once (cycle or sharing); ";
          break;
        }
        const VD* e = slot(d, id);
        key += "#" + std::to_string(unsigned(id)) + ":";
        if (isObj && (n % 2) == 0 && !(e->type_ == VT::LinkedString || e->type_ == VT::OwnedString))
          errors += "object key slot does not hold a string; ";
        variant(e, depth + 1);
        key += ",";
        last = id;
        id = e->next_;
        n++;
        if (!budget) break;
      }
      if (last != tail && errors.empty()) errors += "tail_ does not designate the last slot of the list; ";
      if (isObj && (n % 2)) errors += "object list has odd length; ";
      key += isObj ? "}" : "]";
    }
    static uint32_t fbitsOf(float f) { uint32_t u; memcpy(&u, &f, 4); return u; }
  };

  static Report inspect(const ArduinoJson::JsonDocument& d) {
    Report r;
    auto& res = d.resources_;
    auto& pl = res.variantPools_;
    Walk w{d};
    // string pool, in scan order
    int idx = 0;
    std::string spool = "S(";
    std::vector<const StringNode*> nodes;
    for (const StringNode* n = res.stringPool_.strings_; n && idx < 100000; n = n->next) {
      w.nodeIndex[n] = idx++;
      nodes.push_back(n);
      spool += "\"" + vis(std::string(n->data, n->length)) + "\"x" + std::to_string(unsigned(n->references)) + ",";
    }
    spool += ")";
    r.stringNodes = nodes.size();
    // pools
    std::string pools = "P(";
    size_t used = 0;
    for (size_t i = 0; i < size_t(pl.count_); i++) {
      pools += std::to_string(unsigned(pl.pools_[i].usage_)) + "/" + std::to_string(unsigned(pl.pools_[i].capacity_)) + ",";
      used += pl.pools_[i].usage_;
      if (pl.pools_[i].usage_ > pl.pools_[i].capacity_) w.errors += "pool usage above capacity; ";
    }
    pools += ";cap=" + std::to_string(unsigned(pl.capacity_)) + (pl.pools_ == pl.preallocatedPools_ ? "i" : "h") + ")";
    r.pools = pl.count_;
    r.slotsUsed = used;
    // free list
    std::map<size_t, int> freeCount;
    std::string fl = "F(";
    {
      SlotId id = pl.freeList_;
      size_t n = 0;
      while (id != ArduinoJson::detail::NULL_SLOT) {
        if (!validId(d, id)) {
          w.errors += "free list contains an id out of range; ";
          break;
        }
        if (++freeCount[id] > 1) {
          w.errors += "free list is cyclic; ";
          break;
        }
        fl += std::to_string(unsigned(id)) + ",";
        id = slotNextFree(d, id);
        if (++n > used + 1) break;
      }
    }
    fl += ")";
    // tree
    w.variant(&d.data_, 0);
    {
      // the terminator and the "equal copied strings are stored once" promise concern nodes that some value uses as a STRING;
      // a node used only by raw values (MsgPackBinary / MsgPackExtension built through the API are stored without a
      // terminator and without a look-up) is outside both
      auto rawOnly = [&](const StringNode* n) {
        int all = w.stringUses.count(n) ? w.stringUses[n] : 0, raw = w.rawUses.count(n) ? w.rawUses[n] : 0;
        return all > 0 && all == raw;
      };
      for (const StringNode* n : nodes)
        if (!rawOnly(n) && n->data[n->length] != 0) w.errors += "string node not NUL-terminated; ";
      std::set<std::string> contents;  // linear in the number of nodes (documents with tens of thousands of keys)
      for (const StringNode* n : nodes)
        if (!rawOnly(n) && !contents.insert(std::string(n->data, n->length)).second)
          w.errors += "two string nodes hold equal bytes (de-duplication missed); ";
    }
    // slot accounting: every used slot is exactly one of linked / extension / free
    if (!res.overflowed_) {
      for (size_t p = 0; p < size_t(pl.count_); p++) {
        for (size_t i = 0; i < size_t(pl.pools_[p].usage_); i++) {
          size_t id = p * ARDUINOJSON_POOL_CAPACITY + i;
          int c = (w.linked.count(id) ? w.linked[id] : 0) + (w.ext.count(id) ? w.ext[id] : 0) +
                  (freeCount.count(id) ? freeCount[id] : 0);
          if (c == 0) w.errors += "slot " + std::to_string(id) + " is neither linked, nor an extension, nor free (leaked); ";
          if (c > 1) w.errors += "slot " + std::to_string(id) + " has " + std::to_string(c) + " roles (linked/extension/free overlap); ";
        }
      }
    } else {
      for (auto& kv : freeCount)
        if (w.linked.count(kv.first) || w.ext.count(kv.first)) w.errors += "slot " + std::to_string(kv.first) + " both in use and on the free list; ";
    }
    for (auto n : nodes) {
      int uses = w.stringUses.count(n) ? w.stringUses[n] : 0;
      if (uses != int(n->references) && !res.overflowed_)
        w.errors += "string node \"" + vis(std::string(n->data, n->length)) + "\" has references=" +
                    std::to_string(unsigned(n->references)) + " but " + std::to_string(uses) + " users; ";
      if (uses > int(n->references))
        w.errors += "string node has fewer references than users; ";
    }
    r.slotsLinked = w.linked.size();
    r.slotsExt = w.ext.size();
    r.slotsFree = freeCount.size();
    r.key = pools + fl + spool + (res.overflowed_ ? "O" : "o") + w.key;
    r.errors = w.errors;
    return r;
  }
};

}  // namespace verif
