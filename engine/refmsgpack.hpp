// Independent MessagePack reference: encoder with explicit width choices and a strict decoder.
// bin / ext values are carried as MValue::Raw holding the complete encoded object (header included),
// which is what an ArduinoJson document retains for them.
#pragma once
#include <functional>
#include <string>
#include <vector>

#include "model.hpp"

namespace verif {
namespace refmp {

inline void be(std::string& r, uint64_t v, int bytes) {
  for (int i = bytes - 1; i >= 0; i--) r.push_back(char((v >> (8 * i)) & 0xff));
}

// ------------------------------------------------------------------ families
// Every node has a list of legal encodings ("families"), index 0 = the minimal one.
inline int intFamilies(i128 v) {
  int n = 0;
  if (v >= 0) {
    if (v < 128) n++;                       // positive fixint
    if (v < 256) n++;                       // uint8
    if (v < 65536) n++;                     // uint16
    if (v < (i128(1) << 32)) n++;           // uint32
    n++;                                    // uint64
    if (v < 128) n++;                       // int8
    if (v < 32768) n++;                     // int16
    if (v < (i128(1) << 31)) n++;           // int32
    if (v < (i128(1) << 63)) n++;           // int64
  } else {
    if (v >= -32) n++;                      // negative fixint
    if (v >= -128) n++;                     // int8
    if (v >= -32768) n++;                   // int16
    if (v >= -(i128(1) << 31)) n++;         // int32
    n++;                                    // int64
  }
  return n;
}
inline void encodeInt(i128 v, int fam, std::string& r) {
  int k = 0;
  auto pick = [&](bool legal) { return legal && k++ == fam; };
  if (v >= 0) {
    uint64_t u = uint64_t(v);
    if (pick(v < 128)) { r.push_back(char(u)); return; }
    if (pick(v < 256)) { r.push_back(char(0xcc)); be(r, u, 1); return; }
    if (pick(v < 65536)) { r.push_back(char(0xcd)); be(r, u, 2); return; }
    if (pick(v < (i128(1) << 32))) { r.push_back(char(0xce)); be(r, u, 4); return; }
    if (pick(true)) { r.push_back(char(0xcf)); be(r, u, 8); return; }
    if (pick(v < 128)) { r.push_back(char(0xd0)); be(r, u, 1); return; }
    if (pick(v < 32768)) { r.push_back(char(0xd1)); be(r, u, 2); return; }
    if (pick(v < (i128(1) << 31))) { r.push_back(char(0xd2)); be(r, u, 4); return; }
    if (pick(v < (i128(1) << 63))) { r.push_back(char(0xd3)); be(r, u, 8); return; }
  } else {
    uint64_t u = uint64_t(int64_t(v));
    if (pick(v >= -32)) { r.push_back(char(u & 0xff)); return; }
    if (pick(v >= -128)) { r.push_back(char(0xd0)); be(r, u, 1); return; }
    if (pick(v >= -32768)) { r.push_back(char(0xd1)); be(r, u, 2); return; }
    if (pick(v >= -(i128(1) << 31))) { r.push_back(char(0xd2)); be(r, u, 4); return; }
    if (pick(true)) { r.push_back(char(0xd3)); be(r, u, 8); return; }
  }
}

inline int lenFamilies(size_t n, bool hasFix, size_t fixMax, bool has8) {
  int k = 0;
  if (hasFix && n <= fixMax) k++;
  if (has8 && n < 256) k++;
  if (n < 65536) k++;
  k++;
  return k;
}

inline bool floatFitsF32(double d) { return double(float(d)) == d || d != d; }

// payload of a Raw that is one bin / ext object
inline void splitBin(const std::string& s, std::string& payload) {
  auto p = reinterpret_cast<const unsigned char*>(s.data());
  size_t h = p[0] == 0xc4 ? 2 : p[0] == 0xc5 ? 3 : 5;
  payload = s.substr(h);
}
inline void splitExt(const std::string& s, int& type, std::string& payload) {
  auto p = reinterpret_cast<const unsigned char*>(s.data());
  size_t h = (p[0] >= 0xd4 && p[0] <= 0xd8) ? 1 : p[0] == 0xc7 ? 2 : p[0] == 0xc8 ? 3 : 5;
  type = p[h];
  payload = s.substr(h + 1);
}
inline std::string makeBin(const std::string& payload, int fam = 0) {
  std::string r;
  size_t n = payload.size();
  int k = 0;
  if (n < 256 && k++ == fam) { r.push_back(char(0xc4)); be(r, n, 1); }
  else if (n < 65536 && k++ == fam) { r.push_back(char(0xc5)); be(r, n, 2); }
  else { r.push_back(char(0xc6)); be(r, n, 4); }
  return r + payload;
}
inline int binFamilies(size_t n) { return (n < 256 ? 1 : 0) + (n < 65536 ? 1 : 0) + 1; }
inline bool isFixExtSize(size_t n) { return n == 1 || n == 2 || n == 4 || n == 8 || n == 16; }
inline std::string makeExt(int type, const std::string& payload, int fam = 0) {
  std::string r;
  size_t n = payload.size();
  int k = 0;
  if (isFixExtSize(n) && k++ == fam) {
    r.push_back(char(n == 1 ? 0xd4 : n == 2 ? 0xd5 : n == 4 ? 0xd6 : n == 8 ? 0xd7 : 0xd8));
  } else if (n < 256 && k++ == fam) { r.push_back(char(0xc7)); be(r, n, 1); }
  else if (n < 65536 && k++ == fam) { r.push_back(char(0xc8)); be(r, n, 2); }
  else { r.push_back(char(0xc9)); be(r, n, 4); }
  r.push_back(char(type));
  return r + payload;
}
inline int extFamilies(size_t n) { return (isFixExtSize(n) ? 1 : 0) + (n < 256 ? 1 : 0) + (n < 65536 ? 1 : 0) + 1; }

inline int families(const MValue& m) {
  switch (m.kind) {
    case MValue::Null: case MValue::Bool: return 1;
    case MValue::Int: return intFamilies(m.i);
    case MValue::F32: return 2;                               // float32, or the same value as float64
    case MValue::F64: return floatFitsF32(m.d) ? 2 : 1;       // float64, or float32 when exact
    case MValue::Str: return lenFamilies(m.s.size(), true, 31, true);
    case MValue::Arr: return lenFamilies(m.a.size(), true, 15, false);
    case MValue::Obj: return lenFamilies(m.o.size(), true, 15, false);
    case MValue::Raw:
      if (rawIsBin(m.s)) { std::string p; splitBin(m.s, p); return binFamilies(p.size()); }
      if (rawIsExt(m.s)) { int t; std::string p; splitExt(m.s, t, p); return extFamilies(p.size()); }
      return 1;
  }
  return 1;
}

inline void lenHeader(std::string& r, size_t n, int fam, bool hasFix, size_t fixMax, unsigned fixBase, bool has8,
                      unsigned c8, unsigned c16, unsigned c32) {
  int k = 0;
  if (hasFix && n <= fixMax && k++ == fam) { r.push_back(char(fixBase | n)); return; }
  if (has8 && n < 256 && k++ == fam) { r.push_back(char(c8)); be(r, n, 1); return; }
  if (n < 65536 && k++ == fam) { r.push_back(char(c16)); be(r, n, 2); return; }
  r.push_back(char(c32));
  be(r, n, 4);
}

// choice(nodeIndexInPreorder, familyCount) -> family index
typedef std::function<int(int, int)> Choice;

inline void encode(const MValue& m, std::string& r, const Choice& choice, int& node) {
  int me = node++;
  int fam = choice ? choice(me, families(m)) : 0;
  switch (m.kind) {
    case MValue::Null: r.push_back(char(0xc0)); break;
    case MValue::Bool: r.push_back(char(m.b ? 0xc3 : 0xc2)); break;
    case MValue::Int: encodeInt(m.i, fam, r); break;
    case MValue::F32:
      if (fam == 0) { r.push_back(char(0xca)); be(r, fbits(m.f), 4); }
      else { r.push_back(char(0xcb)); be(r, dbits(double(m.f)), 8); }
      break;
    case MValue::F64:
      if (fam == 0) { r.push_back(char(0xcb)); be(r, dbits(m.d), 8); }
      else { r.push_back(char(0xca)); be(r, fbits(float(m.d)), 4); }
      break;
    case MValue::Str:
      lenHeader(r, m.s.size(), fam, true, 31, 0xa0, true, 0xd9, 0xda, 0xdb);
      r += m.s;
      break;
    case MValue::Raw:
      if (rawIsBin(m.s)) { std::string p; splitBin(m.s, p); r += makeBin(p, fam); }
      else if (rawIsExt(m.s)) { int t; std::string p; splitExt(m.s, t, p); r += makeExt(t, p, fam); }
      else r += m.s;
      break;
    case MValue::Arr:
      lenHeader(r, m.a.size(), fam, true, 15, 0x90, false, 0, 0xdc, 0xdd);
      for (auto& e : m.a) encode(e, r, choice, node);
      break;
    case MValue::Obj:
      lenHeader(r, m.o.size(), fam, true, 15, 0x80, false, 0, 0xde, 0xdf);
      for (auto& kv : m.o) {
        MValue k = MValue::str(kv.first);
        encode(k, r, choice, node);
        encode(kv.second, r, choice, node);
      }
      break;
  }
}
inline std::string encode(const MValue& m, const Choice& choice = nullptr) {
  std::string r;
  int node = 0;
  encode(m, r, choice, node);
  return r;
}
inline void familyCounts(const MValue& m, std::vector<int>& out) {
  out.push_back(families(m));
  for (auto& e : m.a) familyCounts(e, out);
  for (auto& kv : m.o) {
    out.push_back(lenFamilies(kv.first.size(), true, 31, true));
    familyCounts(kv.second, out);
  }
}

// All encodings with at most k non-minimal nodes, plus the all-maximal one. f(bytes, description)
inline void encodings(const MValue& m, int k, const std::function<void(const std::string&, const std::string&)>& f) {
  std::vector<int> fams;
  familyCounts(m, fams);
  std::vector<int> pick(fams.size(), 0);
  std::function<void(size_t, int)> rec = [&](size_t from, int left) {
    std::string desc;
    for (size_t i = 0; i < pick.size(); i++) if (pick[i]) desc += std::to_string(i) + ":" + std::to_string(pick[i]) + ",";
    f(encode(m, [&](int node, int) { return pick[size_t(node)]; }), desc.empty() ? "min" : desc);
    if (!left) return;
    for (size_t i = from; i < pick.size(); i++) {
      for (int a = 1; a < fams[i]; a++) {
        pick[i] = a;
        rec(i + 1, left - 1);
      }
      pick[i] = 0;
    }
  };
  rec(0, k);
  int nonMin = 0;
  for (size_t i = 0; i < fams.size(); i++) { pick[i] = fams[i] - 1; if (pick[i]) nonMin++; }
  if (nonMin > k) f(encode(m, [&](int node, int) { return pick[size_t(node)]; }), "max");
}

// ------------------------------------------------------------------ strict decoder
enum Status { Ok, Empty, Incomplete, Invalid, TooDeep };
inline const char* statusName(Status s) {
  static const char* n[] = {"Ok", "EmptyInput", "IncompleteInput", "InvalidInput", "TooDeep"};
  return n[s];
}

// when set, integers decoded from the int 32 / int 64 formats carry the tag "signed-format" in MValue::s (a configuration
// without 64-bit storage may answer null for a value >= 2^31 that arrived in a signed format)
inline bool& tagSignedFormat() {
  static bool on = false;
  return on;
}

struct Decoder {
  const unsigned char* p;
  size_t n, pos = 0;
  size_t maxDepth = 0;
  long limit = -1;  // nesting limit (-1 = none)
  Decoder(const std::string& s) : p(reinterpret_cast<const unsigned char*>(s.data())), n(s.size()) {}

  bool need(size_t k) const { return n - pos >= k; }
  uint64_t rd(int bytes) {
    uint64_t v = 0;
    for (int i = 0; i < bytes; i++) v = (v << 8) | p[pos++];
    return v;
  }
  Status value(MValue& m, size_t depth, bool keyPosition = false) {
    if (!need(1)) return Incomplete;
    size_t start = pos;
    unsigned c = p[pos++];
    if (keyPosition) {
      bool isStr = (c & 0xe0) == 0xa0 || c == 0xd9 || c == 0xda || c == 0xdb;
      if (!isStr) return Invalid;
    }
    if (c <= 0x7f) { m = MValue::integer(c); return Ok; }
    if (c >= 0xe0) { m = MValue::integer(i128(int8_t(c))); return Ok; }
    size_t len = 0;
    int lb = 0;
    enum { S, B, E, A, M } what;
    if ((c & 0xe0) == 0xa0) { what = S; len = c & 0x1f; }
    else if ((c & 0xf0) == 0x90) { what = A; len = c & 0x0f; }
    else if ((c & 0xf0) == 0x80) { what = M; len = c & 0x0f; }
    else switch (c) {
      case 0xc0: m = MValue::null(); return Ok;
      case 0xc1: return Invalid;
      case 0xc2: m = MValue::boolean(false); return Ok;
      case 0xc3: m = MValue::boolean(true); return Ok;
      case 0xc4: what = B; lb = 1; break;
      case 0xc5: what = B; lb = 2; break;
      case 0xc6: what = B; lb = 4; break;
      case 0xc7: what = E; lb = 1; break;
      case 0xc8: what = E; lb = 2; break;
      case 0xc9: what = E; lb = 4; break;
      case 0xca: if (!need(4)) return Incomplete; m = MValue::f32(bitsf(uint32_t(rd(4)))); return Ok;
      case 0xcb: if (!need(8)) return Incomplete; m = MValue::f64(bitsd(rd(8))); return Ok;
      case 0xcc: if (!need(1)) return Incomplete; m = MValue::integer(i128(rd(1))); return Ok;
      case 0xcd: if (!need(2)) return Incomplete; m = MValue::integer(i128(rd(2))); return Ok;
      case 0xce: if (!need(4)) return Incomplete; m = MValue::integer(i128(rd(4))); return Ok;
      case 0xcf: if (!need(8)) return Incomplete; m = MValue::integer(i128(rd(8))); return Ok;
      case 0xd0: if (!need(1)) return Incomplete; m = MValue::integer(i128(int8_t(rd(1)))); return Ok;
      case 0xd1: if (!need(2)) return Incomplete; m = MValue::integer(i128(int16_t(rd(2)))); return Ok;
      case 0xd2: if (!need(4)) return Incomplete; m = MValue::integer(i128(int32_t(rd(4)))); if (tagSignedFormat()) m.s = "signed-format"; return Ok;
      case 0xd3: if (!need(8)) return Incomplete; m = MValue::integer(i128(int64_t(rd(8)))); if (tagSignedFormat()) m.s = "signed-format"; return Ok;
      case 0xd4: case 0xd5: case 0xd6: case 0xd7: case 0xd8: what = E; len = size_t(1) << (c - 0xd4); break;
      case 0xd9: what = S; lb = 1; break;
      case 0xda: what = S; lb = 2; break;
      case 0xdb: what = S; lb = 4; break;
      case 0xdc: what = A; lb = 2; break;
      case 0xdd: what = A; lb = 4; break;
      case 0xde: what = M; lb = 2; break;
      default: what = M; lb = 4; break;  // 0xdf
    }
    if (lb) {
      if (!need(size_t(lb))) return Incomplete;
      len = size_t(rd(lb));
    }
    switch (what) {
      case S:
        if (!need(len)) { pos = n; return Incomplete; }
        m = MValue::str(std::string(reinterpret_cast<const char*>(p + pos), len));
        pos += len;
        return Ok;
      case B:
      case E: {
        size_t total = len + (what == E ? 1 : 0);
        if (!need(total)) { pos = n; return Incomplete; }
        pos += total;
        m = MValue::raw(std::string(reinterpret_cast<const char*>(p + start), pos - start));
        return Ok;
      }
      case A: {
        if (limit >= 0 && long(depth) >= limit) return TooDeep;
        if (depth + 1 > maxDepth) maxDepth = depth + 1;
        m = MValue::array();
        for (size_t i = 0; i < len; i++) {
          MValue e;
          Status s = value(e, depth + 1);
          if (s != Ok) return s;
          m.a.push_back(std::move(e));
        }
        return Ok;
      }
      case M: {
        if (limit >= 0 && long(depth) >= limit) return TooDeep;
        if (depth + 1 > maxDepth) maxDepth = depth + 1;
        m = MValue::object();
        for (size_t i = 0; i < len; i++) {
          MValue k, e;
          Status s = value(k, depth + 1, true);
          if (s != Ok) return s;
          s = value(e, depth + 1);
          if (s != Ok) return s;
          m.o.emplace_back(k.s, std::move(e));
        }
        return Ok;
      }
    }
    return Invalid;
  }
};

// Decodes ONE object from the front of `bytes`; `consumed` = its length.  Empty input -> Empty.
inline Status decode(const std::string& bytes, MValue& out, size_t* consumed = nullptr, long nestingLimit = -1,
                     size_t* depth = nullptr) {
  if (bytes.empty()) return Empty;
  Decoder D(bytes);
  D.limit = nestingLimit;
  Status s = D.value(out, 0);
  if (consumed) *consumed = D.pos;
  if (depth) *depth = D.maxDepth;
  return s;
}

}  // namespace refmp
}  // namespace verif
