// Run a body in a forked child so that a crash (sanitizer abort, SEGV, hang) is attributed to exactly
// that body and the caller survives.  The body returns a text blob that is piped back.
#pragma once
#include <poll.h>
#include <signal.h>
#include <sys/wait.h>
#include <unistd.h>

#include <functional>
#include <string>

namespace verif {

struct IsolatedResult {
  bool ok = false;       // child exited 0
  int status = 0;        // raw wait status
  bool timedOut = false;
  std::string out;       // what the body returned
  std::string err;       // child's stderr (sanitizer report)
  std::string describe() const {
    std::string r;
    if (timedOut) r = "timeout";
    else if (WIFSIGNALED(status)) r = "signal " + std::to_string(WTERMSIG(status));
    else r = "exit status " + std::to_string(WEXITSTATUS(status));
    // first interesting line of the sanitizer report
    size_t p = err.find("ERROR: AddressSanitizer");
    if (p == std::string::npos) p = err.find("runtime error:");
    if (p == std::string::npos) p = err.find("SUMMARY:");
    if (p != std::string::npos) r += "; " + err.substr(p, err.find('\n', p) - p);
    return r;
  }
};

inline IsolatedResult runIsolated(const std::function<std::string()>& body, int timeoutSec = 20) {
  IsolatedResult R;
  int po[2], pe[2];
  if (pipe(po) != 0 || pipe(pe) != 0) {
    R.err = "pipe failed";
    return R;
  }
  fflush(stdout);
  fflush(stderr);
  pid_t pid = fork();
  if (pid == 0) {
    close(po[0]);
    close(pe[0]);
    dup2(pe[1], 2);
    alarm(unsigned(timeoutSec));
    std::string s = body();
    size_t off = 0;
    while (off < s.size()) {
      ssize_t w = write(po[1], s.data() + off, s.size() - off);
      if (w <= 0) break;
      off += size_t(w);
    }
    _exit(0);
  }
  close(po[1]);
  close(pe[1]);
  struct pollfd fds[2] = {{po[0], POLLIN, 0}, {pe[0], POLLIN, 0}};
  int open_ = 2;
  char buf[65536];
  while (open_ > 0) {
    int pr = poll(fds, 2, (timeoutSec + 5) * 1000);
    if (pr <= 0) {
      kill(pid, SIGKILL);
      R.timedOut = true;
      break;
    }
    for (int i = 0; i < 2; i++) {
      if (fds[i].fd < 0) continue;
      if (fds[i].revents & (POLLIN | POLLHUP | POLLERR)) {
        ssize_t n = read(fds[i].fd, buf, sizeof buf);
        if (n > 0) (i == 0 ? R.out : R.err).append(buf, size_t(n));
        else {
          close(fds[i].fd);
          fds[i].fd = -1;
          open_--;
        }
      }
    }
  }
  for (int i = 0; i < 2; i++) if (fds[i].fd >= 0) close(fds[i].fd);
  waitpid(pid, &R.status, 0);
  if (WIFSIGNALED(R.status) && WTERMSIG(R.status) == SIGALRM) R.timedOut = true;
  R.ok = WIFEXITED(R.status) && WEXITSTATUS(R.status) == 0 && !R.timedOut;
  if (R.err.size() > 6000) R.err.resize(6000);
  return R;
}

}  // namespace verif
