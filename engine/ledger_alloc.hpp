// Instrumented ArduinoJson::Allocator: live-block ledger, call log, fault plan, seam callback.
#pragma once
#include <ArduinoJson.h>

#include <cstdlib>
#include <functional>
#include <map>
#include <string>
#include <vector>

namespace verif {

// A fault plan that several allocators can share: positions are counted over all of them in call order.
struct FaultPlan {
  uint64_t calls = 0, delivered = 0;
  std::vector<uint64_t> failAt;
  uint64_t failFrom = 0;
  bool armed = false;
  bool next() {
    calls++;
    if (!armed) return false;
    bool f = failFrom && calls >= failFrom;
    for (auto k : failAt) f = f || k == calls;
    if (f) delivered++;
    return f;
  }
};

class LedgerAllocator : public ArduinoJson::Allocator {
 public:
  FaultPlan* shared = nullptr;  // when set, fault decisions come from the shared plan
  struct Block {
    size_t size;
    uint64_t serial;
  };
  std::map<void*, Block> live;
  std::vector<std::string> errors;  // misuse detected (double free, foreign block, ...)
  uint64_t serial = 0;
  uint64_t nAlloc = 0, nRealloc = 0, nFree = 0;  // calls
  uint64_t faultCalls = 0;                        // allocate + growing reallocate calls so far (fault positions)
  uint64_t faultsDelivered = 0;
  size_t liveBytes = 0, peakBytes = 0, totalRequested = 0;
  // fault plan: fail the calls whose 1-based position is listed, and every call from failFrom on (0 = never)
  std::vector<uint64_t> failAt;
  uint64_t failFrom = 0;
  bool failAll = false;
  bool frozen = false;  // when set, any allocator call is an error (read-only operations)
  std::string name;
  std::function<void(const char*, size_t)> seam;  // called on entry of every call
  std::string log;                                // compact call log (a<size> r<old>-<new> f<size>), capped
  bool keepLog = false;

  explicit LedgerAllocator(const std::string& n = "A") : name(n) {}
  ~LedgerAllocator() {
    for (auto& kv : live) free(kv.first);
  }

  void resetPlan() {
    failAt.clear();
    failFrom = 0;
    failAll = false;
  }
  void resetCounters() {
    faultCalls = 0;
    faultsDelivered = 0;
    nAlloc = nRealloc = nFree = 0;
    totalRequested = 0;
    peakBytes = liveBytes;
    log.clear();
  }
  uint64_t calls() const { return nAlloc + nRealloc + nFree; }

  bool shouldFail() {
    faultCalls++;
    if (shared) {
      bool f = shared->next();
      if (f) faultsDelivered++;
      return f;
    }
    bool f = failAll || (failFrom && faultCalls >= failFrom);
    for (auto k : failAt) f = f || k == faultCalls;
    if (f) faultsDelivered++;
    return f;
  }

  void* allocate(size_t n) override {
    if (seam) seam("allocate", n);
    nAlloc++;
    if (frozen) errors.push_back(name + ": allocate(" + std::to_string(n) + ") during a read-only operation");
    if (keepLog && log.size() < 4000) log += "a" + std::to_string(n) + " ";
    if (shouldFail()) return nullptr;
    totalRequested += n;
    void* p = malloc(n ? n : 1);
    live[p] = {n, ++serial};
    liveBytes += n;
    if (liveBytes > peakBytes) peakBytes = liveBytes;
    return p;
  }

  void deallocate(void* p) override {
    if (seam) seam("deallocate", 0);
    nFree++;
    if (frozen) errors.push_back(name + ": deallocate during a read-only operation");
    if (!p) return;  // tolerated (free(nullptr) semantics)
    auto it = live.find(p);
    if (it == live.end()) {
      errors.push_back(name + ": deallocate of a block this allocator does not own (double free or foreign block)");
      return;  // do not free: keeps the process alive so the violation is reported with its case
    }
    if (keepLog && log.size() < 4000) log += "f" + std::to_string(it->second.size) + " ";
    liveBytes -= it->second.size;
    live.erase(it);
    free(p);
  }

  void* reallocate(void* p, size_t n) override {
    if (seam) seam("reallocate", n);
    nRealloc++;
    if (frozen) errors.push_back(name + ": reallocate during a read-only operation");
    size_t old = 0;
    auto it = live.end();
    if (p) {
      it = live.find(p);
      if (it == live.end()) {
        errors.push_back(name + ": reallocate of a block this allocator does not own");
        return nullptr;
      }
      old = it->second.size;
    }
    if (keepLog && log.size() < 4000) log += "r" + std::to_string(old) + "-" + std::to_string(n) + " ";
    if (n > old || !p) {
      if (shouldFail()) return nullptr;
      totalRequested += n - old;
    }
    // always move the block so that stale pointers are caught by ASan
    void* q = malloc(n ? n : 1);
    if (p) {
      memcpy(q, p, old < n ? old : n);
      live.erase(it);
      free(p);
      liveBytes -= old;
    }
    live[q] = {n, ++serial};
    liveBytes += n;
    if (liveBytes > peakBytes) peakBytes = liveBytes;
    return q;
  }

  std::string takeErrors() {
    std::string r;
    for (auto& e : errors) r += e + "; ";
    errors.clear();
    return r;
  }
  // multiset of live block sizes, as text
  std::string liveSignature() const {
    std::map<size_t, int> m;
    for (auto& kv : live) m[kv.second.size]++;
    std::string r;
    for (auto& kv : m) r += std::to_string(kv.first) + "x" + std::to_string(kv.second) + " ";
    return r;
  }
};

}  // namespace verif
