// The plain ordered-tree reference model (MValue), the canonical observation of
// a real ArduinoJson value through the PUBLIC read API, and the same observation
// predicted from the model (DESIGN.md 3.3, Appendix F.2).
#pragma once
#include <ArduinoJson.h>

#include <cmath>
#include <cstring>
#include <string>
#include <utility>
#include <vector>

#include "common.hpp"

namespace verif {

typedef __int128 i128;

inline std::string i128str(i128 v) {
  if (v == 0) return "0";
  bool neg = v < 0;
  unsigned __int128 u = neg ? (unsigned __int128)(-(v + 1)) + 1 : (unsigned __int128)v;
  std::string r;
  while (u) {
    r.push_back(char('0' + int(u % 10)));
    u /= 10;
  }
  if (neg) r.push_back('-');
  return std::string(r.rbegin(), r.rend());
}

struct MValue {
  enum Kind { Null, Bool, Int, F32, F64, Str, Raw, Arr, Obj } kind = Null;
  bool b = false;
  i128 i = 0;
  float f = 0;
  double d = 0;
  std::string s;  // Str / Raw bytes
  std::vector<MValue> a;
  std::vector<std::pair<std::string, MValue>> o;

  static MValue null() { return MValue(); }
  static MValue boolean(bool v) { MValue m; m.kind = Bool; m.b = v; return m; }
  static MValue integer(i128 v) { MValue m; m.kind = Int; m.i = v; return m; }
  static MValue f32(float v) { MValue m; m.kind = F32; m.f = v; return m; }
  static MValue f64(double v) { MValue m; m.kind = F64; m.d = v; return m; }
  static MValue str(const std::string& v) { MValue m; m.kind = Str; m.s = v; return m; }
  static MValue raw(const std::string& v) { MValue m; m.kind = Raw; m.s = v; return m; }
  static MValue array() { MValue m; m.kind = Arr; return m; }
  static MValue object() { MValue m; m.kind = Obj; return m; }

  bool isNumber() const { return kind == Int || kind == F32 || kind == F64; }
  bool isFloat() const { return kind == F32 || kind == F64; }
  double asDouble() const { return kind == F32 ? double(f) : kind == F64 ? d : kind == Int ? double(i) : 0; }

  MValue* member(const std::string& k) {
    for (auto& kv : o)
      if (kv.first == k) return &kv.second;
    return nullptr;
  }
  const MValue* member(const std::string& k) const { return const_cast<MValue*>(this)->member(k); }

  size_t nesting() const {
    if (kind != Arr && kind != Obj) return 0;
    size_t m = 0;
    for (auto& e : a) m = std::max(m, e.nesting());
    for (auto& kv : o) m = std::max(m, kv.second.nesting());
    return m + 1;
  }
  size_t nodes() const {
    size_t n = 1;
    for (auto& e : a) n += e.nodes();
    for (auto& kv : o) n += kv.second.nodes();
    return n;
  }
};

inline uint64_t dbits(double d) { uint64_t u; memcpy(&u, &d, 8); return u; }
inline uint32_t fbits(float f) { uint32_t u; memcpy(&u, &f, 4); return u; }
inline double bitsd(uint64_t u) { double d; memcpy(&d, &u, 8); return d; }
inline float bitsf(uint32_t u) { float f; memcpy(&f, &u, 4); return f; }

// canonical, injective text of a model value (used in case keys and state keys)
inline void mtext(const MValue& m, std::string& r) {
  char buf[40];
  switch (m.kind) {
    case MValue::Null: r += "n"; break;
    case MValue::Bool: r += m.b ? "T" : "F"; break;
    case MValue::Int: r += "i" + i128str(m.i); break;
    case MValue::F32: snprintf(buf, sizeof buf, "f%08x", fbits(m.f)); r += buf; break;
    case MValue::F64: snprintf(buf, sizeof buf, "d%016llx", (unsigned long long)dbits(m.d)); r += buf; break;
    case MValue::Str: r += "s\"" + vis(m.s) + "\""; break;
    case MValue::Raw: r += "r\"" + vis(m.s) + "\""; break;
    case MValue::Arr:
      r += "[";
      for (size_t i = 0; i < m.a.size(); i++) {
        if (i) r += ",";
        mtext(m.a[i], r);
      }
      r += "]";
      break;
    case MValue::Obj:
      r += "{";
      for (size_t i = 0; i < m.o.size(); i++) {
        if (i) r += ",";
        r += "\"" + vis(m.o[i].first) + "\":";
        mtext(m.o[i].second, r);
      }
      r += "}";
      break;
  }
}
inline std::string mtext(const MValue& m) { std::string r; mtext(m, r); return r; }

// structural equality; numbers by kind and exact value (F32/F64 by bits, except that NaNs are all equal)
inline bool mequal(const MValue& x, const MValue& y) { return mtext(x) == mtext(y); }

// ---------------------------------------------------------------------------------------------
// Reference classification of a raw payload as one MessagePack bin / ext object (for is<MsgPackBinary>()).
inline bool rawIsBin(const std::string& s) {
  auto p = reinterpret_cast<const unsigned char*>(s.data());
  size_t n = s.size();
  if (n >= 2 && p[0] == 0xc4) return size_t(p[1]) + 2 == n;
  if (n >= 3 && p[0] == 0xc5) return ((size_t(p[1]) << 8) | p[2]) + 3 == n;
  if (n >= 5 && p[0] == 0xc6) return ((size_t(p[1]) << 24) | (size_t(p[2]) << 16) | (size_t(p[3]) << 8) | p[4]) + 5 == n;
  return false;
}
inline bool rawIsExt(const std::string& s) {
  auto p = reinterpret_cast<const unsigned char*>(s.data());
  size_t n = s.size();
  if (n == 0) return false;
  if (p[0] >= 0xd4 && p[0] <= 0xd8) return n == 2 + (size_t(1) << (p[0] - 0xd4));
  if (p[0] == 0xc7) return n >= 3 && n == 3 + size_t(p[1]);
  if (p[0] == 0xc8) return n >= 4 && n == 4 + ((size_t(p[1]) << 8) | p[2]);
  if (p[0] == 0xc9)
    return n >= 6 && n == 6 + ((size_t(p[1]) << 24) | (size_t(p[2]) << 16) | (size_t(p[3]) << 8) | p[4]);
  return false;
}

// ---------------------------------------------------------------------------------------------
// Observation.  Both functions produce the same text for a conforming library.
//
//   value   := 'U'                                   unbound reference
//            | <mask> 'n'
//            | <mask> 'b' 0|1
//            | <mask> 'i' <decimal> ':' <as<T> for the 8 fixed-width integer types> ':' <as<double> bits> ':' <as<float> bits> ':' <as<bool>>
//            | <mask> 'f' <as<double> bits> ':' <as<float> bits> ':' <as<bool>> [':' as<int64>]    (integer part only when |x| < 2^62)
//            | <mask> 's' <hex bytes>
//            | <mask> 'r' <hex bytes>
//            | <mask> '[' size ',' nesting ':' value* ']'
//            | <mask> '{' size ',' nesting ':' (hexkey '=' value)* '}'
//   <mask>  := hex of the is<T>() answers for 21 types
//
// Cross-checks that have no model counterpart (index access vs iteration, key lookup vs iteration,
// NUL terminator at size(), element [size] unbound) append a '!'-marker on failure, which can never
// appear in a model observation.

template <typename T>
inline bool fitsT(i128 v) {
  return v >= i128(std::numeric_limits<T>::lowest()) && v <= i128(std::numeric_limits<T>::max());
}

struct IsMask {
  uint32_t m = 0;
  int n = 0;
  void add(bool b) { m |= (b ? 1u : 0u) << n++; }
};

inline uint32_t maskModel(const MValue* v) {
  IsMask k;
  if (!v) {  // unbound: only is<nullptr_t>... (JsonVariantConst itself is not "is")
    k.add(false); for (int i = 0; i < 8; i++) k.add(false);
    k.add(false); k.add(false); k.add(false); k.add(false); k.add(false);
    k.add(false); k.add(false); k.add(false); k.add(false); k.add(true); k.add(false);
    return k.m;
  }
  bool isInt = v->kind == MValue::Int;
  k.add(v->kind == MValue::Bool);
  k.add(isInt && fitsT<int8_t>(v->i));
  k.add(isInt && fitsT<uint8_t>(v->i));
  k.add(isInt && fitsT<int16_t>(v->i));
  k.add(isInt && fitsT<uint16_t>(v->i));
  k.add(isInt && fitsT<int32_t>(v->i));
  k.add(isInt && fitsT<uint32_t>(v->i));
  k.add(isInt && fitsT<int64_t>(v->i));
  k.add(isInt && fitsT<uint64_t>(v->i));
  k.add(v->isNumber());  // float
  k.add(v->isNumber());  // double
  k.add(v->kind == MValue::Str);  // const char*
  k.add(v->kind == MValue::Str);  // JsonString
  k.add(v->kind == MValue::Str);  // std::string
  k.add(v->kind == MValue::Arr);
  k.add(v->kind == MValue::Obj);
  k.add(v->kind == MValue::Raw && rawIsBin(v->s));
  k.add(v->kind == MValue::Raw && rawIsExt(v->s));
  k.add(v->kind == MValue::Null);  // nullptr_t
  k.add(true);                     // JsonVariantConst (bound)
  return k.m;
}

inline uint32_t maskReal(ArduinoJson::JsonVariantConst v) {
  using namespace ArduinoJson;
  IsMask k;
  k.add(v.is<bool>());
  k.add(v.is<int8_t>());
  k.add(v.is<uint8_t>());
  k.add(v.is<int16_t>());
  k.add(v.is<uint16_t>());
  k.add(v.is<int32_t>());
  k.add(v.is<uint32_t>());
  k.add(v.is<int64_t>());
  k.add(v.is<uint64_t>());
  k.add(v.is<float>());
  k.add(v.is<double>());
  k.add(v.is<const char*>());
  k.add(v.is<JsonString>());
  k.add(v.is<std::string>());
  k.add(v.is<JsonArrayConst>());
  k.add(v.is<JsonObjectConst>());
  k.add(v.is<MsgPackBinary>());
  k.add(v.is<MsgPackExtension>());
  k.add(v.is<std::nullptr_t>());
  k.add(v.is<JsonVariantConst>());
  return k.m;
}

template <typename T>
inline void appendConv(std::string& r, i128 v) {
  r += i128str(fitsT<T>(v) ? v : i128(0));
  r += ",";
}

inline void obsModel(const MValue* v, std::string& r) {
  char buf[64];
  if (!v) { r += "U"; return; }
  snprintf(buf, sizeof buf, "%05x", maskModel(v));
  r += buf;
  switch (v->kind) {
    case MValue::Null: r += "n"; break;
    case MValue::Bool: r += v->b ? "b1" : "b0"; break;
    case MValue::Int: {
      r += "i" + i128str(v->i) + ":";
      appendConv<int8_t>(r, v->i); appendConv<uint8_t>(r, v->i); appendConv<int16_t>(r, v->i);
      appendConv<uint16_t>(r, v->i); appendConv<int32_t>(r, v->i); appendConv<uint32_t>(r, v->i);
      appendConv<int64_t>(r, v->i); appendConv<uint64_t>(r, v->i);
      double d = v->i < 0 ? double(int64_t(v->i)) : double(uint64_t(v->i));
      float f = v->i < 0 ? float(int64_t(v->i)) : float(uint64_t(v->i));
      snprintf(buf, sizeof buf, ":%016llx:%08x:%d", (unsigned long long)dbits(d), fbits(f), v->i != 0);
      r += buf;
      break;
    }
    case MValue::F32:
    case MValue::F64: {
      double d = v->asDouble();
      float f = v->kind == MValue::F32 ? v->f : float(v->d);
      bool nan = d != d;
      snprintf(buf, sizeof buf, "f%016llx:%08x:%d", nan ? 0x7ff8ULL << 48 : (unsigned long long)dbits(d),
               nan ? 0x7fc00000u : fbits(f), d != 0);
      r += buf;
      if (std::fabs(d) < 4611686018427387904.0) r += ":" + i128str(i128(int64_t(d)));
      break;
    }
    case MValue::Str: r += "s" + hex(v->s); break;
    case MValue::Raw: r += "r" + hex(v->s); break;
    case MValue::Arr:
      snprintf(buf, sizeof buf, "[%zu,%zu:", v->a.size(), v->nesting());
      r += buf;
      for (auto& e : v->a) { obsModel(&e, r); r += ";"; }
      r += "]";
      break;
    case MValue::Obj:
      snprintf(buf, sizeof buf, "{%zu,%zu:", v->o.size(), v->nesting());
      r += buf;
      for (auto& kv : v->o) { r += hex(kv.first) + "="; obsModel(&kv.second, r); r += ";"; }
      r += "}";
      break;
  }
}
inline std::string obsModel(const MValue* v) { std::string r; obsModel(v, r); return r; }

// a cheap fingerprint used by the lookup / index cross-checks
inline std::string shallowReal(ArduinoJson::JsonVariantConst v) {
  using namespace ArduinoJson;
  char buf[96];
  if (v.isUnbound()) return "U";
  JsonString js = v.as<JsonString>();
  snprintf(buf, sizeof buf, "%05x/%zu/%zu/%016llx/", maskReal(v), v.size(), v.nesting(),
           (unsigned long long)dbits(v.as<double>()));
  std::string r = buf;
  if (js.c_str()) r += hex(std::string(js.c_str(), js.size()));
  return r;
}

inline void obsReal(ArduinoJson::JsonVariantConst v, std::string& r) {
  using namespace ArduinoJson;
  char buf[64];
  if (v.isUnbound()) { r += "U"; return; }
  uint32_t mask = maskReal(v);
  snprintf(buf, sizeof buf, "%05x", mask);
  r += buf;
  if (v.is<JsonArrayConst>()) {
    JsonArrayConst a = v.as<JsonArrayConst>();
    size_t n = a.size();
    snprintf(buf, sizeof buf, "[%zu,%zu:", n, v.nesting());
    r += buf;
    size_t i = 0;
    for (JsonVariantConst e : a) {
      obsReal(e, r);
      r += ";";
      if (shallowReal(a[i]) != shallowReal(e)) r += "!INDEX-MISMATCH";
      if (shallowReal(v[i]) != shallowReal(e)) r += "!VINDEX-MISMATCH";
      if (++i > n + 8) { r += "!ITERATION-LONGER-THAN-SIZE"; break; }
    }
    if (i != n) r += "!ITERATION-COUNT";
    if (!a[n].isUnbound()) r += "!ELEMENT-AT-SIZE-BOUND";
    if (v.size() != n) r += "!VSIZE";
    r += "]";
    return;
  }
  if (v.is<JsonObjectConst>()) {
    JsonObjectConst o = v.as<JsonObjectConst>();
    size_t n = o.size();
    snprintf(buf, sizeof buf, "{%zu,%zu:", n, v.nesting());
    r += buf;
    size_t i = 0;
    std::vector<std::string> seen;
    for (JsonPairConst p : o) {
      JsonString k = p.key();
      std::string key = k.c_str() ? std::string(k.c_str(), k.size()) : std::string("!NULLKEY");
      if (k.c_str() && k.c_str()[k.size()] != 0) r += "!KEY-NOT-TERMINATED";
      r += hex(key) + "=";
      obsReal(p.value(), r);
      r += ";";
      bool first = true;
      for (auto& s : seen) if (s == key) first = false;
      if (first) {
        seen.push_back(key);
        std::string want = shallowReal(p.value());
        if (shallowReal(o[key]) != want) r += "!LOOKUP-MISMATCH";
        if (shallowReal(v[key]) != want) r += "!VLOOKUP-MISMATCH";
        if (key.find('\0') == std::string::npos && shallowReal(o[key.c_str()]) != want) r += "!CLOOKUP-MISMATCH";
      }
      if (++i > n + 8) { r += "!ITERATION-LONGER-THAN-SIZE"; break; }
    }
    if (i != n) r += "!ITERATION-COUNT";
    if (!o["\x01zz-absent"].isUnbound()) r += "!ABSENT-KEY-BOUND";
    if (v.size() != n) r += "!VSIZE";
    r += "}";
    return;
  }
  if (v.size() != 0) r += "!SCALAR-SIZE";
  if (v.nesting() != 0) r += "!SCALAR-NESTING";
  if (v.isNull()) { r += "n"; return; }
  if (v.is<bool>()) { r += v.as<bool>() ? "b1" : "b0"; return; }
  if (v.is<JsonString>()) {
    JsonString js = v.as<JsonString>();
    const char* cs = v.as<const char*>();
    r += "s";
    if (!js.c_str()) { r += "!NULLSTR"; return; }
    r += hex(std::string(js.c_str(), js.size()));
    if (js.c_str()[js.size()] != 0) r += "!NOT-TERMINATED";
    if (cs != js.c_str()) r += "!CSTR-DIFFERS";
    if (v.as<std::string>() != std::string(js.c_str(), js.size())) r += "!STDSTRING-DIFFERS";
    return;
  }
  if (v.is<int64_t>() || v.is<uint64_t>()) {
    i128 val = v.is<uint64_t>() ? i128(v.as<uint64_t>()) : i128(v.as<int64_t>());
    r += "i" + i128str(val) + ":";
    r += i128str(v.as<int8_t>()) + ","; r += i128str(v.as<uint8_t>()) + ",";
    r += i128str(v.as<int16_t>()) + ","; r += i128str(v.as<uint16_t>()) + ",";
    r += i128str(v.as<int32_t>()) + ","; r += i128str(v.as<uint32_t>()) + ",";
    r += i128str(v.as<int64_t>()) + ","; r += i128str(i128(v.as<uint64_t>())) + ",";
    snprintf(buf, sizeof buf, ":%016llx:%08x:%d", (unsigned long long)dbits(v.as<double>()), fbits(v.as<float>()),
             int(v.as<bool>()));
    r += buf;
    if (v.as<JsonString>().c_str()) r += "!NUMBER-HAS-STRING";
    return;
  }
  if (v.is<double>()) {
    double d = v.as<double>();
    float f = v.as<float>();
    bool nan = d != d;
    snprintf(buf, sizeof buf, "f%016llx:%08x:%d", nan ? 0x7ff8ULL << 48 : (unsigned long long)dbits(d),
             (f != f) ? 0x7fc00000u : fbits(f), int(v.as<bool>()));
    r += buf;
    if (std::fabs(d) < 4611686018427387904.0) r += ":" + i128str(i128(v.as<int64_t>()));
    return;
  }
  // raw value (serialized() / bin / ext)
  r += "r" + hex(v.as<std::string>());
  if (v.as<JsonString>().c_str()) r += "!RAW-HAS-STRING";
}
inline std::string obsReal(ArduinoJson::JsonVariantConst v) { std::string r; obsReal(v, r); return r; }

// ---------------------------------------------------------------------------------------------
// extract(real) -> MValue through the public API (model re-synchronisation, projections, round trips)
inline MValue extract(ArduinoJson::JsonVariantConst v, int depth = 0) {
  using namespace ArduinoJson;
  if (v.isUnbound() || v.isNull() || depth > 300) return MValue::null();
  if (v.is<JsonArrayConst>()) {
    MValue m = MValue::array();
    for (JsonVariantConst e : v.as<JsonArrayConst>()) m.a.push_back(extract(e, depth + 1));
    return m;
  }
  if (v.is<JsonObjectConst>()) {
    MValue m = MValue::object();
    for (JsonPairConst p : v.as<JsonObjectConst>()) {
      JsonString k = p.key();
      m.o.emplace_back(k.c_str() ? std::string(k.c_str(), k.size()) : std::string(), extract(p.value(), depth + 1));
    }
    return m;
  }
  if (v.is<bool>()) return MValue::boolean(v.as<bool>());
  if (v.is<JsonString>()) {
    JsonString js = v.as<JsonString>();
    return MValue::str(std::string(js.c_str(), js.size()));
  }
  if (v.is<uint64_t>()) return MValue::integer(i128(v.as<uint64_t>()));
  if (v.is<int64_t>()) return MValue::integer(i128(v.as<int64_t>()));
  if (v.is<double>()) return MValue::f64(v.as<double>());
  return MValue::raw(v.as<std::string>());
}

// build(dst, model) through the public API.  Object keys must be unique.  Returns false if a call reported failure.
// `linked`: strings and keys without a NUL are handed over as const char* (kept by address: `m` must outlive the document)
inline bool build(ArduinoJson::JsonVariant dst, const MValue& m, bool linked = false) {
  using namespace ArduinoJson;
  switch (m.kind) {
    case MValue::Null: return dst.set(nullptr);
    case MValue::Bool: return dst.set(m.b);
    case MValue::Int:
      if (m.i < 0) return dst.set((long long)m.i);
      return dst.set((unsigned long long)m.i);
    case MValue::F32: return dst.set(m.f);
    case MValue::F64: return dst.set(m.d);
    case MValue::Str:
      if (linked && m.s.find('\0') == std::string::npos) return dst.set(static_cast<const char*>(m.s.c_str()));
      return dst.set(m.s);
    case MValue::Raw: return dst.set(serialized(m.s));
    case MValue::Arr: {
      JsonArray a = dst.to<JsonArray>();
      bool ok = !a.isNull();
      for (auto& e : m.a) {
        JsonVariant c = a.add<JsonVariant>();
        ok = ok && !c.isUnbound() && build(c, e, linked);
      }
      return ok;
    }
    case MValue::Obj: {
      JsonObject o = dst.to<JsonObject>();
      bool ok = !o.isNull();
      for (auto& kv : m.o) {
        JsonVariant c = (linked && kv.first.find('\0') == std::string::npos) ? o[static_cast<const char*>(kv.first.c_str())].to<JsonVariant>()
                                                                                : o[kv.first].to<JsonVariant>();
        ok = ok && !c.isUnbound() && build(c, kv.second, linked);
      }
      return ok;
    }
  }
  return false;
}

}  // namespace verif
