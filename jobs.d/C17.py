PROPS["C17"] = {
    "level": "exploration",
    "technique": "exhaustive enumeration of all \\uXXXX code units, surrogate pairs and byte pairs against a reference UTF-8 encoder/escaper",
    "rule": "cases = (code unit x hex casing x position), unpaired-surrogate contexts, surrogate pairs, 1- and 2-byte strings as value and key; "
            "non-trivial = code unit >= 0x80, any surrogate case, or a byte string in which the serializer had to escape something; distinct by case key",
    "assumptions": ["reference UTF-8 encoder and escaper in checks/nx_unicode.hpp are written from RFC 3629 / the property statement",
                    "ARDUINOJSON_DECODE_UNICODE=1 (default); host build, a build with -funsigned-char and a build with the Arduino options (PROGMEM tables)"],
    "quick": [{"src": "checks/nx_unicode.cpp", "mode": "unicode", "deps": ["checks/nx_unicode.hpp"]},
              # plain char unsigned (ARM, ESP8266/ESP32, RISC-V): the sign of a byte >= 0x80 is different there
              {"src": "checks/nx_unicode.cpp", "mode": "unicode", "flavour": "sanuchar", "deps": ["checks/nx_unicode.hpp"]},
              # the Arduino configuration: tables in PROGMEM (repository stubs)
              {"src": "checks/nx_unicode.cpp", "mode": "unicode", "arduino": True, "deps": ["checks/nx_unicode.hpp"]}],
    "thorough": [{"src": "checks/nx_unicode.cpp", "mode": "unicode", "deps": ["checks/nx_unicode.hpp"]},
                 {"src": "checks/nx_unicode.cpp", "mode": "unicode", "flavour": "sanuchar", "deps": ["checks/nx_unicode.hpp"]},
                 {"src": "checks/nx_unicode.cpp", "mode": "unicode", "arduino": True, "deps": ["checks/nx_unicode.hpp"]}],
}
