PROPS["C15"] = {
    "level": "exploration",
    "technique": "bounded exhaustive enumeration of (nesting limit L) x (input depth d) x (nested-container family) x (filter placement) x "
                 "(input kind) for both deserializers against an independent iterative depth scanner (cross-checked with refjson/refmsgpack); "
                 "stack consumption measured through a custom reader in a non-sanitized -O1 build",
    "rule": "depth job: cases = every L in 0..255 and the default x every depth d of the tier x every JSON / MessagePack family "
            "(unclosed, closed over several bottoms, alternating array/object, siblings before the deep part, malformed bottom, "
            "truncated / cut headers, keyless maps) x 9 filter placements (none, true, false, unset, family inside a discarded member / "
            "element, inside a kept one, discarded three levels down); each case is run through pointer+size and through a custom reader; "
            "required: TooDeep iff a container is opened at depth L+1 before the end / first other error, otherwise the code of the "
            "un-limited reference, and Ok implies nesting() <= L. "
            "stack job: cases = (family, filter, L) for every L in 0..255; each measures stack(L, d) for d around L, 2L+10 and 5000 (+20000 thorough); "
            "required: stack(L, d) for d > L equals stack(L, L+1) within one level, stack(L, d <= L) <= stack(L, L+1) + one level, "
            "stack(L, L+1) <= 1.10*(stack(0) + b*L) + 64 with b the largest increment among L=0..3; growth cases = (family whose length parameter n "
            "grows without nesting: whitespace, n block / line / mixed comments, long comments, long string, n escapes, n-digit number, n elements, n members, "
            "MessagePack str32/bin32/ext32 of n bytes, array32/map32 of n entries, n-byte key) x (placement: before the top-level value, in every gap between "
            "the tokens of an array / object at depth 1 and at depth L, as a value at top level / depth 1 / depth L) x L in {1,2,3,10,255} x filter; "
            "required: stack(n) within 64 bytes of stack(2) for n in {20, 200, 2000, 20000}. The stack job runs twice: default configuration and "
            "ARDUINOJSON_ENABLE_COMMENTS=1 (the comment families exist only there). "
            "non-trivial = the deepest container opened by the input is within 2 of L (depth job), every stack case; distinct by case key",
    "assumptions": ["checks/ix_depth.hpp scanJson/scanMsgPack (iterative, written from RFC 8259 / the MessagePack spec) give the un-limited "
                    "classification and the deepest container opened before the end or the first error; cross-checked on every text with d <= 300 "
                    "against engine/refjson.hpp and engine/refmsgpack.hpp",
                    "a MessagePack container counts as opened once its header (type byte and length field) is complete; when the header at depth "
                    "L+1 is cut after its type byte both TooDeep and IncompleteInput are accepted",
                    "stack is measured as (address of a local of the calling function) - (lowest address of a local of read()/readBytes()), clang++ -O1, "
                    "x86-64; frames of code running between two read() calls and below them (allocator, string builder) are not seen",
                    "clang++ -O1 keeps self-recursive tail calls of the parser as calls (measured: 32 bytes per comment for a `return skipSpacesAndComments();` "
                    "refactoring); at -O2 such a call becomes a loop and the growth is not observable",
                    "default configuration; plus depth jobs built with ARDUINOJSON_DEFAULT_NESTING_LIMIT=3 and =255 (=0 in thorough) that make the calls without a NestingLimit option; comments enabled in the second stack job and in the =255 depth job"],
    "quick": [{"src": "checks/ix_depth.cpp", "mode": "depth", "deps": ["checks/ix_depth.hpp"]},
              # the default limit is a build option: calls without a NestingLimit option under other values of it
              {"src": "checks/ix_depth.cpp", "mode": "depth", "deps": ["checks/ix_depth.hpp"], "defs": ["ARDUINOJSON_DEFAULT_NESTING_LIMIT=3"], "args": ["--default-limit-only"]},
              {"src": "checks/ix_depth.cpp", "mode": "depth", "deps": ["checks/ix_depth.hpp"], "defs": ["ARDUINOJSON_DEFAULT_NESTING_LIMIT=255", "ARDUINOJSON_ENABLE_COMMENTS=1"], "args": ["--default-limit-only"]},
              {"src": "checks/ix_depth.cpp", "mode": "stack", "flavour": "stack", "deps": ["checks/ix_depth.hpp"]},
              {"src": "checks/ix_depth.cpp", "mode": "stack", "flavour": "stack", "defs": ["ARDUINOJSON_ENABLE_COMMENTS=1"], "deps": ["checks/ix_depth.hpp"]}],
    "thorough": [{"src": "checks/ix_depth.cpp", "mode": "depth", "deps": ["checks/ix_depth.hpp"]},
              {"src": "checks/ix_depth.cpp", "mode": "depth", "deps": ["checks/ix_depth.hpp"], "defs": ["ARDUINOJSON_DEFAULT_NESTING_LIMIT=0"], "args": ["--default-limit-only"]},
              {"src": "checks/ix_depth.cpp", "mode": "depth", "deps": ["checks/ix_depth.hpp"], "defs": ["ARDUINOJSON_DEFAULT_NESTING_LIMIT=3"], "args": ["--default-limit-only"]},
              {"src": "checks/ix_depth.cpp", "mode": "depth", "deps": ["checks/ix_depth.hpp"], "defs": ["ARDUINOJSON_DEFAULT_NESTING_LIMIT=255", "ARDUINOJSON_ENABLE_COMMENTS=1"], "args": ["--default-limit-only"]},
                 {"src": "checks/ix_depth.cpp", "mode": "stack", "flavour": "stack", "deps": ["checks/ix_depth.hpp"]},
              {"src": "checks/ix_depth.cpp", "mode": "stack", "flavour": "stack", "defs": ["ARDUINOJSON_ENABLE_COMMENTS=1"], "deps": ["checks/ix_depth.hpp"]}],
    "thorough_deadline": 840,
}
