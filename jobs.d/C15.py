PROPS["C15"] = {
    "level": "exploration",
    "technique": "bounded exhaustive enumeration of (nesting limit L) x (input depth d) x (nested-container family) x (filter placement) x "
                 "(input kind) for both deserializers against an independent iterative depth scanner (cross-checked with refjson/refmsgpack); "
                 "stack consumption measured through a custom reader in a non-sanitized -O1 build",
    "rule": "depth job: cases = every L in 0..255 and the default x every depth d of the tier x every JSON / MessagePack family "
            "(unclosed, closed over several bottoms, alternating array/object, siblings before the deep part, malformed bottom, "
            "truncated / cut headers, keyless maps) x 9 filter placements (none, true, false, unset, family inside a discarded member / "
            "element, inside a kept one, discarded three levels down); each case is run through pointer+size and through a custom reader; "
            "required: TooDeep iff a container is opened at depth L+1 before the end / first other error, otherwise the code of the "
            "un-limited reference, and Ok implies nesting() <= L. "
            "stack job: cases = (family, filter, L) for every L in 0..255; each measures stack(L, d) for d around L, 2L+10 and 5000 (+20000 thorough); "
            "required: stack(L, d) for d > L equals stack(L, L+1) within one level, stack(L, d <= L) <= stack(L, L+1) + one level, "
            "stack(L, L+1) <= 1.10*(stack(0) + b*L) + 64 with b the largest increment among L=0..3, and flat inputs use the same stack whatever their length. "
            "non-trivial = the deepest container opened by the input is within 2 of L (depth job), every stack case; distinct by case key",
    "assumptions": ["checks/ix_depth.hpp scanJson/scanMsgPack (iterative, written from RFC 8259 / the MessagePack spec) give the un-limited "
                    "classification and the deepest container opened before the end or the first error; cross-checked on every text with d <= 300 "
                    "against engine/refjson.hpp and engine/refmsgpack.hpp",
                    "a MessagePack container counts as opened once its header (type byte and length field) is complete; when the header at depth "
                    "L+1 is cut after its type byte both TooDeep and IncompleteInput are accepted",
                    "stack is measured as (address of a local of the calling function) - (lowest address of a local of read()/readBytes()), clang++ -O1, "
                    "x86-64; frames of code running between two read() calls and below them (allocator, string builder) are not seen",
                    "default configuration (ARDUINOJSON_DEFAULT_NESTING_LIMIT=10, comments disabled)"],
    "quick": [{"src": "checks/ix_depth.cpp", "mode": "depth", "deps": ["checks/ix_depth.hpp"]},
              {"src": "checks/ix_depth.cpp", "mode": "stack", "flavour": "stack", "deps": ["checks/ix_depth.hpp"]}],
    "thorough": [{"src": "checks/ix_depth.cpp", "mode": "depth", "deps": ["checks/ix_depth.hpp"]},
                 {"src": "checks/ix_depth.cpp", "mode": "stack", "flavour": "stack", "deps": ["checks/ix_depth.hpp"]}],
    "thorough_deadline": 840,
}
