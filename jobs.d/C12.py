_NX12 = {"src": "checks/nx_numtext.cpp", "deps": ["checks/nx_numtext.hpp"]}

PROPS["C12"] = {
    "level": "exploration",
    "technique": "bounded exhaustive enumeration of number literals (sign x leading zeros x mantissa x decimal-point position x "
                 "every exponent -340..340 x spelling; digit runs of every length 0..1200 and 2^k up to 65535) and of binary "
                 "values (every float, stratified-exhaustive doubles, integer boundaries) against an exact decimal classifier, "
                 "glibc strtold and unsigned __int128",
    "rule": "parse: case = (literal, via in {doc '[lit]', top-level, owned string value}, T in {double,float,int64,uint64,text}); "
            "print: case = one value set as its own type and serialized (the 2^32 loop journals one block of 65536 values per case "
            "but executes and counts every value). Non-trivial (parse) = the literal is not a short canonical non-negative integer "
            "(it has a sign, a leading zero, a fraction, an exponent or >= 10 digits), distinct by (mantissa, split, exponent, sign) "
            "for family b and by case key elsewhere; non-trivial (print) = the emitted text needs a '-', a '.' or an exponent "
            "(metric print_values_nontrivial counts values, distinct_nontrivial counts cases/blocks).",
    "assumptions": [
        "glibc strtold is correctly rounded (64-bit significand); every literal's range class (zero / in [1e-300,1e300] / above / "
        "below), sign and significant-digit count are computed exactly from its digits and cross-checked against strtold on every case",
        "'more than seven significant digits' counts mantissa digits after stripping leading and trailing zeros (weakest reading)",
        "above 1e300 either +-inf or a finite value within the bound is accepted, below 1e-300 either +-0 or a value within the "
        "bound plus half a denormal ulp; the sign of a zero result is not examined",
        "as<float>() is judged with the same rules scaled to FLT_MIN/FLT_MAX, 1e-6 plus half a float ulp",
        "string values are stored both as owned (std::string) and as linked (const char*) strings",
        "default configuration (ARDUINOJSON_USE_DOUBLE=1, USE_LONG_LONG=1, 9/6 decimal places, thresholds 1e7 / 1e-5)",
    ],
    "quick": [
        dict(_NX12, mode="parse", args=["--families=acd"], arduino=True),  # ARDUINOJSON_ENABLE_PROGMEM=1: tables read through pgm_read_*
        dict(_NX12, mode="parse", args=["--families=acdb"]),
        dict(_NX12, mode="print", args=["--families=ifgd"]),
    ],
    "thorough": [
        dict(_NX12, mode="parse", args=["--families=acdb"], arduino=True),
        dict(_NX12, mode="parse", args=["--families=acdb"]),
        dict(_NX12, mode="print", args=["--families=ifgd"]),
        dict(_NX12, mode="print", args=["--families=FGD"], flavour="fast"),
    ],
    "thorough_deadline": 840,
}
