_DX_DEPS = ["checks/dx_common.hpp", "checks/dx_json.hpp", "checks/dx_roundtrip.hpp", "checks/dx_msgpack.hpp", "checks/ix_valid.hpp"]

PROPS["C02"] = {
    "level": "exploration",
    "technique": "small-scope exhaustive enumeration: all documents up to N nodes over boundary alphabets x all destination kinds x all buffer "
                 "capacities 0..length+2, judged by an independent RFC 8259 parser and a textual walk against the model",
    "rule": "cases = documents built through the public API (construction verified by observation against the model): every leaf of the full "
            "alphabet (integer boundaries 2^k+-1 and 10^k, 10^k-1 in unsigned and signed storage, float/double boundary values incl. NaN/Inf/denormals, "
            "the 256 one-byte strings, the all-bytes string, raw values incl. the empty one) alone and inside [x], {\"k\":x}, [x,x]; every such string as a key; "
            "all trees with <= N nodes (quick 3, thorough 4) over a reduced alphabet (thorough adds every 5-node tree with a 7-leaf alphabet from depth 2, unsanitized build); nesting chains of depth 1..12 (thorough: 100, 300). Each is serialized "
            "compact and pretty into std::string, large char buffer, std::ostream (also one with a pending field width and fill character), byte-wise custom writer, a writer that stops accepting, Arduino String and Print, "
            "fixed char arrays, and every capacity 0..length+2 (exact heap block under ASan and window of a sentinel buffer). "
            "non-trivial = document with a container, or a string needing an escape, or an integer beyond 32 bits, or a float printed with a fraction/exponent/null; distinct by case key",
    "assumptions": ["engine/refjson.hpp is the independent RFC 8259 parser; inside strings it accepts any byte except '\"', '\\\\' (DESIGN 4.3: raw control "
                    "characters 0x01-0x1F are part of the emitted language); a raw NUL inside a string token is rejected by the check itself",
                    "float accuracy is judged by the C12 printing bound (1e-6*max(1,|x|) for float, 1e-9*max(1,|x|) for double, 1e-300 <= |x| <= 1e300); "
                    "outside that range any well-formed number is accepted",
                    "an empty raw value makes the text non-JSON by construction; such documents are judged textually only (raw verbatim at its position)",
                    "the void*/char* + size overloads and the char-array overloads all NUL-terminate text output when length < capacity (serialize.hpp); "
                    "bytes between the NUL and the end of the buffer are not constrained",
                    "Arduino String / Print are the stubs of extras/tests/Helpers (String capacity raised with limitCapacityTo)",
                    "default configuration (ENABLE_NAN=0, ENABLE_INFINITY=0, 2-byte string lengths, 4-byte slot ids)"],
    "quick": [{"src": "checks/dx.cpp", "mode": "json", "arduino": True, "deps": _DX_DEPS}],
    "thorough": [{"src": "checks/dx.cpp", "mode": "json", "arduino": True, "deps": _DX_DEPS},
                 # second pass: all 5-node trees (6-leaf alphabet below depth 2), -O2 build without sanitizers (sentinel windows still detect overruns)
                 {"src": "checks/dx.cpp", "mode": "json", "flavour": "fast", "arduino": True, "deps": _DX_DEPS, "args": ["--exact=5", "--deepfrom=2"]}],
    "thorough_deadline": 780,
}
