_C11 = {"src": "checks/ix_filter.cpp", "mode": "filter", "deps": ["checks/ix_filter.hpp"]}
PROPS["C11"] = {
    "level": "exploration",
    "technique": "exhaustive enumeration of all (input, filter) pairs from two bounded tree generators, JSON and MessagePack, judged by a projection function "
                 "applied to the unfiltered result; allocator ledger comparison; identity of filter true over a malformed byte-string space",
    "rule": "cases = every input tree <= Ni nodes (5 leaves, 5 keys incl. \"*\" and a key with NUL) x every filter tree <= Nf nodes (8 leaves, 3 keys incl. \"*\"), "
            "rendered as JSON and as MessagePack, filter passed as Filter(JsonDocument&) and Filter(JsonVariantConst); plus JSON objects that repeat a key (every ordered pair of 10 values x 4 shapes); plus every byte string <= L over a 26-symbol "
            "malformed alphabet and every 1-2 byte MessagePack string with filter true (identity) and 9 hostile filters (safety, memory); "
            "non-trivial = input is a container; distinct by input",
    "assumptions": ["project() in checks/ix_filter.hpp is written from the property statement; truthiness and equals-true follow the library's documented as<bool>()/== true",
                    "memory compared only when the filtered run consumed no more input than the unfiltered one (counting reader)"],
    "quick": [dict(_C11, args=["--input-nodes=3", "--filter-nodes=3", "--malformed-len=3"]),
              dict(_C11, args=["--input-nodes=2", "--filter-nodes=3", "--malformed-len=2", "--spellings=none"],
                   defs=["ARDUINOJSON_SLOT_ID_SIZE=1", "ARDUINOJSON_POOL_CAPACITY=3", "ARDUINOJSON_INITIAL_POOL_COUNT=3"]),
              # single-precision build: a float64 in the input is narrowed when kept and must still be skipped whole when discarded
              dict(_C11, args=["--input-nodes=3", "--filter-nodes=2", "--malformed-len=1", "--spellings=width"], defs=["ARDUINOJSON_USE_DOUBLE=0"])],
    "thorough": [dict(_C11, args=["--input-nodes=3", "--big-input-nodes=4", "--filter-nodes=3", "--malformed-len=4"])],
    "thorough_deadline": 1800,
}
