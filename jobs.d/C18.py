PROPS["C18"] = {
    "level": "exploration",
    "technique": "bounded exhaustive enumeration of all ordered pairs over a value alphabet (every kind x every storage) against the "
                 "five coherence laws and a three-valued reference comparator (__int128 / IEEE double / bytes / structural)",
    "rule": "cases = ordered pairs (lhs, rhs) of alphabet elements x {same, different} document (side=vv), and (alphabet element, C++ scalar) "
            "with the scalar on the right (vs) and on the left (sv); each case evaluates == != < <= > >= in both operand orders and in every "
            "operand form (JsonVariant, JsonVariantConst, ElementProxy, JsonArray/JsonObject handles); "
            "non-trivial = the two operands differ in storage or kind (for a scalar: its C++ type is not the type the value was stored with); "
            "distinct by case key",
    "assumptions": ["the reference comparator in checks/nx_compare.hpp is written from the property statement; where the statement is silent "
                    "(ordering of unequal strings / raw values / containers / booleans, boolean against number, ordering of a null string pointer "
                    "against a string) only the coherence laws are demanded",
                    "values of different kinds are taken to be unequal and unordered (DESIGN.md C18)",
                    "a null `const char*` / `JsonString()` is null (the library's own reading: it equals a null variant and set() stores null)",
                    "the harness self-check (shard 0) verifies through as<>/is<>/serializeJson that every builder stored the value its reference describes",
                    "two configurations: the default (ARDUINOJSON_USE_DOUBLE=1) and ARDUINOJSON_USE_DOUBLE=0, where the reference of a value stored "
                    "through set(double) / parsed as a non-integer is (double)(float)x, integers keep exact 64-bit storage and a C++ double scalar "
                    "operand keeps its full value (keys of that job end in |cfg=nodouble); ARDUINOJSON_USE_LONG_LONG=1, 64-bit host"],
    "quick": [{"src": "checks/nx_compare.cpp", "mode": "compare", "deps": ["checks/nx_compare.hpp"]},
              {"src": "checks/nx_compare.cpp", "mode": "compare", "deps": ["checks/nx_compare.hpp"], "defs": ["ARDUINOJSON_USE_DOUBLE=0"]}],
    "thorough": [{"src": "checks/nx_compare.cpp", "mode": "compare", "deps": ["checks/nx_compare.hpp"]},
                 {"src": "checks/nx_compare.cpp", "mode": "compare", "deps": ["checks/nx_compare.hpp"], "defs": ["ARDUINOJSON_USE_DOUBLE=0"],
                  "args": ["--flat"]}],
}
