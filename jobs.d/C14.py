# one source, six parts (-DHXS_PART=n) so that the builds run in parallel: value uses, key uses, index lookups,
# containsKey/remove lookups, comparison operands + aliasing operands, copy paths + sharing grid
def _c14_jobs():
    return [{"src": "checks/hx_strings.cpp", "mode": "strings", "arduino": True, "deps": ["checks/hx_strings.hpp"],
             "defs": ["HXS_PART=%d" % part], "fallback_defs": ["VERIF_NO_INSPECTOR"]} for part in range(1, 7)]

PROPS["C14"] = {
    "level": "exploration",
    "technique": "exhaustive pairwise differential enumeration: string alphabet x source kinds x uses x mini-histories on the real library; "
                 "the same mini-history executed with source kind A and with source kind B on fresh documents must give identical extended "
                 "observations (isLinked() excepted); independence by overwriting / destroying the source of every copied kind right after "
                 "the call; sharing grid judged by the ordered-tree model, the inspector's reference counts and a ledger allocator",
    "rule": "case = (string s, use u, ordered pair of kinds (reference kind A = first kind that can express s, kind B)) with three runs of B "
            "(plain, source overwritten with 'X', source overwritten and destroyed), or (s, prefix length n, sized operand kind, buffer it aliases {held by address, pooled node, source of the storing operand}, use) "
            "run with the operand viewing that buffer and with the operand copied to a fresh address, "
            "or (s, k users in roles {value copied, value linked, key copied, "
            "key linked, raw}, kind rotation, one mutation of one user); kinds compared only when both can express s (embedded NUL: sized kinds only; "
            "65536 bytes: by-address kinds among themselves, copying kinds must refuse cleanly); non-trivial = the two kinds differ in storage "
            "(by address vs copied) or s needs NUL / bytes >= 0x80 / numeric conversion / a boundary length, for sharing: copied and linked users mixed",
    "assumptions": ["JsonString(ptr, Linked) and JsonString(ptr) (default ownership) are by-address kinds: NUL preservation is demanded only of "
                    "std::string, string_view, JsonString(ptr, size, Copied) and Arduino String; flash strings are zero-terminated (strlen_P)",
                    "the repository's Arduino String / F() stubs (extras/tests/Helpers) stand for the Arduino core; a 65535/65536-byte const char[N] "
                    "array object stands for a string literal of that size (same C++ type)",
                    "ordering results (< <= > >=) are compared between kinds only; their absolute value is C18's business; == / != with a string "
                    "operand must be true exactly when the bytes are identical",
                    "default configuration (ARDUINOJSON_STRING_LENGTH_SIZE=2: maximum length 65535)"],
    "quick": _c14_jobs(),
    "thorough": _c14_jobs(),
    "thorough_deadline": 900,
}
