_TINY5 = ["ARDUINOJSON_SLOT_ID_SIZE=1", "ARDUINOJSON_POOL_CAPACITY=4", "ARDUINOJSON_INITIAL_POOL_COUNT=1"]
def _c05(depth, alphabet, defs, cap=0):
    return {"src": "checks/hx.cpp", "mode": "fault", "defs": list(defs), "deps": ["checks/hx.hpp", "checks/hx_fault.hpp", "checks/hx_limits.hpp"],
            "fallback_defs": ["VERIF_NO_INSPECTOR"], "args": ["--depth=%d" % depth, "--alphabet=%s" % alphabet, "--cap=%d" % cap]}
PROPS["C05"] = {
    "level": "fault_enumeration",
    "technique": "exhaustive enumeration of allocator fault plans (every single position, every fail-from-k, every pair) over every (reached state, probe "
                 "operation) scenario and over deserialization inputs, on the real library with a shared fault plan across both ledger allocators",
    "rule": "case = (fault-free prefix history, probe operation or input) x fault plan; non-trivial = a fault was actually delivered during the probe; "
            "distinct by (scenario key, plan); oracle = crash-freedom, reporting rule, frame condition (DESIGN F.3), ledger at clear()/destruction, reuse",
    "assumptions": ["faults are injected into allocate and growing reallocate only; shrinking reallocations always succeed",
                    "prefix histories run fault-free; the fault plan covers the probe operation only",
                    "aliasing copies (known finding D11/D12 of C04) are not used as probes"],
    "quick": [_c05(1, "reduced", _TINY5),
              # 1-byte string lengths: maximum-length and over-long strings among the deserialization inputs
              _c05(0, "reduced", _TINY5 + ["ARDUINOJSON_STRING_LENGTH_SIZE=1"])],
    "thorough": [_c05(2, "reduced", _TINY5, cap=3000), _c05(1, "full", _TINY5), _c05(1, "reduced", []),
                 _c05(1, "reduced", _TINY5 + ["ARDUINOJSON_STRING_LENGTH_SIZE=1"])],
    "thorough_deadline": 1800,
}
