_TINY = ["ARDUINOJSON_SLOT_ID_SIZE=1", "ARDUINOJSON_POOL_CAPACITY=4", "ARDUINOJSON_INITIAL_POOL_COUNT=1"]

_ODD = ["ARDUINOJSON_SLOT_ID_SIZE=1", "ARDUINOJSON_POOL_CAPACITY=3", "ARDUINOJSON_INITIAL_POOL_COUNT=2"]  # not a power of two, two inline pools

def _hx_levels(depth, alphabet, defs, cap=0, extra=None):
    jobs = []
    tag = "%s%d_%s" % (alphabet, depth, "_".join(d.split("=")[-1] for d in defs) or "default")
    for e in (extra or []):
        tag += "_" + "".join(ch for ch in e if ch.isalnum())
    for lvl in range(1, depth + 1):
        jobs.append({"src": "checks/hx.cpp", "mode": "bfs", "defs": list(defs), "deps": ["checks/hx.hpp", "checks/hx_fault.hpp", "checks/hx_limits.hpp"],
                     "fallback_defs": ["VERIF_NO_INSPECTOR"],
                     "args": ["--level=%d" % lvl, "--depth=%d" % depth, "--alphabet=%s" % alphabet, "--cap=%d" % cap, "--tag=" + tag] + (extra or [])})
    return jobs

_HX_ASSUME = ["the ordered-tree model of engine/model.hpp + checks/hx.hpp (DESIGN Appendix F) states the public contract",
              "state key = model + concrete pool/free-list/string-pool state read through the BBLANCHON_ARDUINOJSON_VERIF friend hook; "
              "states stored as 128-bit hashes",
              "histories start from two empty documents on separate ledger allocators; at most 2 live references"]

PROPS["C04"] = {
    "level": "model_checking",
    "technique": "explicit-state breadth-first search over API histories of the real library (state = history replayed on fresh documents, "
                 "canonical concrete-state key), every transition compared with an ordered-tree reference model",
    "rule": "transition = (reached state, enabled operation) executed on the real library; non-trivial = the transition changed the concrete state; "
            "states de-duplicated on model + pool/free-list/string-pool key",
    "assumptions": _HX_ASSUME,
    "quick": _hx_levels(3, "reduced", _TINY) + _hx_levels(3, "reduced", _TINY, extra=["--api=handles"]) +
             _hx_levels(2, "reduced", _TINY, extra=["--init=bulk"]) + _hx_levels(2, "reduced", _ODD),
    "thorough": _hx_levels(4, "reduced", _TINY, cap=60000) + _hx_levels(3, "full", _TINY) + _hx_levels(3, "reduced", []) +
                _hx_levels(4, "reduced", _TINY, cap=60000, extra=["--api=handles"]) +
                _hx_levels(3, "reduced", _TINY, cap=60000, extra=["--init=bulk"]) + _hx_levels(3, "reduced", _TINY, cap=60000, extra=["--init=bulk-freed"]) +
                _hx_levels(3, "reduced", _ODD),
    "thorough_deadline": 2400,
}
_LEDGER_INPUTS = [{"src": "checks/ix_ledger.cpp", "mode": "ledger-inputs", "deps": ["checks/ix_ledger.hpp"]},
                  {"src": "checks/ix_ledger.cpp", "mode": "ledger-inputs", "deps": ["checks/ix_ledger.hpp"], "defs": ["ARDUINOJSON_STRING_LENGTH_SIZE=1"]}]

PROPS["C06"] = {
    "level": "model_checking",
    "technique": "the same explicit-state search as C04 on instrumented ledger allocators: exactly-once release, allocator identity, "
                 "free-list-before-new-pool probe, string reference counts via the inspector, frozen allocators during reads",
    "rule": "as C04; every transition additionally checked against the live-block ledger of both allocators, at clear() and at destruction; plus deserializer "
            "inputs on a ledger allocator (every string length around the builder and maximum-length boundaries, hostile MessagePack headers, all short MessagePack "
            "byte strings, generated documents): exactly-once release, no call during reads, peak bounded by one maximum-size string + linear in the bytes consumed",
    "assumptions": _HX_ASSUME,
    "quick": _hx_levels(3, "reduced", _TINY) + _hx_levels(3, "reduced", _TINY, extra=["--api=handles"]) +
             _hx_levels(2, "reduced", _TINY, extra=["--init=bulk-freed"]) + _LEDGER_INPUTS,
    "thorough": _hx_levels(4, "reduced", _TINY, cap=60000) + _hx_levels(3, "full", _TINY) + _hx_levels(3, "full", _TINY, extra=["--api=handles"]) + _LEDGER_INPUTS,
    "thorough_deadline": 2400,
}
