PROPS["C16"] = {
    "level": "exploration",
    "technique": "bounded exhaustive enumeration of document sequences x inter-document whitespace x trailing bytes x reader kinds, "
                 "with position-counting readers; per-call consumption, value and code compared with an independent layout computation "
                 "and the reference values; a prefix memo over the whole enumeration checks that no answer depends on unread bytes",
    "rule": "cases = (sequence of 1..3 documents over a 14-document JSON alphabet, separator before / between / after from 5 whitespace strings, "
            "suffix from 6 byte strings after the last separator, reader from {std::istream over a 1-byte-window streambuf, std::istream over a "
            "3-byte-window streambuf, custom reader byte-wise, custom reader block-wise, byte-wise custom reader with a discard-all filter (code and consumption only), Arduino Stream stub}) and (sequence of 1..3 MessagePack "
            "objects over every encoding with at most one non-minimal node of 12 small values, suffix from 5 byte strings, same readers); "
            "every case performs one call per document plus one more; required after call i: code Ok, observation of the document equal to "
            "the reference value, reader position exactly at the end of document i (one byte further allowed after a JSON number), the same "
            "(reader, consumed prefix) never gives two different answers anywhere in the enumeration, and the extra call returns EmptyInput when "
            "nothing (JSON: nothing but whitespace) remains; non-trivial = sequences of >= 2 documents; distinct by case key",
    "assumptions": ["reader position = offset of the next byte the reader has not handed to the library (std::streambuf get pointer, index of the custom / "
                    "Arduino reader); readers never deliver short reads before the end of the data (a short read is a timeout for the library)",
                    "at least one whitespace byte separates a JSON number from the next document (the statement lets a number take one further byte); "
                    "a number directly followed by a byte that is neither end of input nor whitespace is not enumerated (answer left open, DESIGN 4.3)",
                    "reference values: hand-written for the JSON alphabet and cross-checked with engine/refjson.hpp; engine/refmsgpack.hpp decode of each encoding",
                    "cases sharing their first document, first separator and reader are executed by the same shard, so the prefix memo sees every pair of cases "
                    "that share a consumed prefix",
                    "built with the repository's Arduino stubs (extras/tests/Helpers) and ARDUINOJSON_ENABLE_ARDUINO_{STRING,STREAM,PRINT}=1, ENABLE_PROGMEM=1"],
    "quick": [{"src": "checks/ix_stream.cpp", "mode": "stream", "arduino": True, "deps": ["checks/ix_stream.hpp"]},
              {"src": "checks/ix_stream.cpp", "mode": "stream", "arduino": True, "deps": ["checks/ix_stream.hpp"], "defs": ["ARDUINOJSON_USE_DOUBLE=0"]},
              # the option builds: comments count as whitespace in front of a document, NaN / Infinity are number tokens
              {"src": "checks/ix_stream.cpp", "mode": "stream", "arduino": True, "deps": ["checks/ix_stream.hpp"], "args": ["--fmt=json", "--docs=2"],
               "defs": ["ARDUINOJSON_ENABLE_COMMENTS=1", "ARDUINOJSON_ENABLE_NAN=1", "ARDUINOJSON_ENABLE_INFINITY=1"]}],
    "thorough": [{"src": "checks/ix_stream.cpp", "mode": "stream", "arduino": True, "deps": ["checks/ix_stream.hpp"]},
                 {"src": "checks/ix_stream.cpp", "mode": "stream", "arduino": True, "deps": ["checks/ix_stream.hpp"], "defs": ["ARDUINOJSON_USE_DOUBLE=0"]},
                 {"src": "checks/ix_stream.cpp", "mode": "stream", "arduino": True, "deps": ["checks/ix_stream.hpp"], "args": ["--fmt=json"],
                  "defs": ["ARDUINOJSON_ENABLE_COMMENTS=1", "ARDUINOJSON_ENABLE_NAN=1", "ARDUINOJSON_ENABLE_INFINITY=1"]},
                 {"src": "checks/ix_stream.cpp", "mode": "stream", "arduino": True, "deps": ["checks/ix_stream.hpp"], "args": ["--fmt=json", "--docs=2"],
                  "defs": ["ARDUINOJSON_DECODE_UNICODE=0"]}],
    "thorough_deadline": 860,
}
