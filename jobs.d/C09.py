_C09 = {"src": "checks/ix_msgpack.cpp", "mode": "msgpack", "deps": ["checks/ix_msgpack.hpp"]}
PROPS["C09"] = {
    "level": "exploration",
    "technique": "small-scope exhaustive enumeration: all MessagePack trees up to N nodes x all legal width choices (deviation-bounded) x all proper prefixes x "
                 "all single-byte substitutions, judged by an independent strict decoder",
    "rule": "cases = trees with <= N nodes over a boundary leaf alphabet (integers within 2 of 2^{0,7,8,15,16,31,32,63,64}, float32/64 specials, strings and "
            "bin/ext at header-width boundaries); each tree is encoded by the reference encoder in every family combination with <= k non-minimal nodes plus the "
            "all-maximal one; every encoding is decoded in full, at its proper prefixes and (short ones) under all 255 substitutions of every byte; "
            "non-trivial = the tree is a container; distinct by tree",
    "assumptions": ["engine/refmsgpack.hpp (independent encoder/decoder written from the MessagePack specification) is the oracle; "
                    "the pair is self-checked on every encoding (decoder inverts encoder; proper prefixes are incomplete)",
                    "NoMemory is accepted when the (possibly corrupted) input announces a str/bin/ext longer than the 65535-byte string limit",
                    "ARDUINOJSON_USE_LONG_LONG=0 job: JsonInteger is still 64 bits wide on this host, but the document has 32-bit integer storage only; "
                    "an integer outside [-2^31, 2^32) must then decode to null (never to a wrong number)"],
    "quick": [dict(_C09), dict(_C09, defs=["ARDUINOJSON_USE_DOUBLE=0"], quick_args=["--nodes=2", "--nonminimal=1"]),
              dict(_C09, defs=["ARDUINOJSON_USE_LONG_LONG=0"], quick_args=["--nodes=2", "--nonminimal=1"]),
              # a small non-power-of-two pool geometry with 2-byte slot ids: same inputs, same values
              dict(_C09, defs=["ARDUINOJSON_SLOT_ID_SIZE=2", "ARDUINOJSON_POOL_CAPACITY=2", "ARDUINOJSON_INITIAL_POOL_COUNT=3"], quick_args=["--nodes=2", "--nonminimal=1"])],
    "thorough": [dict(_C09, thorough_args=["--nodes=3", "--nonminimal=2"]),
                 dict(_C09, defs=["ARDUINOJSON_USE_DOUBLE=0"], thorough_args=["--nodes=2", "--nonminimal=2"]),
                 dict(_C09, defs=["ARDUINOJSON_USE_LONG_LONG=0"], thorough_args=["--nodes=2", "--nonminimal=2"])],
    "thorough_deadline": 1500,
}
