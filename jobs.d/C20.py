_TX = {"src": "checks/tx.cpp", "deps": ["checks/tx.hpp"]}
_SMALL_POOLS = ["ARDUINOJSON_POOL_CAPACITY=4", "ARDUINOJSON_INITIAL_POOL_COUNT=1"]
_TSAN_ENV = {"TSAN_OPTIONS": "halt_on_error=1 exitcode=66 second_deadlock_stack=1"}

PROPS["C20"] = {
    "level": "model_checking",
    "technique": "systematic, exhaustive, preemption-bounded exploration (CHESS style) of the thread interleavings of the real "
                 "library code under a cooperative scheduler whose scheduling points are the library's call-out seams "
                 "(allocator, reader, writer); plus a separate free-running ThreadSanitizer pass over the same thread bodies",
    "rule": "one case = (tuple of thread bodies, complete schedule); every schedule with at most P preemptions is executed once "
            "(union over 16 shards, by schedule index) and each thread's results (bytes written, error codes, serializeJson text "
            "of its documents, allocator ledger, its own sequence of call-outs) are compared with the sequential run of the same "
            "body; states = schedule-prefix nodes of the DFS tree over choice vectors, transitions = scheduling decisions taken, "
            "traces_validated_against_impl = complete schedules executed; non-trivial = distinct interleaved seam orders among "
            "schedules with >= 1 delivered preemption; outcomes = (body tuple, sequence of thread segments); "
            "tsan cases = one group of bodies in 4 free-running threads (a ThreadSanitizer report ends the process with status 66 "
            "and is attributed to the journalled case)",
    "assumptions": ["scheduling points are the call-out seams only: a mutable static that is written and read back with no "
                    "allocator/reader/writer call in between is invisible to the explorer; the ThreadSanitizer pass (a monitor, "
                    "not an enumeration) is the only guard for that shape",
                    "threads never block on each other, so the set of enabled threads is a function of the per-thread numbers of "
                    "scheduling points measured in the sequential runs; every executed schedule is checked against that "
                    "prediction choice point by choice point (a deterministic deviation is a violation 'seam-shape', a "
                    "non-reproducible one is NONDETERMINISM, exit status 2)",
                    "sequentially consistent hardware model: the scheduler serialises the threads, weak-memory effects are not explored",
                    "malloc/free/realloc of the C library are thread-safe (shared default allocator variant)",
                    "host build (x86-64 Linux, clang); default ARDUINOJSON_* configuration, a small-pool geometry, and the Arduino option set with the repository stubs (String, Print, Stream, flash)"],
    "quick": [
        dict(_TX, mode="selftest", flavour="sanmt", shards=1),
        dict(_TX, mode="sched", flavour="sanmt", shards=16, args=["--threads=2", "--P=2"]),
        dict(_TX, mode="tsan", flavour="tsan", shards=1, env=_TSAN_ENV, args=["--iters=2000"]),
        # 4-slot pools: the shared read-only document (and every thread's own documents) spans several pools
        dict(_TX, mode="sched", flavour="sanmt", shards=16, args=["--threads=2", "--P=1"], defs=_SMALL_POOLS),
        dict(_TX, mode="tsan", flavour="tsan", shards=1, env=_TSAN_ENV, args=["--iters=1000"], defs=_SMALL_POOLS),
        # the Arduino configuration: String / Print destinations, Stream / String / flash sources (bodies G and H)
        dict(_TX, mode="sched", flavour="sanmt", shards=16, arduino=True, args=["--threads=2", "--P=1", "--tuples=G+G,H+H,G+H,C+G,B+H"]),
        dict(_TX, mode="tsan", flavour="tsan", shards=1, arduino=True, env=_TSAN_ENV, args=["--iters=1000", "--groups=G,H,Gd,Hd,G+H,C+G,B,C"]),
    ],
    "thorough": [
        dict(_TX, mode="selftest", flavour="sanmt", shards=1),
        dict(_TX, mode="sched", flavour="sanmt", shards=16, args=["--threads=2", "--P=3"]),
        dict(_TX, mode="sched", flavour="sanmt", shards=16, args=["--threads=3", "--P=2"]),
        dict(_TX, mode="tsan", flavour="tsan", shards=1, env=_TSAN_ENV, args=["--iters=20000"]),
        dict(_TX, mode="sched", flavour="sanmt", shards=16, args=["--threads=2", "--P=2"], defs=_SMALL_POOLS),
        dict(_TX, mode="tsan", flavour="tsan", shards=1, env=_TSAN_ENV, args=["--iters=5000"], defs=_SMALL_POOLS),
        dict(_TX, mode="sched", flavour="sanmt", shards=16, arduino=True, args=["--threads=2", "--P=2", "--tuples=G+G,H+H,G+H,C+G,B+H"]),
        dict(_TX, mode="tsan", flavour="tsan", shards=1, arduino=True, env=_TSAN_ENV, args=["--iters=5000", "--groups=G,H,Gd,Hd,G+H,C+G,B,C"]),
    ],
    "thorough_deadline": 840,
}
