PROPS["C01"] = {
    "level": "exploration",
    "technique": "small-scope exhaustive enumeration: all JSON trees up to N nodes x spellings x whitespace layouts x destination states, judged by an independent RFC 8259 parser",
    "rule": "cases = every tree with <= N nodes over a boundary leaf alphabet (integer/float boundary literals, strings with NUL, escapes, UTF-8, "
            "builder-capacity lengths) and a 6-key alphabet with repetition; each printed by the reference printer in 4 escape spellings and every whitespace "
            "layout (none, everywhere, each single position x 4 characters) and parsed into 5 destination states through const char* and ptr+size; "
            "non-trivial = the text is a container or has duplicate keys; distinct by text",
    "assumptions": ["engine/refjson.hpp (independent strict RFC 8259 parser/printer, glibc strtold for non-integer literals) is the oracle; "
                    "it is self-checked on every generated text (printer -> parser identity)",
                    "number accuracy judged by the C12 tolerances; position of a repeated key may be first or last occurrence",
                    "default configuration (DECODE_UNICODE=1, nesting limit 10)"],
    "quick": [{"src": "checks/ix_valid.cpp", "mode": "valid", "deps": ["checks/ix_valid.hpp"]},
              # a small non-power-of-two pool geometry: the same texts must give the same documents
              {"src": "checks/ix_valid.cpp", "mode": "valid", "deps": ["checks/ix_valid.hpp"], "args": ["--nodes=2"],
               "defs": ["ARDUINOJSON_SLOT_ID_SIZE=1", "ARDUINOJSON_POOL_CAPACITY=7", "ARDUINOJSON_INITIAL_POOL_COUNT=3"]}],
    "thorough": [{"src": "checks/ix_valid.cpp", "mode": "valid", "deps": ["checks/ix_valid.hpp"]},
                 {"src": "checks/ix_valid.cpp", "mode": "valid", "deps": ["checks/ix_valid.hpp"], "args": ["--nodes=3", "--deep-nodes=0"],
                  "defs": ["ARDUINOJSON_SLOT_ID_SIZE=1", "ARDUINOJSON_POOL_CAPACITY=7", "ARDUINOJSON_INITIAL_POOL_COUNT=3"]},
                 {"src": "checks/ix_valid.cpp", "mode": "valid", "deps": ["checks/ix_valid.hpp"], "args": ["--nodes=3", "--deep-nodes=0"],
                  "defs": ["ARDUINOJSON_SLOT_ID_SIZE=2", "ARDUINOJSON_POOL_CAPACITY=100", "ARDUINOJSON_STRING_LENGTH_SIZE=1"]}],
    "thorough_deadline": 1500,
}
