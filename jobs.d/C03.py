# C03 — deserializers are memory-safe, input-bounded and source-independent on any bytes (checks/ix_any.hpp).
# One binary per build configuration; the jobs run one after the other and the driver hands each one what is left of the
# property's deadline, so each of the first four thorough jobs is limited to a share of it through --share (about 180 s
# each of 1440 s; they need about 110 s on an idle 16-core machine) and the harness stops cleanly, deepest level first.
_C03_ENV = {"ASAN_OPTIONS": "detect_leaks=0:abort_on_error=1:allocator_may_return_null=1:detect_stack_use_after_return=0:"
                            "max_malloc_fill_size=0:malloc_context_size=4:quarantine_size_mb=2:thread_local_quarantine_size_kb=64",
            "UBSAN_OPTIONS": "print_stacktrace=1:halt_on_error=1"}


def _c03(defs, quick_args=(), thorough_args=()):
    return {"src": "checks/ix_any.cpp", "mode": "any", "arduino": True, "deps": ["checks/ix_any.hpp"], "defs": list(defs),
            "env": _C03_ENV, "quick_args": list(quick_args), "thorough_args": list(thorough_args)}


# build options that only touch the JSON parser: the MessagePack part of the product is reduced to the star in quick
_JSON_ONLY_Q = ["--corpus-full=12", "--mp-full=1", "--mp-star=2", "--corpus-full-mp=0"]
# quick: the non-default configurations take the full product on corpus items <= 12 bytes (default configuration: <= 24) and
# on MessagePack strings of length <= 1 (default: <= 2; the 2-byte strings get the star) — thorough has no such reduction
_REDUCED_Q = ["--corpus-full=12", "--mp-full=1", "--mp-star=2"]
_C03_SMALL = _c03(["ARDUINOJSON_SLOT_ID_SIZE=1", "ARDUINOJSON_POOL_CAPACITY=4"], _REDUCED_Q, ["--share=0.125"])
_C03_LEN1 = _c03(["ARDUINOJSON_STRING_LENGTH_SIZE=1"], _REDUCED_Q, ["--share=0.14"])
_C03_DIALECT = _c03(["ARDUINOJSON_ENABLE_COMMENTS=1", "ARDUINOJSON_ENABLE_NAN=1", "ARDUINOJSON_ENABLE_INFINITY=1"], _JSON_ONLY_Q, ["--share=0.16"])
_C03_NOUNI = _c03(["ARDUINOJSON_DECODE_UNICODE=0"], _JSON_ONLY_Q, ["--share=0.19"])
# the default configuration runs last and takes what is left of the deadline: it alone carries the deepest levels
_C03_DEFAULT = _c03([], [], ["--json-ram=6", "--mp-ram4=1", "--corpus-max=4096"])

PROPS["C03"] = {
    "level": "exploration",
    "technique": "bounded exhaustive enumeration of byte strings x 12 input kinds x 6 nesting limits x 14 filters x 5 build configurations; "
                 "oracles: ASan/UBSan with every input in an exactly-sized heap block, the six documented codes, a traversable/serializable/"
                 "clearable/reusable document, an allocator ledger, and equality of (code, observation) across all input kinds",
    "rule": "cases = (1) JSON: all strings over a 26-symbol alphabet of structural bytes up to length L plus NUL and 0xFF inserted once at every "
            "position; (2) MessagePack: all byte strings of length 0..2, all (thorough) or header-led (quick) 3-byte strings, header-led 4-byte "
            "strings (thorough, default configuration); (3) the fuzzing seed files + 12 generated documents, each with every truncation and every "
            "single-byte substitution.  Short inputs take the full product kinds x limits x filters, longer ones the one-factor-at-a-time star, "
            "the deepest level only the RAM kinds (see bounds).  A case is one input; evaluations counts inputs, metric `runs` counts "
            "deserializations.  non-trivial = the library returned Ok with a non-null document or failed after having stored a value or "
            "allocated; distinct by input bytes (the deepest levels are counted in metric nontrivial_inputs_counted_in_deepest_levels instead)",
    "assumptions": ["zero-terminated kinds (const char*, flash pointer without size, JsonVariant/JsonVariantConst holding the text) are given the "
                    "bytes up to the first NUL and are compared with the bounded kinds run on exactly those bytes; MessagePack is only given "
                    "through bounded kinds",
                    "Arduino String / Stream / flash pointers are the repository's own test stubs (extras/tests/Helpers); the String stub is filled "
                    "through its protected concat(ptr,len) so it can hold NUL bytes and is a bounded kind",
                    "std::string and std::istringstream own a copy of the bytes, so an over-read of these two kinds is only detected through a "
                    "different result; all other kinds read from an exactly-sized heap block",
                    "allocations above 1 MB are refused by the test allocator: NoMemory is a legitimate code (and must still be the same for every kind)",
                    "reader calls after the reader reported the end of input are recorded as metrics, not judged",
                    "a crash or sanitizer report is attributed by the driver to the journalled input; the (kind, limit, filter) is found by replay"],
    "quick": [_C03_SMALL, _C03_LEN1, _C03_DIALECT, _C03_NOUNI, _C03_DEFAULT],
    "thorough": [_C03_SMALL, _C03_LEN1, _C03_DIALECT, _C03_NOUNI, _C03_DEFAULT],
    "thorough_deadline": 1440,
}
