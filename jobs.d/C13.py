_C13_SRC = {"src": "checks/nx_convert.cpp", "deps": ["checks/nx_convert.hpp"]}
_C13_JOBS = [
    # sanitizer build: boundary sets of every storage kind x 14 targets (doc, handle, JSON text) and numeric strings on a
    # length grid, linked strings in exactly-sized heap blocks.  On the unchanged tree several hundred cases die under
    # ASan (D1, D6): each one costs a shard restart, hence the generous restart limit.
    dict(_C13_SRC, mode="convert", defs=["NXC_MODE_CONVERT"], max_restarts=4000),
    # sanitizer build: copyArray into fenced destinations
    dict(_C13_SRC, mode="copyarray", defs=["NXC_MODE_COPYARRAY"], max_restarts=400),
    # g++ -O2: numeric strings of every length 1..1300, value oracle only
    dict(_C13_SRC, mode="strings", flavour="fast", defs=["NXC_MODE_STRINGS"]),
    # the same sweep with ARDUINOJSON_ENABLE_PROGMEM=1 (powers-of-ten tables read through pgm_read_*; repository stubs)
    dict(_C13_SRC, mode="strings", flavour="fast", defs=["NXC_MODE_STRINGS"], arduino=True),
    # single-precision build: the parser's digit counters are 8 bits wide there
    dict(_C13_SRC, mode="strings", flavour="fast", defs=["NXC_MODE_STRINGS", "ARDUINOJSON_USE_DOUBLE=0"]),
    # g++ -O2: the 2^32 loops (quick: a grid of 65536-value blocks around every multiple of 2^22)
    dict(_C13_SRC, mode="convert32", flavour="fast", defs=["NXC_MODE_CONVERT32"],
         quick_args=["--blocks=grid"], thorough_args=["--blocks=all"]),
]
PROPS["C13"] = {
    "level": "exploration",
    "technique": "bounded exhaustive enumeration of stored numbers x target types against a reference conversion computed in "
                 "__int128 / long double (all 2^32 bit patterns of int32, uint32 and float storage; boundary sets for 64-bit "
                 "kinds; numeric strings of every length 1..1300; copyArray over all source/destination length pairs) under "
                 "ASan+UBSan for the boundary sets and g++ -O2 for the exhaustive loops",
    "rule": "cases = (storage kind, bit pattern, target type) [one journalled case per 65536-value block in the 2^32 loops, whose "
            "individual conversions are counted in metrics.conversions], (string literal, linked|copied, target type), "
            "(copyArray shape); non-trivial = the reference result is not the identity: value outside the target range, "
            "non-integral, NaN/inf, integer to floating, a string longer than 20 characters or not a number, a copy that "
            "truncates or has a non-array/non-string source; distinct by case key (for 2^32 loops: blocks containing at "
            "least one such conversion, the conversions themselves are in metrics.nontrivial_conversions)",
    "assumptions": [
        "reference conversion in checks/nx_convert.hpp is written from the property statement: integral T gets trunc(v) when "
        "v is within range(T), 0 when trunc(v) is outside; for highest(T) < v < highest(T)+1 (and the mirror image) both "
        "trunc(v) and 0 are accepted because the statement can be read either way (counted in metrics.dontcare_sliver)",
        "long double is the x87 80-bit format (64-bit significand): every int64/uint64/float/double value is exact in it",
        "numeric strings and non-integer JSON literals are judged with the parse tolerance of C12 (1e-6 relative; exact for "
        "integer literals in [-2^63, 2^64); beyond 1e+-300 the out-of-range result is also accepted)",
        "glibc strtold is correctly rounded",
        "default configuration (ARDUINOJSON_USE_DOUBLE=1, USE_LONG_LONG=1, ENABLE_NAN=0, ENABLE_INFINITY=0); the numeric-string sweep also in a USE_DOUBLE=0 build",
    ],
    "quick": _C13_JOBS,
    "thorough": _C13_JOBS,
    "thorough_deadline": 840,
}
