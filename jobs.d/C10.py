def _c10(c, n, i, u, args):
    return {"src": "checks/ix_dialect.cpp", "mode": "dialect", "deps": ["checks/ix_dialect.hpp"],
            "defs": ["ARDUINOJSON_ENABLE_COMMENTS=%d" % c, "ARDUINOJSON_ENABLE_NAN=%d" % n, "ARDUINOJSON_ENABLE_INFINITY=%d" % i,
                     "ARDUINOJSON_DECODE_UNICODE=%d" % u], "args": args}

PROPS["C10"] = {
    "level": "exploration",
    "technique": "exhaustive enumeration of all token sequences up to a length over a JSON token alphabet, per option build, judged by an independent "
                 "three-valued dialect recogniser",
    "rule": "cases = every concatenation of <= n tokens from a 46-token alphabet (brackets, separators, strings in both quotes, unquoted identifiers, "
            "well- and ill-formed numbers, literals and their prefixes, escapes incl. bad hex digits, comments, NaN/Infinity) and of <= m tokens from a 14-token core; "
            "each judged at nesting limits 10, 2 and 1; non-trivial = length >= 2 and the verdict is not DontCare; distinct by text",
    "assumptions": ["engine/dialect.hpp encodes the dialect clauses of DESIGN 5/C10; verdicts are sets of acceptable codes; the DontCare zones are listed there and "
                    "their sizes are reported in the evidence metrics (zone:*)",
                    "numeric values judged with the C12 tolerance; position of repeated keys may be first or last"],
    "quick": [_c10(0, 0, 0, 1, ["--full=4", "--core=6"]), _c10(1, 1, 1, 1, ["--full=3", "--core=5"]),
              _c10(1, 0, 0, 0, ["--full=3", "--core=5"]), _c10(0, 1, 0, 1, ["--full=3", "--core=4"]),
              # the remaining pairs of option values: Infinity without NaN, NaN without unicode decoding
              _c10(0, 0, 1, 1, ["--full=3", "--core=4"]), _c10(0, 1, 1, 0, ["--full=2", "--core=4"])],
    "thorough": [_c10(c, n, i, u, ["--full=5", "--core=7"] if (c, n, i, u) in ((0, 0, 0, 1), (1, 1, 1, 1)) else ["--full=4", "--core=6"])
                 for c in (0, 1) for n in (0, 1) for i in (0, 1) for u in (0, 1)],
    "thorough_deadline": 2400,
}
