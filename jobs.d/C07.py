_DX_DEPS = ["checks/dx_common.hpp", "checks/dx_json.hpp", "checks/dx_roundtrip.hpp", "checks/dx_msgpack.hpp", "checks/ix_valid.hpp"]

PROPS["C07"] = {
    "level": "exploration",
    "technique": "small-scope exhaustive enumeration of documents (the C02 generator without raw values) and of JSON texts (the C01 generator), "
                 "each taken through JSON, MessagePack and JSON->MessagePack round trips and compared with the model / with each other",
    "rule": "cases J+M = every document of the C02 enumeration without raw values (full leaf alphabet alone and in one-level containers, all byte values in "
            "strings and keys, all trees with <= N nodes (quick 3, thorough 4; thorough adds every 5-node tree with a 6-leaf alphabet from depth 2, unsanitized build), chains of depth 1..12 with the default nesting limit up to 10 and NestingLimit(255) "
            "beyond; thorough adds depth 100 and 200), plus strings and containers on the MessagePack width boundaries; "
            "cases X = every text printed by the reference printer from all trees with <= 3 nodes over the C01 leaf and key alphabets (thorough adds all 4-node trees with the 13-leaf reduced alphabet below the root) "
            "(duplicate keys allowed). non-trivial = document with a container, string, float or integer beyond 32 bits; distinct by case key",
    "assumptions": ["J: the text is judged in two composed steps through the independent parser: printed literal vs the stored value by the C12 printing bound, "
                    "value read back vs the printed literal by the C12 parsing rule (refjson::matches); an integral float may come back integer-typed",
                    "J: non-finite floats are printed as null (C02) and therefore come back as null; this is accepted",
                    "M: floats must come back with exactly the same value (an integral float may come back as the integer of that value; -0.0 may come back as 0; any NaN for NaN)",
                    "X: 'compares equal (numbers by value)' = library operator== in both directions plus equality of a value-level rendering "
                    "(integral floats and integers of the same value coincide); texts that deserializeJson does not accept are C01's business and are skipped",
                    "default configuration"],
    # hang_s: the 65535/65536-member MessagePack round trips take tens of seconds under ASan on a busy machine
    "quick": [{"src": "checks/dx.cpp", "mode": "roundtrip", "arduino": True, "deps": _DX_DEPS, "hang_s": 600}],
    "thorough": [{"src": "checks/dx.cpp", "mode": "roundtrip", "arduino": True, "deps": _DX_DEPS, "hang_s": 600},
                 # second pass (J and M only): all 5-node trees (6-leaf alphabet below depth 2), -O2 build without sanitizers
                 {"src": "checks/dx.cpp", "mode": "roundtrip", "flavour": "fast", "arduino": True, "deps": _DX_DEPS, "args": ["--exact=5", "--deepfrom=2"]}],
    "thorough_deadline": 780,
}
