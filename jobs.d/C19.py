def _geo(idsz, cap, init, strlen=None):
    d = ["ARDUINOJSON_SLOT_ID_SIZE=%d" % idsz, "ARDUINOJSON_POOL_CAPACITY=%d" % cap, "ARDUINOJSON_INITIAL_POOL_COUNT=%d" % init]
    if strlen:
        d.append("ARDUINOJSON_STRING_LENGTH_SIZE=%d" % strlen)
    return d

def _bfs(defs, depth, extra=None):
    return [{"src": "checks/hx.cpp", "mode": "bfs", "defs": list(defs), "deps": ["checks/hx.hpp", "checks/hx_fault.hpp", "checks/hx_limits.hpp"],
             "fallback_defs": ["VERIF_NO_INSPECTOR"],
             "args": ["--level=%d" % l, "--depth=%d" % depth, "--alphabet=reduced", "--cap=20000", "--no-alias",
                      "--tag=geo_" + "_".join(d.split("=")[-1] for d in defs) + "".join("_" + "".join(ch for ch in e if ch.isalnum()) for e in (extra or []))] + (extra or [])}
            for l in range(1, depth + 1)]

_PX = {"src": "checks/px.cpp", "mode": "px", "flavour": "fastclang", "deps": ["checks/px_unit.cpp"], "hang_s": 600}

PROPS["C19"] = {
    "level": "model_checking",
    "technique": "abstract pool machine checked over all pool geometries and bound to the real allocator core by trace equality (one compiled unit per geometry); "
                 "explicit-state search of API histories against the geometry-free tree model under a matrix of -D configurations; limit-reaching fill/remove/refill scripts",
    "rule": "px: case = one geometry (slot-id size x pool capacity x inline pools), the real MemoryPoolList compiled for it and driven to the id limit, trace compared with the machine; "
            "bfs: as C04 under each geometry of the matrix (all compared with the same geometry-free model, hence with each other); limits: fill to limit-1/limit/limit+1, "
            "remove and refill, clear and refill, maximum-length strings; non-trivial = the geometry / script reached a limit",
    "assumptions": ["the pool machine in checks/px.cpp states the clean-edge contract: ids 0..NULL_SLOT-1 exactly once, then refusal, LIFO reuse, no aliasing",
                    "4-byte slot ids cannot be filled to their limit on this host; they are covered below the limit only",
                    "pool-table request sizes are checked for plausibility, not compared (growth policy is not part of the contract)"],
    "quick": [dict(_PX, args=["--caps=list"])] + _bfs(_geo(1, 3, 3), 2) + _bfs(_geo(2, 7, 2, 1), 2) + _bfs(_geo(4, 128, 4, 4), 2) +
             _bfs(_geo(1, 128, 4), 2) +  # more inline pools than the id range can address
             _bfs(_geo(1, 4, 1), 1, ["--init=bulk"]) + _bfs(_geo(1, 3, 2), 1, ["--init=bulk-freed"]) +  # heap pool table, shrunk by the parser, then every operation
             [{"src": "checks/hx.cpp", "mode": "limits", "defs": _geo(2, 7, 2, 1), "arduino": True, "fallback_defs": ["VERIF_NO_INSPECTOR"], "deps": ["checks/hx.hpp", "checks/hx_fault.hpp", "checks/hx_limits.hpp"], "shards": 8}] +  # reference counts wider than string lengths
             [{"src": "checks/hx.cpp", "mode": "limits", "defs": _geo(1, 4, 1, 1), "arduino": True, "fallback_defs": ["VERIF_NO_INSPECTOR"], "deps": ["checks/hx.hpp", "checks/hx_fault.hpp", "checks/hx_limits.hpp"], "shards": 4},
              {"src": "checks/hx.cpp", "mode": "limits", "defs": _geo(1, 10, 3, 2), "arduino": True, "fallback_defs": ["VERIF_NO_INSPECTOR"], "deps": ["checks/hx.hpp", "checks/hx_fault.hpp", "checks/hx_limits.hpp"], "shards": 4}],
    "thorough": [dict(_PX, args=["--caps=all", "--id2"])] +
                sum([_bfs(_geo(i, c, n, s), 3) for (i, c, n, s) in
                     [(1, 2, 1, 1), (1, 3, 3, 2), (1, 5, 2, 1), (1, 7, 4, 2), (1, 10, 3, 1), (1, 16, 1, 2), (1, 17, 2, 4), (1, 100, 1, 1), (1, 255, 1, 2), (1, 128, 4, 1), (1, 85, 4, 2), (1, 255, 3, 1),
                      (2, 2, 1, 1), (2, 7, 2, 2), (2, 15, 3, 4), (2, 31, 4, 1), (2, 256, 1, 2), (4, 8, 1, 1), (4, 64, 2, 2), (4, 127, 3, 4), (4, 256, 4, 2)]], []) +
                [{"src": "checks/hx.cpp", "mode": "limits", "defs": _geo(i, c, n, s), "arduino": True, "fallback_defs": ["VERIF_NO_INSPECTOR"], "deps": ["checks/hx.hpp", "checks/hx_fault.hpp", "checks/hx_limits.hpp"], "shards": 4}
                 for (i, c, n, s) in [(1, 4, 1, 1), (1, 10, 3, 2), (1, 255, 1, 1), (1, 64, 2, 2), (1, 7, 4, 1), (2, 256, 1, 2), (2, 100, 3, 1)]],
    "thorough_deadline": 2400,
}
