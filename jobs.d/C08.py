_DX_DEPS = ["checks/dx_common.hpp", "checks/dx_json.hpp", "checks/dx_roundtrip.hpp", "checks/dx_msgpack.hpp", "checks/ix_valid.hpp"]
_DX_SAN = {"src": "checks/dx.cpp", "mode": "msgpack", "arduino": True, "deps": _DX_DEPS}
_DX_LEN4 = {"src": "checks/dx.cpp", "mode": "msgpack", "arduino": True, "deps": _DX_DEPS, "defs": ["ARDUINOJSON_STRING_LENGTH_SIZE=4"]}
_DX_BIG = {"src": "checks/dx.cpp", "mode": "msgpack-big", "flavour": "fast", "arduino": True, "deps": _DX_DEPS, "shards": 8, "hang_s": 600}
_DX_NODOUBLE = {"src": "checks/dx.cpp", "mode": "msgpack", "arduino": True, "deps": _DX_DEPS, "defs": ["ARDUINOJSON_USE_DOUBLE=0"]}
_DX_NOLONGLONG = {"src": "checks/dx.cpp", "mode": "msgpack", "arduino": True, "deps": _DX_DEPS, "defs": ["ARDUINOJSON_USE_LONG_LONG=0"]}
_DX_FLOATS = {"src": "checks/dx.cpp", "mode": "msgpack-floats", "flavour": "fast", "arduino": True, "deps": _DX_DEPS}

PROPS["C08"] = {
    "level": "exploration",
    "technique": "bounded exhaustive enumeration of documents concentrated on every header-width boundary of MessagePack x all destination kinds x all "
                 "buffer capacities, judged by an independent strict MessagePack decoder; thorough adds all 2^32 float32 values",
    "rule": "cases = nil, booleans; every integer within 2 of +-2^k (k = 0..64) in unsigned and signed storage; named float/double boundary values; "
            "2 signs x every exponent x ~50/~107 mantissa patterns for float32/double (one case per sign-exponent block; thorough: all 2^32 float32 values in blocks of 65536); "
            "strings and keys of 0 1 30..33 254..257 65534 65535 bytes (65536 65537 2^24 in a STRING_LENGTH_SIZE=4 build); arrays and maps of 0 1 14..17 children, "
            "15..17 x 15..17 nested in 4 shapes, arrays of 255 256 65534 65535 (thorough 65536 65537) elements, maps of 65535 (thorough 65534..65537) members; "
            "MsgPackBinary / MsgPackExtension set through the API with payloads of 0 1 2 3 4 5 8 9 15 16 17 255 256 257 65000 (65535 65536 65537 2^24-1 2^24 2^24+1 in the 4-byte-length build) "
            "bytes and all 256 extension types at size 1; all trees with <= 3 (thorough 4) nodes over a reduced alphabet of these; chains of depth up to 12 (thorough 100). "
            "Destinations and capacities as C02 (every capacity 0..length+2 for outputs up to 300 bytes). "
            "non-trivial = container, string longer than 31, integer outside the fixint range, float, bin/ext; distinct by case key",
    "assumptions": ["engine/refmsgpack.hpp is the independent strict decoder (rejects 0xC1, short input; trailing bytes detected by the consumed length)",
                    "'right length/count header' = the smallest header family that can hold the length / count",
                    "a float may be emitted as float32 or float64 of exactly the same value, or as an integer when integral and in [-2^63, 2^64); NaN payloads must be preserved in the same width",
                    "bin/ext 'verbatim' = the emitted object is byte-identical to what the document retains, and the independent decoder sees the payload and type given to the API",
                    "maps of >= 65534 members are built by deserializeMsgPack from a reference encoding (member-by-member construction is quadratic; thorough also builds 65535 and 65536 through the API), -O2 build without sanitizers",
                    "an Arduino String destination is only exercised for outputs without a NUL byte"],
    "quick": [_DX_SAN, _DX_BIG, _DX_LEN4, _DX_NODOUBLE, _DX_NOLONGLONG],
    "thorough": [_DX_SAN, _DX_BIG, _DX_LEN4, _DX_FLOATS, _DX_NODOUBLE, _DX_NOLONGLONG],
    "thorough_deadline": 840,
}
